#!/bin/sh
# Final confirmation of every seeded change ON /repo ITSELF: git apply, run the quick check of its property, git checkout.
# Writes seeded/RESULTS.tsv (seed, property, exit code, first VIOLATION line).
cd /verif
out=seeded/RESULTS.tsv; : > $out
for d in seeded/*/; do
  s=$(basename $d); p=$(python3 -c "import json;print(json.load(open('$d/meta.json'))['property'])")
  git -C /repo apply /verif/$d/patch.diff || { echo "$s	$p	patch-failed	" >> $out; continue; }
  PYVC_BOUNDED_FIRST=1 ./check $p --tier quick > /tmp/confirm_$s.log 2>&1; rc=$?
  git -C /repo checkout -- . 
  v=$(grep -m1 "^VIOLATION" /tmp/confirm_$s.log | cut -c1-220)
  u=$(grep -m1 -E "^(OUT-OF-SUBSET|CONTRACT-DRIFT|UNDECIDED)" /tmp/confirm_$s.log | cut -c1-160)
  echo "$s	$p	$rc	$v	$u" >> $out
  rm -f /tmp/confirm_$s.log
done
git -C /repo status --short
