#!/usr/bin/env python3
"""Verify one contract key (function or lemma): tools/one.py KEY [substring-of-obligation-name] [--dump]"""
import os, sys, time
ROOT = os.path.dirname(os.path.dirname(os.path.abspath(__file__)))
sys.path.insert(0, ROOT)
os.environ.setdefault("PYVC_TMP", "/tmp")
from pyvc import driver, solve
reg = driver.load_contracts()
key = sys.argv[1]
from pyvc import vals
if reg.contracts[key].view == "string" and not vals.STRING_MODE:
    os.environ["PYVC_NODE"] = "str"
    os.execv(sys.executable, [sys.executable] + sys.argv)
flt = sys.argv[2] if len(sys.argv) > 2 and not sys.argv[2].startswith("--") else None
t0 = time.time()
obls, info = driver.generate(reg, key)
print("generated", len(obls), "obligations in", round(time.time() - t0, 1), "s; paths", info["paths"], "callees", len(info["callees"]))
if flt:
    obls = [o for o in obls if flt in o.name]
res = solve.discharge(obls, thorough="--thorough" in sys.argv)
bad = 0
for o, r in zip(obls, res):
    tt = sum(b.get("seconds", 0) for b in r["backends"].values())
    if r["verdict"] != "proved" or "--all" in sys.argv or tt > 3:
        print(r["verdict"], round(tt, 2), o.name, {k: (v["result"], v["seconds"]) for k, v in r["backends"].items()})
        if r["verdict"] == "refuted" and "--model" in sys.argv:
            print(r.get("model"))
    bad += r["verdict"] not in ("proved",) and not (o.cover and r["verdict"] == "cover-unknown")
if "--dump" in sys.argv:
    for o in obls:
        open("/tmp/" + o.name.replace("/", "_")[:100] + ".smt2", "w").write(solve.to_smt2(o.hyps, o.goal, o.cover))
print("not proved:", bad, "of", len(obls), "wall", round(time.time() - t0, 1))
