#!/usr/bin/env python3
"""Mutant corpus for the PROOF layer: AST-level mutants of functions under contract are written into a scratch copy of /repo/src and the
function is re-verified against its unchanged contract. A mutant 'survives' when every obligation is still discharged (then the contract is too
weak there -- or the mutant is equivalent). Usage: tools/mutants.py [key-substring ...]   (writes evidence/mutants.json)"""
import ast, copy, json, os, shutil, subprocess, sys, tempfile, concurrent.futures as cf
ROOT = os.path.dirname(os.path.dirname(os.path.abspath(__file__)))
sys.path.insert(0, ROOT)
os.environ.setdefault("PYTHONHASHSEED", "0")
from pyvc import driver, extract

reg = driver.load_contracts()
SRC = os.environ.get("PYVC_REPO_SRC", "/repo/src")
keys = [k for k, c in reg.contracts.items() if not c.is_lemma and c.status == "verify" and not c.inline and c.module]
flt = [a for a in sys.argv[1:] if not a.startswith("-")]
if flt:
    keys = [k for k in keys if any(f in k for f in flt)]


def mutants_of(fn):
    """yield (description, mutated FunctionDef)"""
    nodes = list(ast.walk(fn))
    for i, n in enumerate(nodes):
        def clone():
            f2 = copy.deepcopy(fn)
            return f2, list(ast.walk(f2))[i]
        if isinstance(n, ast.If):
            f2, m = clone(); m.test = ast.UnaryOp(op=ast.Not(), operand=m.test); yield f"negate if@{n.lineno}", f2
        if isinstance(n, ast.Compare) and len(n.ops) == 1:
            swap = {ast.In: ast.NotIn, ast.NotIn: ast.In, ast.Eq: ast.NotEq, ast.NotEq: ast.Eq, ast.Is: ast.IsNot, ast.IsNot: ast.Is, ast.Gt: ast.GtE, ast.Lt: ast.LtE}
            if type(n.ops[0]) in swap:
                f2, m = clone(); m.ops = [swap[type(n.ops[0])]()]; yield f"{type(n.ops[0]).__name__}->{swap[type(n.ops[0])].__name__}@{n.lineno}", f2
        if isinstance(n, ast.BoolOp):
            f2, m = clone(); m.op = ast.Or() if isinstance(n.op, ast.And) else ast.And(); yield f"and<->or@{n.lineno}", f2
        if isinstance(n, ast.UnaryOp) and isinstance(n.op, ast.Not):
            f2 = copy.deepcopy(fn)
            class R(ast.NodeTransformer):
                cnt = -1
                def visit_UnaryOp(self, x):
                    self.generic_visit(x)
                    return x
            # replace the i-th node by its operand
            parent_map = {}
            for p_ in ast.walk(f2):
                for ch in ast.iter_child_nodes(p_):
                    parent_map[id(ch)] = p_
            tgt = list(ast.walk(f2))[i]
            par = parent_map.get(id(tgt))
            if par is not None:
                for field, val in ast.iter_fields(par):
                    if val is tgt:
                        setattr(par, field, tgt.operand)
                    elif isinstance(val, list) and tgt in val:
                        val[val.index(tgt)] = tgt.operand
                yield f"drop not@{n.lineno}", f2
        if isinstance(n, (ast.For, ast.While, ast.If, ast.FunctionDef)):
            body = n.body
            for j, st in enumerate(body):
                if isinstance(st, (ast.Continue, ast.Expr, ast.Assign, ast.AugAssign)) and not (isinstance(st, ast.Expr) and isinstance(st.value, ast.Constant)) and len(body) > 1:
                    f2, m = clone(); del m.body[j]; yield f"delete stmt@{st.lineno}", f2
        if isinstance(n, ast.Constant) and isinstance(n.value, bool):
            f2, m = clone(); m.value = not n.value; yield f"flip {n.value}@{n.lineno}", f2
        if isinstance(n, ast.Constant) and isinstance(n.value, int) and not isinstance(n.value, bool) and n.value in (0, 1):
            f2, m = clone(); m.value = 1 - n.value; yield f"{n.value}->{1 - n.value}@{n.lineno}", f2


def run(job):
    key, desc, modpath, newsrc = job
    tmp = tempfile.mkdtemp(prefix="mut_")
    try:
        shutil.copytree(SRC, os.path.join(tmp, "src"))
        with open(os.path.join(tmp, "src", modpath), "w") as f:
            f.write(newsrc)
        try:
            compile(newsrc, modpath, "exec")
        except SyntaxError:
            return key, desc, "invalid"
        env = dict(os.environ, PYVC_REPO_SRC=os.path.join(tmp, "src"), PYVC_TMP=tmp)
        p = subprocess.run([sys.executable, os.path.join(ROOT, "tools", "one.py"), key], capture_output=True, text=True, env=env, timeout=900)
        out = p.stdout + p.stderr
        last = [l for l in out.splitlines() if l.startswith("not proved:")]
        if not last:
            return key, desc, "killed(engine: " + (out.strip().splitlines()[-1][:80] if out.strip() else "?") + ")"
        n = int(last[-1].split()[2])
        if n == 0:
            return key, desc, "SURVIVED"
        return key, desc, "killed(refuted)" if "refuted" in out else "killed(undecided)"
    except subprocess.TimeoutExpired:
        return key, desc, "killed(timeout)"
    finally:
        shutil.rmtree(tmp, ignore_errors=True)


jobs = []
for k in keys:
    c = reg.contracts[k]
    m = extract.module(c.module)
    fn = m.function(c.qualname)
    if fn is None:
        continue
    src_lines = m.source.split("\n")
    seen = set()
    for desc, f2 in mutants_of(fn):
        f2 = ast.fix_missing_locations(f2)
        text = ast.unparse(f2)
        if text in seen or text == ast.unparse(fn):
            continue
        seen.add(text)
        ind = " " * fn.col_offset
        new = "\n".join(src_lines[:fn.lineno - 1 - len(fn.decorator_list) if False else (fn.decorator_list[0].lineno - 1 if fn.decorator_list else fn.lineno - 1)]
                        + [ind + l for l in ("\n".join("@" + ast.unparse(d) for d in fn.decorator_list) + ("\n" if fn.decorator_list else "") + text).split("\n")]
                        + src_lines[fn.end_lineno:])
        jobs.append((k, desc, os.path.relpath(m.path, SRC), new))
print(len(jobs), "mutants of", len(keys), "functions")
res = []
with cf.ThreadPoolExecutor(int(os.environ.get("MUT_JOBS", "8"))) as ex:
    for r in ex.map(run, jobs):
        res.append(r)
        if r[2] == "SURVIVED":
            print("SURVIVED", r[0], r[1])
            sys.stdout.flush()
if flt and os.path.exists(os.path.join(ROOT, "evidence", "mutants.json")):
    # partial run: keep the recorded verdicts of the functions that were not re-run
    old_ = json.load(open(os.path.join(ROOT, "evidence", "mutants.json")))
    res = [(m["function"], m["mutant"], m["verdict"]) for m in old_["mutants"] if m["function"] not in keys] + res
summary = {}
for k, d, v in res:
    summary.setdefault(v.split("(")[0], 0)
    summary[v.split("(")[0]] += 1
print(summary)
os.makedirs(os.path.join(ROOT, "evidence"), exist_ok=True)
json.dump(dict(summary=summary, mutants=[dict(function=k, mutant=d, verdict=v) for k, d, v in res]), open(os.path.join(ROOT, "evidence", "mutants.json"), "w"), indent=1)
