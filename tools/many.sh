#!/bin/sh
# tools/many.sh KEY...: tools/one.py on each key (tail of the output)
cd "$(dirname "$0")/.." || exit 3
export PYTHONHASHSEED=0
for k in "$@"; do
  echo "== $k"
  .venv/bin/python tools/one.py "$k" 2>&1 | grep -v "^WARNING conda" | tail -12
done
