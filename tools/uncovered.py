#!/usr/bin/env python3
"""Lists the functions of /repo/src/pytestarch with the status of their contracts (UNCOVERED = no contract at all)."""
import os, sys, ast
sys.path.insert(0, os.path.dirname(os.path.dirname(os.path.abspath(__file__)))); os.environ.setdefault("PYVC_TMP", "/tmp")
from pyvc import driver
reg = driver.load_contracts()
keys = {}
for k, c in reg.contracts.items():
    keys.setdefault((c.qualname.split("@")[0]), []).append((k, c.status, c.inline, c.view))
root = "/repo/src/pytestarch"
for dp, dn, fn in os.walk(root):
    for f in sorted(fn):
        if not f.endswith(".py"): continue
        p = os.path.join(dp, f)
        t = ast.parse(open(p).read())
        def visit(node, prefix):
            for ch in node.body:
                if isinstance(ch, (ast.FunctionDef, ast.AsyncFunctionDef)):
                    q = prefix + ch.name
                    n = ch.end_lineno - ch.lineno
                    st = keys.get(q) or [x for kk, x in keys.items() if kk.startswith(q + ".register")]
                    print(("UNCOVERED " if not st else "          ") + os.path.relpath(p, root), q, n, [(s[1], "inline" if s[2] else "", s[3] or "") for s in (st if st and isinstance(st[0], tuple) else sum(st, []))] if st else "")
                elif isinstance(ch, ast.ClassDef):
                    visit(ch, prefix + ch.name + ".")
        visit(t, "")
