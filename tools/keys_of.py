#!/usr/bin/env python3
"""tools/keys_of.py SUBSTR... : run tools/one.py on every verified contract key containing one of the substrings (in parallel); one summary line per key."""
import os, subprocess, sys, concurrent.futures as cf
ROOT = os.path.dirname(os.path.dirname(os.path.abspath(__file__)))
sys.path.insert(0, ROOT)
os.environ.setdefault("PYTHONHASHSEED", "0")
from pyvc import driver
reg = driver.load_contracts()
keys = [k for k, c in reg.contracts.items() if c.status == "verify" and not c.inline and (c.module or c.is_lemma) and any(s in k for s in sys.argv[1:])]


def run(k):
    p = subprocess.run([sys.executable, os.path.join(ROOT, "tools", "one.py"), k], capture_output=True, text=True)
    out = (p.stdout + p.stderr).strip().splitlines()
    last = [l for l in out if l.startswith("not proved:")]
    bad = [l[:200] for l in out if l.split(" ")[0] in ("unknown", "refuted", "timeout")]
    slow = [l[:160] for l in out if l.startswith("proved") or l.startswith("cover-unknown")]
    return k, (last[-1] if last else "ERROR: " + (out[-1] if out else "?")), bad, slow


with cf.ThreadPoolExecutor(int(os.environ.get("JOBS", "6"))) as ex:
    tot = 0
    for k, l, bad, slow in ex.map(run, keys):
        print(k, "|", l)
        for b in bad:
            print("    ", b)
        if "-v" in sys.argv:
            for b in slow:
                print("    slow:", b)
