import itertools
from typing import cast
pieces = ["", "a", '"x"', ", "]
n = 0
for sep in ["", ", ", "\n"]:
    assert sep.join([]) == ""
    for k in range(0, 4):
        for xs in itertools.product(pieces, repeat=k):
            t = sep.join(list(xs))
            if any(x != "" for x in xs):
                assert t != "", (sep, xs)
            if not xs:
                assert t == ""
            n += 1
for k in range(0, 5):
    for xs in itertools.product("abc", repeat=k):
        s = set(xs)
        assert len(list(s)) == len(s) == len(sorted(s)) == len(sorted(list(s))) and set(sorted(s)) == s
assert cast(str, None) is None and cast(str, "x") == "x"
from pytestarch.rule_assessment.error_message.message_generator import LayerRuleViolationMessageGenerator as LG, PREFIX_MAPPING
from pytestarch.eval_structure.evaluable_architecture import LayerMapping
lm = LayerMapping({})
for imp in (True, False):
    g = LG(imp, lm)
    assert g._import_rule is imp and g._base_verb == ("import" if imp else "imported by") and g._layer_mapping is lm
spec = lambda i, n_, s: (("does not " if s else "do not ") if n_ else "") if i else (("is not " if n_ else "is ") if s else ("are not " if n_ else "are "))
for k in itertools.product([True, False], repeat=3):
    assert PREFIX_MAPPING[k] == spec(*k), k
print("ok", n)
