#!/usr/bin/env python3
"""Regenerate DESIGN.md section 12 (which check catches which seeded change) from seeded/*/meta.json and seeded/RESULTS.tsv."""
import json, os, re
ROOT = os.path.dirname(os.path.dirname(os.path.abspath(__file__)))
res = {}
p = os.path.join(ROOT, "seeded", "RESULTS.tsv")
if os.path.exists(p):
    for line in open(p):
        f = line.rstrip("\n").split("\t")
        if len(f) >= 3:
            res[f[0]] = f
rows = []
for s in sorted(os.listdir(os.path.join(ROOT, "seeded"))):
    mp = os.path.join(ROOT, "seeded", s, "meta.json")
    if not os.path.exists(mp):
        continue
    m = json.load(open(mp))
    notes = m.get("needs_to_manifest", "")
    first = re.sub(r"\s+", " ", notes.replace("#", "").replace("*", "")).strip()[:170]
    r = res.get(s)
    if r is None:
        caught = "not run yet"
    else:
        rc, v, u = r[2], (r[3] if len(r) > 3 else ""), (r[4] if len(r) > 4 else "")
        m2 = re.search(r"obligation=(\S+)", v)
        ob = m2.group(1) if m2 else ""
        how = "bounded case `" + ob.split(":", 1)[-1] + "` of `" + ob.split(":", 1)[0] + "`" if ":" in ob and ob[:1] == "C" else ("refuted obligation `" + ob[:80] + "`" if ob else "")
        side = ""
        if u:
            side = "; proof side: " + u.split(" function=")[0].split(" obligation=")[0].lower() + " in `" + (re.search(r"(function|obligation)=(\S+)", u).group(2)[:50] if re.search(r"(function|obligation)=(\S+)", u) else "") + "`"
        caught = {"1": "**caught** (exit 1): ", "0": "MISSED (exit 0)", "2": "undecided (exit 2)"}.get(rc, f"exit {rc}") + (how + side if rc == "1" else side)
    rows.append(f"| {s} | {m['property']} | {', '.join(os.path.basename(f) for f in m['files_changed'])} | {first} | {caught} |")
text = """

## 12. Seeded changes: which check catches which change

68 changes (two batches of two per property) written by independent sub-agents that were given only the text of one property and a
scratch worktree -- nothing from /verif. Each was confirmed in a scratch worktree (demo passes on the clean tree, fails with the
change; the unedited suite still reports 851 passed) and is kept under `/verif/seeded/<id>/` (patch.diff, demo.py, notes.md,
meta.json). Five patches of the first batch no longer applied after the `fix:` commits touched the same lines and were ported by hand to
the fixed tree with the same intent (`ported` in their meta.json). The last column is the result of the FINAL confirmation on `/repo`
itself (`tools/confirm_seeds.sh`: `git -C /repo apply`, quick check of the property, `git -C /repo checkout -- .`), kept in
`seeded/RESULTS.tsv`. What the misses of earlier rounds taught (each led to a stronger check, never to a weaker one): process-wide caches
and objects re-used across calls (re-applied rule objects, one architecture object growing between rules, the same path rewritten,
repeated scans in one and in fresh processes); imports between related modules and prefix-named siblings; namespace packages; doubled
glob markers through the entry point; level-limited graphs under renaming; regexes that are verbatim module names; evaluations in the
middle of a builder chain; undefined layers inside batches.

| seed | property | file(s) changed | what it needs to manifest (from the author's notes) | result on /repo |
|------|----------|-----------------|------------------------------------------------------|-----------------|
""" + "\n".join(rows) + "\n"
d = os.path.join(ROOT, "DESIGN.md")
s = open(d).read()
if "\n\n## 12. Seeded changes" in s:
    s = s[:s.index("\n\n## 12. Seeded changes")]
open(d, "w").write(s + text)
print(len(rows), "seeds")
