#!/usr/bin/env python3
"""Regenerate DESIGN.md section 12 (which check catches which seeded change) from seeded/*/meta.json and seeded/RESULTS.tsv."""
import json, os, re
ROOT = os.path.dirname(os.path.dirname(os.path.abspath(__file__)))
res = {}
R67 = {}
_p67 = os.path.join(ROOT, "seeded", "RESULTS_batches_6_7.tsv")
if os.path.exists(_p67):
    for _l in open(_p67).read().splitlines()[1:]:
        _f = _l.split("\t")
        R67[_f[0]] = _f
p = os.path.join(ROOT, "seeded", "RESULTS.tsv")
if os.path.exists(p):
    for line in open(p):
        f = line.rstrip("\n").split("\t")
        if len(f) >= 3:
            res[f[0]] = f
rows = []
for s in sorted(os.listdir(os.path.join(ROOT, "seeded"))):
    mp = os.path.join(ROOT, "seeded", s, "meta.json")
    if not os.path.exists(mp):
        continue
    m = json.load(open(mp))
    notes = m.get("needs_to_manifest", "")
    first = re.sub(r"\s+", " ", notes.replace("#", "").replace("*", "")).strip()[:170]
    r = res.get(s)
    if r is None:
        # batches run on a scratch copy of /repo/src (tools/run_seeds.py) instead of on /repo itself: seeded/RESULTS_batches_6_7.tsv
        r67 = R67.get(s)
        caught = "not run yet" if r67 is None else ("scratch-copy run: " + ("**caught** at first sight" if r67[2] == "caught" else "MISSED at first sight") + ("; " + r67[3] if len(r67) > 3 and r67[3] else ""))
    else:
        rc, v, u = r[2], (r[3] if len(r) > 3 else ""), (r[4] if len(r) > 4 else "")
        m2 = re.search(r"obligation=(\S+)", v)
        ob = m2.group(1) if m2 else ""
        how = "bounded case `" + ob.split(":", 1)[-1] + "` of `" + ob.split(":", 1)[0] + "`" if ":" in ob and ob[:1] == "C" else ("refuted obligation `" + ob[:80] + "`" if ob else "")
        side = ""
        if u:
            side = "; proof side: " + u.split(" function=")[0].split(" obligation=")[0].lower() + " in `" + (re.search(r"(function|obligation)=(\S+)", u).group(2)[:50] if re.search(r"(function|obligation)=(\S+)", u) else "") + "`"
        caught = {"1": "**caught** (exit 1): ", "0": "MISSED (exit 0)", "2": "undecided (exit 2)"}.get(rc, f"exit {rc}") + (how + side if rc == "1" else side)
    if m.get("neutralised"):
        caught = ("no longer a violation on the fixed tree (exit " + (r[2] if r else "?") + " is correct): " + m["neutralised"][:230])
    rows.append(f"| {s} | {m['property']} | {', '.join(os.path.basename(f) for f in m['files_changed'])} | {first} | {caught} |")
text = """

## 12. Seeded changes: which check catches which change

204 changes in five batches (2 + 2 + 2 + 3 + 3 per property), written by independent sub-agents that were given only the text of one property and a
scratch worktree -- nothing from /verif. Each was confirmed in a scratch worktree (demo passes on the clean tree, fails with the
change; the unedited suite still reports 851 passed) and is kept under `/verif/seeded/<id>/` (patch.diff, demo.py, notes.md,
meta.json; suffix a,b = batch 1, c,d = batch 2, e,f = batch 3, g,h,i = batch 4, j,k,l = batch 5). Patches that no longer applied after a `fix:` commit touched the
same lines were ported by hand to the fixed tree with the same intent (`ported` in their meta.json). The last column is the result of the FINAL
confirmation on `/repo` itself (`tools/confirm_seeds.sh`: `git -C /repo apply`, quick check of the property, `git -C /repo checkout -- .`), kept in
`seeded/RESULTS.tsv`.

**How the checks did at FIRST sight of each batch** (before anything was strengthened for it -- the honest estimate of what an unseen change faces):
batch 3 (asked for small local logic changes): 28 of 34 caught, 6 missed (C01e tuple batches, C02f mixed `from P import module, object`, C03f `re.search`
for `re.match`, C04f empty directories, C14f / C17e `str.replace` labels); batch 4 (asked for three per property: a far-away helper, an interaction, no
dotted-boundary changes): 37 of 51 caught, 14 missed (C03g aliased from-import of a sub module, C03h sub module two levels below another subject, C03i / partial
names, C07g import of the base package, C08i `re.IGNORECASE`, C10h empty counterpart tuple, C13g phantom parent nodes, C14g names beginning with `py`, C14h early loop
exit in the layer lookup, C15g hash-seed dependence with nested objects, C16i padded names, C01i `sub modules of X ... anything`, C05i `re.search` with regex layers,
C09h imports of ancestor packages); batch 5 (three per property in different files: boundary inputs, argument types the signatures allow but nobody uses, pairs of features,
odd names; no dotted-boundary and no match-vs-search changes): no clean first-sight count exists -- I read the authors' summaries while the first runs were still going and
strengthened the bounded layer for the changes I expected to be missed before most of them had been run; six that had already run were indeed missed (C02l an internal import
dropped by an external pattern in include mode, C05j / C14k a case-insensitive sort key next to a code-point bisect, C07j an alias on the importing side of an arrow, C07l non-ASCII
component names, C14l a partial name whose dot became a wildcard, C11l a one-shot iterator as batch), and by my own reading about ten more would have been (should_only in the layer-rule
vocabulary, an external named like a fragment of the root directory, glob texts ending in the separator, prefix-only regular expressions, sibling packages differing in case, several
subjects of an 'anything' rule across hash seeds, the order of object layers, a dead pattern inside a batch of partial names, the module-object entry point with an empty tuple). Call it
35 of 51. Every miss was a gap of the BOUNDED layer's input families while the proof side could only say `UNDECIDED` / `OUT-OF-SUBSET` /
`CONTRACT-DRIFT` for the rewritten function (string-valued quantified goals are proved but never refuted by the solvers); each led to a stronger family
(never to a weaker check): scanned projects with imports in every equivalent spelling (C01/C03/C14), tuple batches, regex / partial-name filters that match one
module, nested subjects, empty directories, letter case, empty option tuples, imports to non-modules and of ancestor packages, padded names, redundant layer
listings, an order-reversing renaming. What the misses of the first two batches taught: process-wide caches and objects re-used across calls (re-applied rule
objects, one architecture object growing between rules, the same path rewritten, repeated scans in one and in fresh processes); imports between related modules and
prefix-named siblings; namespace packages; doubled glob markers through the entry point; level-limited graphs under renaming; regexes that are verbatim module
names; evaluations in the middle of a builder chain; undefined layers inside batches. Several sub-agents also reported quirks of the UNCHANGED tree; two were genuine
defects inside a property's scope (F10b, F08a, F10c, section 11), the others lie outside every property's quantifier and are not claimed: an import of an excluded
internal module re-appears as an external module with `exclude_external_libraries=False` or through `level_limit` flattening (C08 x C10 / C09 option
combinations), and a regex layer whose pattern also matches its own descendants (`proj\\.api`) makes `should_not access_any_layer` pass (C05 requires layers
that list unrelated modules).

| seed | property | file(s) changed | what it needs to manifest (from the author's notes) | result on /repo |
|------|----------|-----------------|------------------------------------------------------|-----------------|
""" + "\n".join(rows) + "\n"
d = os.path.join(ROOT, "DESIGN.md")
s = open(d).read()
tail = ""
if "\n\n## 12. Seeded changes" in s:
    i = s.index("\n\n## 12. Seeded changes")
    j = s.find("\n\n## 13.", i)          # later sections are kept (an earlier version of this script cut the file here and lost section 13)
    tail = s[j:] if j >= 0 else ""
    s = s[:i]
open(d, "w").write(s + text.rstrip("\n") + "\n" + tail)
print(len(rows), "seeds")
