#!/bin/sh
# tools/confirm_some.sh <seed> ...: confirmation of the named seeded changes ON /repo ITSELF (git apply, quick check of the property -- and of the properties in meta.also_check --, git checkout);
# replaces their lines in seeded/RESULTS.tsv (seed, property, exit code, first VIOLATION line, first undecided line). A seed counts as caught when one of its properties exits 1.
cd /verif
out=seeded/RESULTS.tsv
for s in "$@"; do
  d=seeded/$s
  props=$(python3 -c "import json;m=json.load(open('$d/meta.json'));print(' '.join([m['property']]+m.get('also_check',[])))")
  git -C /repo apply /verif/$d/patch.diff || { grep -v "^$s	" $out > $out.tmp; mv $out.tmp $out; echo "$s	$props	patch-failed	" >> $out; continue; }
  best_rc=0; best_p=""; v=""; u=""
  for p in $props; do
    PYVC_BOUNDED_FIRST=1 ./check $p --tier quick > /tmp/confirm_$s.log 2>&1; rc=$?
    if [ "$rc" = "1" ] || [ -z "$best_p" ]; then best_rc=$rc; best_p=$p; v=$(grep -m1 "^VIOLATION" /tmp/confirm_$s.log | cut -c1-220); u=$(grep -m1 -E "^(OUT-OF-SUBSET|CONTRACT-DRIFT|UNDECIDED)" /tmp/confirm_$s.log | cut -c1-160); fi
    [ "$rc" = "1" ] && break
  done
  git -C /repo checkout -- .
  grep -v "^$s	" $out > $out.tmp; mv $out.tmp $out
  echo "$s	$best_p	$best_rc	$v	$u" >> $out
  rm -f /tmp/confirm_$s.log
done
sort -o $out $out
git -C /repo status --short
