#!/bin/sh
# tools/try_seed.sh <patch.diff> <property> [more properties...]: apply a seeded change to /repo, run the quick checks, undo it.
patch="$1"; shift
git -C /repo apply "$patch" || exit 9
trap 'git -C /repo checkout -- . ; git -C /repo status --short' EXIT
for p in "$@"; do
  /verif/check "$p" --tier quick > /tmp/try_seed.$$.log 2>&1; rc=$?
  grep -E "^\[|VIOLATION|KNOWN|UNDECIDED|OUT-OF|CONTRACT|CRASH|BOUNDED" /tmp/try_seed.$$.log | cut -c1-300 | head -12
  echo "exit=$rc ($p) $patch"
done
rm -f /tmp/try_seed.$$.log
