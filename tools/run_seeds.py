#!/usr/bin/env python3
"""Development aid: run the quick check of each seeded change's property against a scratch copy of /repo/src with the
patch applied (PYVC_REPO_SRC), several seeds in parallel. Final confirmation of a seed is done on /repo itself with
tools/try_seed.sh.   usage: tools/run_seeds.py [seed-id-prefix ...] [-j N]"""
import json, os, shutil, subprocess, sys, tempfile, concurrent.futures as cf
ROOT = os.path.dirname(os.path.dirname(os.path.abspath(__file__)))
args = [a for a in sys.argv[1:] if not a.startswith("-")]
jobs = int(sys.argv[sys.argv.index("-j") + 1]) if "-j" in sys.argv else 3
if "-j" in sys.argv:
    args = [a for a in args if a != sys.argv[sys.argv.index("-j") + 1]]
seeds = sorted(d for d in os.listdir(os.path.join(ROOT, "seeded")) if os.path.isdir(os.path.join(ROOT, "seeded", d)))
if args:
    seeds = [s for s in seeds if any(s.startswith(a) for a in args)]


def run(seed):
    meta = json.load(open(os.path.join(ROOT, "seeded", seed, "meta.json")))
    tmp = tempfile.mkdtemp(prefix=f"seedrun_{seed}_")
    try:
        shutil.copytree("/repo/src", os.path.join(tmp, "src"))
        p = subprocess.run(["patch", "-p1", "-s", "-i", os.path.join(ROOT, "seeded", seed, "patch.diff")], cwd=tmp, capture_output=True, text=True)
        if p.returncode:
            return seed, "patch-failed", p.stdout + p.stderr
        out = []
        for pid in meta.get("also_check", []) + [meta["property"]]:
            env = dict(os.environ, PYVC_REPO_SRC=os.path.join(tmp, "src"), PYVC_OUT=os.path.join(tmp, "out"))
            r = subprocess.run([os.path.join(ROOT, "check"), pid, "--tier", "quick"], capture_output=True, text=True, env=env)
            lines = [l[:260] for l in r.stdout.splitlines() if l.startswith(("VIOLATION", "[", "OUT-OF", "CONTRACT", "UNDECIDED", "CRASH", "KNOWN", "BOUNDED"))]
            out.append((pid, r.returncode, lines[:4] + lines[-1:]))
        return seed, "ran", out
    finally:
        shutil.rmtree(tmp, ignore_errors=True)


with cf.ThreadPoolExecutor(jobs) as ex:
    for seed, st, out in ex.map(run, seeds):
        if st != "ran":
            print(seed, st, out)
            continue
        for pid, rc, lines in out:
            print(f"{seed} {pid} exit={rc} {'DETECTED' if rc == 1 else 'MISSED'}")
            for l in lines:
                print("    ", l)
        sys.stdout.flush()
