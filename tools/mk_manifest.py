#!/usr/bin/env python3
"""Regenerate MANIFEST.json from contracts/props.py (claimed properties) -- run with .venv/bin/python."""
import json, os, sys
ROOT = os.path.dirname(os.path.dirname(os.path.abspath(__file__)))
sys.path.insert(0, ROOT)
from pyvc import driver
import contracts.props as props

reg = driver.load_contracts()
ALL = [json.loads(l)["id"] for l in open(os.path.join(ROOT, "properties.jsonl"))]
checks, na = [], []
for pid in ALL:
    sp = props.PROPS.get(pid)
    if sp is None or not sp.get("claimed", True):
        na.append(dict(property_id=pid, reason=(sp or {}).get("na_reason", "check under construction (contracts for this property are not complete yet); not claimed")))
        continue
    checks.append(dict(
        property_id=pid, quick_cmd=f"./check {pid} --tier quick", thorough_cmd=f"./check {pid} --tier thorough",
        evidence_file=f"evidence/{pid}.json", replay_cmd_template="./check replay {path}", engine="pyvc",
        level_claimed=dict(category=sp.get("level", "proof"), text=sp["level_text"], design_ref=sp.get("design_ref", "DESIGN.md section 4")),
        level_note=sp["level_note"], technique=sp.get("technique", "contract-based deductive verification: VCs generated from the real source by pyvc, discharged by z3/cvc5")))
m = dict(
    version=1, setup_cmd="./setup.sh",
    hooks=dict(guard="PYTESTARCH_VERIF", enable="none: contracts are sidecar files under /verif/contracts, /repo is only read",
               baseline_off_cmd="cd /repo && /venv/bin/python -m pytest -ra -q -p no:cacheprovider --timeout=900 --continue-on-collection-errors",
               source_commits=[], add_only=True),
    engines=[dict(name="pyvc", path="pyvc/", serves_properties=[c["property_id"] for c in checks],
                  kind_free_text="own VC generator: symbolic execution of the extracted Python AST against sidecar contracts (pre/post, exact raises, loop invariants, frames, lemmas); back ends z3 5.1, cvc5 1.0.3, z3 4.8.12")],
    checks=checks, not_applicable=na,
    notes="fix: commits in /repo: see known_findings.json. Exit codes of ./check: 0 held on everything explored (with a PROOF-INCOMPLETE line when part of the proof was undecided -- never refuted -- and the bounded stand-ins found no failing input; PYVC_STRICT=1 turns that into 2), 1 violation, 2 undecided, 3 checker crash. design_ref: DESIGN.md sections 4 (plan) and 10 (as built).")
json.dump(m, open(os.path.join(ROOT, "MANIFEST.json"), "w"), indent=1)
print("claimed", [c["property_id"] for c in checks], "not claimed", len(na))
