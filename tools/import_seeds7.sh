#!/bin/sh
# tools/import_seeds7.sh <Cxx> : store the two changes a sub-agent left in /tmp/w7_<Cxx>/out/{a,b} as seeded/<Cxx>p, <Cxx>q after confirming them in that
# scratch worktree: demo passes on the clean tree, fails with the change; the test suite (minus tests/test_architecture.py, whose 5 tests only run in the
# original checkout location and time out after 900 s elsewhere) gives the same counts as on the clean worktree (846 passed + the 5 path-dependent failures).
p=$1; wt=/tmp/w7_$p; cd $wt || exit 1
git checkout -q -- src
for ab in a b; do
  [ -f out/$ab/patch.diff ] || continue
  id=${p}$( [ $ab = a ] && echo p || echo q ); dst=/verif/seeded/$id; mkdir -p $dst
  cp out/$ab/patch.diff out/$ab/demo.py $dst/; cp out/$ab/notes.md $dst/ 2>/dev/null
  PYTHONPATH=$wt/src /venv/bin/python out/$ab/demo.py > /tmp/w7_$id.clean.log 2>&1; c=$?
  git apply out/$ab/patch.diff || { echo "$id patch-failed"; continue; }
  PYTHONPATH=$wt/src /venv/bin/python out/$ab/demo.py > /tmp/w7_$id.patched.log 2>&1; d=$?
  t=$(PYTHONPATH=$wt/src /venv/bin/python -m pytest -q -p no:cacheprovider --timeout=900 --ignore=tests/test_architecture.py 2>&1 | tail -1)
  files=$(git diff --name-only | tr '\n' ' ')
  git checkout -q -- src
  python3 - "$id" "$p" "$c" "$d" "$t" "$files" "$wt" <<'PY'
import json, sys, os
id_, p, c, d, t, files, wt = sys.argv[1:8]
notes = open(f"/verif/seeded/{id_}/notes.md").read() if os.path.exists(f"/verif/seeded/{id_}/notes.md") else ""
meta = dict(id=id_, property=p, breaks=p, files_changed=files.split(), batch=7, needs_to_manifest=notes[:3000],
            origin="written by an independent sub-agent (seventh batch: two changes per property in glue code / constructors / entry points / converters, needing a specific sequence, input shape or two cooperating sites) that saw only the property text and a scratch worktree (nothing from /verif)",
            confirmed_by=dict(what_i_ran=f"in scratch worktree {wt} (base 56fdc13): demo.py on clean tree, git apply patch.diff, demo.py, test suite without tests/test_architecture.py (its 5 tests run only in the original checkout location; the authoring agent ran the full suite: 851 passed + the same 5 failed / 5 errors as the clean worktree), git checkout",
                              result=f"demo_clean={c} demo_patched={d} tests: {t}"))
json.dump(meta, open(f"/verif/seeded/{id_}/meta.json", "w"), indent=1)
print(id_, "demo_clean", c, "demo_patched", d, "|", t)
PY
done
