"""Models of the CPython builtins and collection methods the code under contract uses.

Every model here is part of the trusted base (CPython semantics as stated in DESIGN.md section 2.3)."""
from __future__ import annotations

import ast
import z3

from .vals import (V, VNONE, vbool, vint, vstr, fresh, to_term, from_term, sort_of, coerce,
                   parse_type, fresh_name, DATA, OBJ_LAYOUT, deep_copy)
from . import vals
from .state import OutOfSubset, ContractDrift, feasible
from .engine import TRUE, FALSE, zand, zor, znot


def _sym_coll(eng, v):
    """View any iterable as a membership array value ('bag', T)."""
    return eng.reg.as_membership(eng, v)


# ------------------------------------------------------------------ functions
def b_len(reg, eng, st, args, kwargs, node):
    (v,) = args
    k = v.t[0]
    if k in ("list", "tuple"):
        return [(st, vint(len(v.x)))]
    if k in ("str", "seq"):
        return [(st, vint(z3.Length(v.x)))]
    if k == "aseq":
        return [(st, vint(v.x[0]))]
    if k in ("set", "dict") or (k == "bag" and v.x.get_id() in getattr(eng, "nodup", ())):
        # duplicate-free collection: len is the cardinality of the element set; what is stated: >= 0, == 0 iff empty, == 1 iff singleton, >= 2 iff two distinct elements
        arr = v.x if k != "dict" else v.x[0]
        dom = arr.sort().domain()
        card = z3.Function("card_" + str(arr.sort()).replace(" ", "").replace("(", "_").replace(")", "_").replace(",", "_"), arr.sort(), z3.IntSort())(arr)
        x, y = z3.Const(fresh_name("e"), dom), z3.Const(fresh_name("e"), dom)
        st.assume(card >= 0)
        st.assume((card == 0) == z3.Not(z3.Exists([x], z3.Select(arr, x))))
        st.assume((card >= 2) == z3.Exists([x, y], z3.And(z3.Select(arr, x), z3.Select(arr, y), x != y)))
        return [(st, vint(card))]
    if k in ("bag",):
        # only emptiness of len(...) is modelled: 0 if empty, else 1 + |u(arr)| for an uninterpreted u
        arr = v.x if k != "dict" else v.x[0]
        x = z3.Const(fresh_name("e"), arr.sort().domain())
        u = z3.Function("ulen_" + str(arr.sort()).replace(" ", "").replace("(", "_").replace(")", "_").replace(",", "_"), arr.sort(), z3.IntSort())
        ua = u(arr)
        return [(st, vint(z3.If(z3.Exists([x], z3.Select(arr, x)), 1 + z3.If(ua >= 0, ua, -ua), z3.IntVal(0))))]
    raise OutOfSubset(f"len of {v.t}")


def b_set(reg, eng, st, args, kwargs, node):
    if not args:
        return [(st, V(("emptyset",), None))]
    (v,) = args
    if v.t[0] == "str":
        # set("abc") is the set of the string's characters
        c = z3.Const(fresh_name("c"), z3.StringSort())
        return [(st, V(("set", ("str",)), eng.mkset(st, [c], z3.And(z3.Length(c) == 1, z3.Contains(v.x, c)))))]
    if v.t[0] == "list" and not v.x:
        return [(st, V(("emptyset",), None))]
    m = _sym_coll(eng, v)
    return [(st, V(("set", m.t[1]), m.x))]


def b_list(reg, eng, st, args, kwargs, node):
    if not args:
        return [(st, V(("list",), []))]
    (v,) = args
    if v.t[0] in ("list",):
        return [(st, V(("list",), list(v.x)))]
    if v.t[0] == "tuple":
        return [(st, V(("list",), list(v.x)))]
    if v.t[0] == "seq":
        return [(st, v)]
    m = _sym_coll(eng, v)
    if v.t[0] == "set" or (v.t[0] == "bag" and v.x.get_id() in eng.nodup):
        # list(<set>): a list without duplicates
        eng.nodup.add(m.x.get_id())
        eng._nodup_keep.append(m.x)
    return [(st, V(("bag", m.t[1]), m.x))]


def b_tuple(reg, eng, st, args, kwargs, node):
    (v,) = args
    if v.t[0] == "list":
        return [(st, V(("tuple", tuple(e.t for e in v.x)), tuple(v.x)))]
    if v.t[0] == "tuple":
        return [(st, v)]
    if v.t[0] in ("bag", "set", "seq"):
        return [(st, v)]  # immutable view, same elements
    raise OutOfSubset(f"tuple() of {v.t}")


def b_sorted(reg, eng, st, args, kwargs, node):
    v = args[0]
    if v.t[0] == "list" and len(v.x) <= 1:
        return [(st, v)]
    m = _sym_coll(eng, v)
    if "key" in kwargs:
        # sorted(xs, key=f[, reverse=True]) with an integer-valued key: a sequence with the same elements, ordered by key
        # (a permutation; ties in arbitrary order -- stability is not modelled, the order among equal keys is left open)
        f = kwargs["key"]
        rev = kwargs.get("reverse")
        if f.t[0] != "closure" or (rev is not None and not z3.is_true(z3.simplify(eng.truth(rev))) and not z3.is_false(z3.simplify(eng.truth(rev)))):
            raise OutOfSubset("sorted with a key that is not a lambda / symbolic reverse")
        descending = rev is not None and z3.is_true(z3.simplify(eng.truth(rev)))
        et = m.t[1]
        res = fresh(("seq", et), "sorted")
        n = z3.Length(res.x)
        x = z3.Const(fresh_name("e"), sort_of(et))
        st.assume(z3.ForAll([x], z3.Select(m.x, x) == z3.Contains(res.x, z3.Unit(x))))
        j, k = z3.Int(fresh_name("j")), z3.Int(fresh_name("k"))
        # the same fact in index form (what the sequence theory does not derive by itself)
        st.assume(z3.ForAll([j], z3.Implies(z3.And(0 <= j, j < n), z3.Select(m.x, res.x[j]))))
        st.assume(z3.ForAll([x], z3.Implies(z3.Select(m.x, x), z3.Exists([j], z3.And(0 <= j, j < n, res.x[j] == x)))))

        def key_of(term):
            eng.qdepth = getattr(eng, "qdepth", 0) + 1
            try:
                r = eng.apply_closure(f, [from_term(et, term)], st)
            finally:
                eng.qdepth -= 1
            if len(r) != 1 or r[0][1].t[0] != "int":
                raise OutOfSubset("sorted key must be a pure integer-valued lambda")
            return r[0][1].x
        kj, kk = key_of(res.x[j]), key_of(res.x[k])
        st.assume(z3.ForAll([j, k], z3.Implies(z3.And(0 <= j, j < k, k < n), (kj >= kk) if descending else (kj <= kk))))
        return [(st, res)]
    if "reverse" in kwargs:
        if not getattr(eng, "allow_sorted_key", False):
            raise OutOfSubset("sorted with reverse")
    if eng.c is not None and "sorted_as_seq" in getattr(eng.c, "opts", ()) and "lex_le" in reg.specfuns and sort_of(m.t[1]) == sort_of(("node",)):
        # sorted(names): a sequence with the same elements (index form, both directions), ordered by the (assumed total) order lex_le of str
        et = m.t[1]
        res = fresh(("seq", et), "sorted")
        n = z3.Length(res.x)
        x = z3.Const(fresh_name("e"), sort_of(et))
        j, k = z3.Int(fresh_name("j")), z3.Int(fresh_name("k"))
        st.assume(z3.ForAll([j], z3.Implies(z3.And(0 <= j, j < n), z3.Select(m.x, res.x[j]))))
        st.assume(z3.ForAll([x], z3.Implies(z3.Select(m.x, x), z3.Exists([j], z3.And(0 <= j, j < n, res.x[j] == x)))))
        le = lambda a, b: eng.truth(reg.specfuns["lex_le"](eng, st, from_term(et, a), from_term(et, b)))
        st.assume(z3.ForAll([j, k], z3.Implies(z3.And(0 <= j, j < k, k < n), le(res.x[j], res.x[k]))))
        return [(st, res)]
    # bag view: same elements, order abstracted away (callers may only use it as a collection)
    if v.t[0] == "set" or (v.t[0] == "bag" and v.x.get_id() in eng.nodup):
        # sorted(<set>) / sorted(<duplicate-free list>): a permutation, hence again without duplicates
        eng.nodup.add(m.x.get_id())
        eng._nodup_keep.append(m.x)
    return [(st, V(("bag", m.t[1]), m.x))]


def b_any(reg, eng, st, args, kwargs, node):
    (v,) = args
    if v.t[0] in ("list", "tuple"):
        return [(st, vbool(zor(*[eng.truth(e) for e in v.x])))]
    m = _sym_coll(eng, v)
    if m.t[1] == ("bool",):
        return [(st, vbool(z3.Select(m.x, TRUE)))]
    x = eng.bvar("a!", m.t[1])
    return [(st, vbool(z3.Exists(reg.consts_of(x), z3.And(z3.Select(m.x, to_term(x)), eng.truth(x)))))]


def b_all(reg, eng, st, args, kwargs, node):
    (v,) = args
    if v.t[0] in ("list", "tuple"):
        return [(st, vbool(zand(*[eng.truth(e) for e in v.x])))]
    m = _sym_coll(eng, v)
    if m.t[1] == ("bool",):
        return [(st, vbool(z3.Not(z3.Select(m.x, FALSE))))]
    x = eng.bvar("a!", m.t[1])
    return [(st, vbool(z3.ForAll(reg.consts_of(x), z3.Implies(z3.Select(m.x, to_term(x)), eng.truth(x)))))]


def b_map(reg, eng, st, args, kwargs, node):
    f, v = args
    if f.t[0] == "boundmethod" and isinstance(node, ast.Call) and len(node.args) == 2:
        # map(obj.method, xs) is the generator (obj.method(x) for x in xs): the callee's contract is applied per element (raising contracts included)
        g = ast.GeneratorExp(elt=ast.Call(func=node.args[0], args=[ast.Name(id="map!x", ctx=ast.Load())], keywords=[]),
                             generators=[ast.comprehension(target=ast.Name(id="map!x", ctx=ast.Store()), iter=node.args[1], ifs=[], is_async=0)])
        ast.copy_location(g, node)
        ast.fix_missing_locations(g)
        return reg.comprehension(eng, g, st, "bag")
    if f.t[0] != "closure":
        raise OutOfSubset("map with non-lambda")
    if v.t[0] in ("list", "tuple"):
        out = []
        for e in v.x:
            r = eng.apply_closure(f, [e], st)
            if len(r) != 1:
                raise OutOfSubset("map body forks")
            out.append(r[0][1])
        return [(st, V(("list",), out))]
    m = _sym_coll(eng, v)
    x = fresh(m.t[1], "x")
    eng.qdepth = getattr(eng, "qdepth", 0) + 1
    try:
        r = eng.apply_closure(f, [x], st)
    finally:
        eng.qdepth -= 1
    if len(r) != 1:
        raise OutOfSubset("map body forks")
    fx = r[0][1]
    y = z3.Const(fresh_name("y"), sort_of(fx.t))
    body = z3.Exists(reg.consts_of(x), z3.And(z3.Select(m.x, to_term(x)), y == to_term(fx)))
    return [(st, V(("bag", fx.t), eng.mkset(st, [y], body)))]


def b_filter(reg, eng, st, args, kwargs, node):
    f, v = args
    if f.t[0] != "closure":
        raise OutOfSubset("filter with non-lambda")
    if v.t[0] in ("list", "tuple"):
        out = []
        for e in v.x:
            r = eng.apply_closure(f, [e], st)
            if len(r) != 1:
                raise OutOfSubset("filter body forks")
            c = z3.simplify(eng.truth(r[0][1]))
            if z3.is_true(c):
                out.append(e)
            elif not z3.is_false(c):
                return [(st, V(("list",), v.x + [None]))] if False else _filter_sym(reg, eng, st, f, v)
        return [(st, V(("list",), out))]
    return _filter_sym(reg, eng, st, f, v)


def _filter_sym(reg, eng, st, f, v):
    if v.t[0] in ("list", "tuple") and v.x and all(e.t == ("str",) for e in v.x):
        return [(st, fresh("Bag[Str]", "filtered"))]  # message fragments: text level is not modelled
    raise OutOfSubset("symbolic filter()")


def b_isinstance(reg, eng, st, args, kwargs, node):
    v = args[0]
    tn = node.args[1]
    def cls_name(e):
        if isinstance(e, ast.Name):
            return e.id
        if isinstance(e, ast.Attribute) and isinstance(e.value, ast.Name):
            return f"{e.value.id}.{e.attr}"
        raise OutOfSubset("isinstance target")
    names = [cls_name(e) for e in tn.elts] if isinstance(tn, ast.Tuple) else [cls_name(tn)]
    res = reg.isinstance_(eng, v, names)
    return [(st, vbool(res))]


def b_str(reg, eng, st, args, kwargs, node):
    (v,) = args
    if v.t[0] == "str":
        return [(st, v)]
    return [(st, eng.to_str(v))]


def b_bool(reg, eng, st, args, kwargs, node):
    (v,) = args
    return [(st, vbool(eng.truth(v)))]


def b_zip(reg, eng, st, args, kwargs, node):
    if all(a.t[0] in ("list", "tuple") for a in args):
        n = min(len(a.x) for a in args)
        return [(st, V(("list",), [V(("tuple", tuple(a.x[i].t for a in args)), tuple(a.x[i] for a in args)) for i in range(n)]))]
    raise OutOfSubset("zip of symbolic sequences")


def b_product(reg, eng, st, args, kwargs, node):
    a, b = args
    ma, mb = _sym_coll(eng, a), _sym_coll(eng, b)
    t = ("tuple", (ma.t[1], mb.t[1]))
    p = fresh(t, "p")
    from .vals import tuple_sort
    s, mk, accs = tuple_sort(t[1])
    q = z3.Const(fresh_name("q"), s)
    pset = eng.mkset(st, [q], z3.And(z3.Select(ma.x, accs[0](q)), z3.Select(mb.x, accs[1](q))))
    if getattr(eng, "qdepth", 0) == 0:
        # the same definition in constructor form (a consequence; lets e-matching find the pair (a, b) without guessing the tuple term)
        xa, xb = z3.Const(fresh_name("pa"), sort_of(ma.t[1])), z3.Const(fresh_name("pb"), sort_of(mb.t[1]))
        st.assume(z3.ForAll([xa, xb], z3.Select(pset, mk(xa, xb)) == z3.And(z3.Select(ma.x, xa), z3.Select(mb.x, xb))))
    return [(st, V(("bag", t), pset))]


def b_dict(reg, eng, st, args, kwargs, node):
    if not args and not kwargs:
        return [(st, V(("dict", ("none",), ("none",)), None))]
    if len(args) == 1 and args[0].t[0] == "dict":
        return [(st, args[0])]
    raise OutOfSubset("dict(...)")


def b_defaultdict(reg, eng, st, args, kwargs, node):
    return [(st, V(("dict", ("none",), ("none",)), None))]


def b_cast(reg, eng, st, args, kwargs, node):
    return [(st, args[1])]


def b_replace(reg, eng, st, args, kwargs, node):
    """dataclasses.replace on a mutable record: a copy with the given fields replaced."""
    (o,) = args
    if o.t[0] != "obj":
        raise OutOfSubset("replace() of non-record")
    new = deep_copy(o)
    layout = OBJ_LAYOUT[o.t[1]]
    for k, v in kwargs.items():
        if k not in layout:
            raise ContractDrift(f"replace: no field {k}")
        new.x[k] = eng.typed(v, layout[k])
    return [(st, new)]


def b_fields(reg, eng, st, args, kwargs, node):
    """dataclasses.fields on a modelled record: its declared fields in order."""
    (o,) = args
    if o.t[0] != "obj":
        raise OutOfSubset("fields() of non-record")
    return [(st, V(("list",), [V(("obj", "Field"), {"name": vstr(f)}) for f in OBJ_LAYOUT[o.t[1]]]))]


def b_hasattr(reg, eng, st, args, kwargs, node):
    raise OutOfSubset("hasattr")


BUILTINS = {
    "len": b_len, "set": b_set, "list": b_list, "tuple": b_tuple, "sorted": b_sorted, "any": b_any, "all": b_all,
    "map": b_map, "filter": b_filter, "isinstance": b_isinstance, "str": b_str, "bool": b_bool, "zip": b_zip,
    "product": b_product, "dict": b_dict, "defaultdict": b_defaultdict, "cast": b_cast, "replace": b_replace,
    "hasattr": b_hasattr, "fields": b_fields,
}


# ------------------------------------------------------------------ mutation helpers
def _store(eng, st, recv_expr, newval, old):
    """Rebind the variable / attribute the receiver expression denotes."""
    if isinstance(recv_expr, tuple) and recv_expr[0] == "opt-inner":
        inner_expr = recv_expr[1]
        holder_val = _load(eng, st, inner_expr)
        newval = V(holder_val.t, (holder_val.x[0], newval))
        recv_expr = inner_expr
    if isinstance(recv_expr, ast.Name):
        if recv_expr.id not in st.vars:
            raise OutOfSubset("mutation of non-local")
        cur = st.vars[recv_expr.id]
        dt = eng.declared_type(recv_expr.id)
        st.vars[recv_expr.id] = newval
        return
    if isinstance(recv_expr, ast.Attribute):
        holder = eng.lvalue_obj(recv_expr.value, st)
        if holder.t[0] != "obj":
            raise OutOfSubset("mutation through non-record")
        holder.x[recv_expr.attr] = newval
        return
    if isinstance(recv_expr, ast.Subscript) and isinstance(recv_expr.value, ast.Name) and recv_expr.value.id in st.vars:
        d = st.vars[recv_expr.value.id]
        if d.t[0] != "dict":
            raise OutOfSubset("mutation through subscript of non-dict")
        key = eng.ev1(recv_expr.slice, st)
        st.vars[recv_expr.value.id] = eng.dict_store(d, key, newval)
        return
    raise OutOfSubset("mutation of a temporary")


def _load(eng, st, expr):
    if isinstance(expr, ast.Name):
        return st.vars[expr.id]
    if isinstance(expr, ast.Attribute):
        return eng.lvalue_obj(expr.value, st).x[expr.attr]
    raise OutOfSubset("load of complex receiver")


def _as_bag(eng, recv, elem: V, name_hint=None):
    """Concrete python list -> symbolic bag (needed once it is mutated with symbolic data or in a loop)."""
    if recv.t[0] == "list":
        et = elem.t if elem is not None else (recv.x[0].t if recv.x else None)
        if et is None:
            raise ContractDrift("element type of empty list unknown: declare the local's type")
        return coerce(recv, ("bag", et))
    return recv


def _by_value_guard(e, node):
    """A mutable record is stored in a symbolic collection as a SNAPSHOT (vals.obj_sort). That is the record's final state only when nothing else
    can reach it afterwards: the stored expression must be a temporary (the result of a call), not a name or attribute."""
    if e.t[0] == "obj" or (e.t[0] == "opt" and e.t[1][0] == "obj"):
        a = node.args[0] if isinstance(node, ast.Call) and node.args else None
        if not isinstance(a, ast.Call):
            raise OutOfSubset(f"record stored in a collection while still reachable under a name (line {getattr(node, 'lineno', '?')})")


# ------------------------------------------------------------------ list / bag
def m_append(reg, eng, st, recv, args, kwargs, node, rexpr):
    (e,) = args
    if recv.t == ("str",) and e.t == ("str",) and isinstance(rexpr, ast.Name) and eng.declared_type(rexpr.id) == ("str",):
        # list of string pieces modelled by its concatenation (declared local of type Str)
        _store(eng, st, rexpr, vstr(z3.Concat(recv.x, e.x)), recv)
        return [(st, VNONE)]
    if recv.t[0] == "list":
        dt = eng.declared_type(rexpr.id) if isinstance(rexpr, ast.Name) else None
        if dt is None:
            _store(eng, st, rexpr, V(("list",), list(recv.x) + [e]), recv)
            return [(st, VNONE)]
        recv = eng.typed(recv, dt)
    if recv.t[0] == "bag":
        if e.t[0] == "opt" and recv.t[1][0] != "opt":
            # an Optional value appended to a list of non-Optional elements: the path must have established that it is not None
            eng.oblige(st, znot(e.x[0]), "pre@call", f"appended value is not None@{getattr(node, 'lineno', 0)}", getattr(node, "lineno", 0))
            e = e.x[1]
        _by_value_guard(e, node)
        _store(eng, st, rexpr, V(recv.t, z3.Store(recv.x, to_term(coerce(e, recv.t[1])), TRUE)), recv)
        return [(st, VNONE)]
    if recv.t[0] == "aseq":
        if e.t[0] == "closure" and recv.t[1][0] == "opaque" and recv.t[1][1] in vals.LAM_CAPS:
            e = eng.closure_to_lam(e, recv.t[1], st)
        _store(eng, st, rexpr, V(recv.t, (recv.x[0] + 1, z3.Store(recv.x[1], recv.x[0], to_term(coerce(e, recv.t[1]))))), recv)
        return [(st, VNONE)]
    if recv.t[0] == "seq":
        _by_value_guard(e, node)
        if e.t[0] == "closure" and recv.t[1][0] == "opaque" and recv.t[1][1] in vals.LAM_CAPS:
            e = eng.closure_to_lam(e, recv.t[1], st)   # a closure stored in a list: defunctionalised (see vals.parse_type, Lam[...])
        _store(eng, st, rexpr, V(recv.t, z3.Concat(recv.x, z3.Unit(to_term(coerce(e, recv.t[1]))))), recv)
        return [(st, VNONE)]
    raise OutOfSubset(f"append on {recv.t}")


def m_extend(reg, eng, st, recv, args, kwargs, node, rexpr):
    (o,) = args
    if recv.t[0] == "list" and o.t[0] in ("list", "tuple"):
        dt = eng.declared_type(rexpr.id) if isinstance(rexpr, ast.Name) else None
        if dt is None:
            _store(eng, st, rexpr, V(("list",), list(recv.x) + list(o.x)), recv)
            return [(st, VNONE)]
        recv = eng.typed(recv, dt)
    if recv.t[0] == "list":
        dt = eng.declared_type(rexpr.id) if isinstance(rexpr, ast.Name) else None
        if dt is None:
            m = _sym_coll(eng, o)
            dt = ("bag", m.t[1])
        recv = eng.typed(recv, dt)
    if recv.t[0] in ("bag", "set"):
        m = coerce(o, recv.t) if o.t[0] == "list" else _sym_coll(eng, o)
        x = z3.Const(fresh_name("e"), sort_of(recv.t[1]))
        _store(eng, st, rexpr, V(recv.t, eng.mkset(st, [x], z3.Or(z3.Select(recv.x, x), z3.Select(m.x, x)))), recv)
        return [(st, VNONE)]
    if recv.t[0] == "seq":
        _store(eng, st, rexpr, V(recv.t, z3.Concat(recv.x, coerce(o, recv.t).x)), recv)
        return [(st, VNONE)]
    raise OutOfSubset(f"extend on {recv.t}")


def m_sort(reg, eng, st, recv, args, kwargs, node, rexpr):
    """list.sort(...) on a list seen as the collection of its elements: the elements do not change (order is not modelled)."""
    if recv.t[0] == "list" and len(recv.x) <= 1:
        return [(st, VNONE)]
    if recv.t[0] in ("bag",):
        return [(st, VNONE)]
    raise OutOfSubset(f"sort on {recv.t}")


def m_pop_bag(reg, eng, st, recv, args, kwargs, node, rexpr):
    if args:
        raise OutOfSubset("pop(index)")
    if recv.t[0] == "list":
        dt = eng.declared_type(rexpr.id) if isinstance(rexpr, ast.Name) else None
        if dt is None:
            if not recv.x:
                eng.do_raise(st, "IndexError", node.lineno)
                return []
            _store(eng, st, rexpr, V(("list",), list(recv.x[:-1])), recv)
            return [(st, recv.x[-1])]
        recv = eng.typed(recv, dt)
    et = recv.t[1]
    x = z3.Const(fresh_name("e"), sort_of(et))
    empty = z3.Not(z3.Exists([x], z3.Select(recv.x, x)))
    s_err = st.fork()
    s_err.assume(empty)
    if feasible(s_err):
        eng.do_raise(s_err, "IndexError", node.lineno)
    e = fresh(et, "popped")
    st.assume(z3.Select(recv.x, to_term(e)))
    new = fresh(recv.t, "rest")
    y = z3.Const(fresh_name("e"), sort_of(et))
    # list with possible duplicates: the popped element may or may not remain
    st.assume(z3.ForAll([y], z3.Implies(z3.Select(new.x, y), z3.Select(recv.x, y))))
    st.assume(z3.ForAll([y], z3.Implies(z3.And(z3.Select(recv.x, y), y != to_term(e)), z3.Select(new.x, y))))
    _store(eng, st, rexpr, new, recv)
    return [(st, e)]


def m_pop_set(reg, eng, st, recv, args, kwargs, node, rexpr):
    et = recv.t[1]
    x = z3.Const(fresh_name("e"), sort_of(et))
    empty = z3.Not(z3.Exists([x], z3.Select(recv.x, x)))
    s_err = st.fork()
    s_err.assume(empty)
    if feasible(s_err):
        eng.do_raise(s_err, "KeyError", node.lineno)
    e = fresh(et, "popped")
    st.assume(z3.Select(recv.x, to_term(e)))
    _store(eng, st, rexpr, V(recv.t, z3.Store(recv.x, to_term(e), FALSE)), recv)
    return [(st, e)]


# ------------------------------------------------------------------ set
def _typed_recv(eng, recv, rexpr, elem):
    if recv.t[0] == "emptyset":
        dt = eng.declared_type(rexpr.id) if isinstance(rexpr, ast.Name) else None
        if dt is None:
            dt = ("set", elem.t)
        return eng.typed(recv, dt)
    return recv


def m_add(reg, eng, st, recv, args, kwargs, node, rexpr):
    (e,) = args
    recv = _typed_recv(eng, recv, rexpr, e)
    _store(eng, st, rexpr, V(recv.t, z3.Store(recv.x, to_term(coerce(e, recv.t[1])), TRUE)), recv)
    return [(st, VNONE)]


def m_update(reg, eng, st, recv, args, kwargs, node, rexpr):
    (o,) = args
    if recv.t[0] == "emptyset":
        m = _sym_coll(eng, o)
        recv = _typed_recv(eng, recv, rexpr, fresh(m.t[1], "dummy"))
    m = coerce(o, recv.t) if o.t[0] in ("list", "emptyset") and False else (eng.typed(o, recv.t) if o.t[0] in ("list", "emptyset") else _sym_coll(eng, o))
    x = z3.Const(fresh_name("e"), sort_of(recv.t[1]))
    _store(eng, st, rexpr, V(recv.t, eng.mkset(st, [x], z3.Or(z3.Select(recv.x, x), z3.Select(m.x, x)))), recv)
    return [(st, VNONE)]


def m_remove(reg, eng, st, recv, args, kwargs, node, rexpr):
    (e,) = args
    if recv.t[0] == "set":
        present = z3.Select(recv.x, to_term(coerce(e, recv.t[1])))
        s_err = st.fork()
        s_err.assume(znot(present))
        if feasible(s_err):
            eng.do_raise(s_err, "KeyError", node.lineno)
        st.assume(present)
        _store(eng, st, rexpr, V(recv.t, z3.Store(recv.x, to_term(coerce(e, recv.t[1])), FALSE)), recv)
        return [(st, VNONE)]
    raise OutOfSubset(f"remove on {recv.t}")


def m_discard(reg, eng, st, recv, args, kwargs, node, rexpr):
    (e,) = args
    _store(eng, st, rexpr, V(recv.t, z3.Store(recv.x, to_term(coerce(e, recv.t[1])), FALSE)), recv)
    return [(st, VNONE)]


def m_intersection(reg, eng, st, recv, args, kwargs, node, rexpr):
    (o,) = args
    m = _sym_coll(eng, o)
    x = z3.Const(fresh_name("e"), sort_of(recv.t[1]))
    return [(st, V(recv.t, eng.mkset(st, [x], z3.And(z3.Select(recv.x, x), z3.Select(m.x, x)))))]


def m_union(reg, eng, st, recv, args, kwargs, node, rexpr):
    (o,) = args
    m = _sym_coll(eng, o)
    x = z3.Const(fresh_name("e"), sort_of(recv.t[1]))
    return [(st, V(recv.t, eng.mkset(st, [x], z3.Or(z3.Select(recv.x, x), z3.Select(m.x, x)))))]


# ------------------------------------------------------------------ dict
def m_items(reg, eng, st, recv, args, kwargs, node, rexpr):
    from .vals import tuple_sort
    t = ("tuple", (recv.t[1], recv.t[2]))
    s, mk, accs = tuple_sort(t[1])
    q = z3.Const(fresh_name("kv"), s)
    return [(st, V(("bag", t), eng.mkset(st, [q], z3.And(z3.Select(recv.x[0], accs[0](q)), z3.Select(recv.x[1], accs[0](q)) == accs[1](q)))))]


def m_keys(reg, eng, st, recv, args, kwargs, node, rexpr):
    return [(st, V(("set", recv.t[1]), recv.x[0]))]


def m_values(reg, eng, st, recv, args, kwargs, node, rexpr):
    y = z3.Const(fresh_name("v"), sort_of(recv.t[2]))
    k = z3.Const(fresh_name("k"), sort_of(recv.t[1]))
    return [(st, V(("bag", recv.t[2]), eng.mkset(st, [y], z3.Exists([k], z3.And(z3.Select(recv.x[0], k), z3.Select(recv.x[1], k) == y)))))]


def m_get(reg, eng, st, recv, args, kwargs, node, rexpr):
    key = to_term(coerce(args[0], recv.t[1]))
    present = z3.Select(recv.x[0], key)
    val = from_term(recv.t[2], z3.Select(recv.x[1], key))
    if len(args) == 2:
        d = args[1]
        if d.t[0] == "emptyset":
            d = eng.typed(d, recv.t[2])
        return [(st, eng.ite(present, val, coerce(d, recv.t[2])))]
    return [(st, V(("opt", recv.t[2]), (znot(present), val)))]


def m_pop_dict(reg, eng, st, recv, args, kwargs, node, rexpr):
    """d.pop(key) without a default: KeyError iff the key is absent; returns the stored value and removes the key."""
    if len(args) != 1 or kwargs or recv.x is None:
        raise OutOfSubset("dict.pop with a default / on an untyped dict")
    key = to_term(coerce(args[0], recv.t[1]))
    present = z3.Select(recv.x[0], key)
    s_err = st.fork()
    s_err.assume(znot(present))
    if feasible(s_err):
        eng.do_raise(s_err, "KeyError", node.lineno)
    st.assume(present)
    val = from_term(recv.t[2], z3.Select(recv.x[1], key))
    _store(eng, st, rexpr, V(recv.t, (z3.Store(recv.x[0], key, FALSE), recv.x[1])), recv)
    return [(st, val)]


# ------------------------------------------------------------------ str
def m_startswith(reg, eng, st, recv, args, kwargs, node, rexpr):
    (p,) = args
    if p.t[0] == "opt" and p.t[1] == ("str",):
        # str.startswith(None) is a TypeError
        if not eng.spec:
            s_none = st.fork()
            s_none.assume(p.x[0])
            if feasible(s_none):
                eng.do_raise(s_none, "TypeError", getattr(node, "lineno", 0))
            st.assume(znot(p.x[0]))
        p = p.x[1]
    if p.t[0] != "str":
        raise OutOfSubset("startswith non-str")
    return [(st, vbool(z3.PrefixOf(p.x, recv.x)))]


def m_endswith(reg, eng, st, recv, args, kwargs, node, rexpr):
    (p,) = args
    return [(st, vbool(z3.SuffixOf(p.x, recv.x)))]


def m_join(reg, eng, st, recv, args, kwargs, node, rexpr):
    (o,) = args
    if o.t == ("str",) and z3.is_string_value(z3.simplify(recv.x)) and z3.simplify(recv.x).as_string() == "":
        return [(st, o)]   # "".join(<pieces modelled by their concatenation>)
    if o.t[0] in ("list", "tuple"):
        if not o.x:
            return [(st, vstr(""))]
        t = o.x[0].x
        for e in o.x[1:]:
            t = z3.Concat(t, recv.x, e.x)
        return [(st, vstr(t))]
    if o.t[0] == "seq" and o.t[1] == ("str",):
        return [(st, vstr(reg.join_fn(eng, st, recv, o)))]
    if (eng.c is not None and "join_rel" in getattr(eng.c, "opts", ()) and getattr(reg, "join_bag_fn", None) is not None
            and o.t[0] in ("bag", "set") and o.t[1] == ("str",) and recv.t == ("str",)):
        # opt-in (contract option "join_rel"): sep.join(<list seen as the collection S of its elements>) is SOME text t with is_join(t, sep, S)
        # ("t is the sep-join of some arrangement of a list whose element set is S": order and multiplicities stay unmodelled)
        return [(st, reg.join_bag_fn(eng, st, recv, o))]
    # text rendering of an unordered collection: not modelled (message text level is bounded, never proved)
    return [(st, fresh("Str", "joined"))]


def m_strip(reg, eng, st, recv, args, kwargs, node, rexpr):
    """s.strip() without arguments: ONE uninterpreted function of s; the only fact stated is that the result is a contiguous part of s."""
    if args or kwargs or recv.t != ("str",):
        raise OutOfSubset("str.strip with arguments / on a non-str")
    res = z3.Function("str_strip", z3.StringSort(), z3.StringSort())(recv.x)
    st.assume(z3.Contains(recv.x, res))
    return [(st, vstr(res))]


def m_rstrip(reg, eng, st, recv, args, kwargs, node, rexpr):
    """s.rstrip(c) for ONE literal character c: the unique r with s == r + c*k (k >= 0) and r not ending in c. Anything else is refused."""
    if len(args) != 1 or kwargs or recv.t[0] != "str" or args[0].t[0] != "str" or not z3.is_string_value(z3.simplify(args[0].x)) \
            or len(z3.simplify(args[0].x).as_string()) != 1:
        raise OutOfSubset("str.rstrip with anything but one literal character")
    ch = z3.simplify(args[0].x)
    # the result is a FUNCTION of the string (so specifications can name it: rstrip_char), characterised at each use
    r = z3.Function("rstrip_char", z3.StringSort(), z3.StringSort(), z3.StringSort())(recv.x, ch)
    t = z3.Const(fresh_name("stripped_tail"), z3.StringSort())
    st.assume(z3.And(recv.x == z3.Concat(r, t), z3.InRe(t, z3.Star(z3.Re(ch))), z3.Not(z3.SuffixOf(ch, r))))
    return [(st, vstr(r))]


def m_split(reg, eng, st, recv, args, kwargs, node, rexpr):
    (sep,) = args
    return [(st, V(("seq", ("str",)), reg.split_fn(eng, st, recv, sep)))]


def m_str_replace(reg, eng, st, recv, args, kwargs, node, rexpr):
    if len(args) != 2 or kwargs or any(x.t[0] != "str" for x in (recv,) + tuple(args)):
        raise OutOfSubset("str.replace with a count / non-string arguments")
    a, b = args
    # Python's s.replace(a, b) replaces EVERY non-overlapping occurrence, left to right: SMT-LIB str.replace_all (for a == "" Python inserts b between all
    # characters while str.replace_all leaves s unchanged: refused)
    s_empty = st.fork()
    s_empty.assume(a.x == z3.StringVal(""))
    if feasible(s_empty):
        raise OutOfSubset("str.replace with a possibly empty pattern")
    ctx = recv.x.ctx
    return [(st, vstr(z3.SeqRef(z3.Z3_mk_seq_replace_all(ctx.ref(), recv.x.as_ast(), a.x.as_ast(), b.x.as_ast()), ctx)))]


METHODS = {
    "list": {"append": m_append, "extend": m_extend, "pop": m_pop_bag, "sort": m_sort},
    "bag": {"append": m_append, "extend": m_extend, "pop": m_pop_bag, "sort": m_sort},
    "seq": {"append": m_append, "extend": m_extend},
    "aseq": {"append": m_append},
    "set": {"add": m_add, "update": m_update, "remove": m_remove, "discard": m_discard, "pop": m_pop_set,
            "intersection": m_intersection, "union": m_union},
    "emptyset": {"add": m_add, "update": m_update},
    "dict": {"items": m_items, "keys": m_keys, "values": m_values, "get": m_get, "pop": m_pop_dict},
    "str": {"append": m_append, "startswith": m_startswith, "endswith": m_endswith, "join": m_join, "split": m_split,
            "replace": m_str_replace, "strip": m_strip, "rstrip": m_rstrip},
}
