"""pyvc symbolic executor: Python AST (real source) + sidecar contracts -> verification conditions."""
from __future__ import annotations

import ast
import z3

from . import vals
from .vals import (V, VNONE, vbool, vint, vstr, fresh, to_term, from_term, sort_of, coerce,
                   parse_type, fresh_name, DATA, OBJ_LAYOUT)
from .state import State, Obligation, OutOfSubset, UnknownName, ContractDrift, feasible

TRUE = z3.BoolVal(True)
FALSE = z3.BoolVal(False)

MUTATORS = {"append", "extend", "add", "update", "remove", "discard", "pop", "clear", "insert",
            "setdefault", "sort", "reverse"}


def zand(*xs):
    xs = [x for x in xs if not z3.is_true(x)]
    if any(z3.is_false(x) for x in xs):
        return FALSE
    return TRUE if not xs else xs[0] if len(xs) == 1 else z3.And(*xs)


def zor(*xs):
    xs = [x for x in xs if not z3.is_false(x)]
    if any(z3.is_true(x) for x in xs):
        return TRUE
    return FALSE if not xs else xs[0] if len(xs) == 1 else z3.Or(*xs)


def znot(x):
    if z3.is_true(x):
        return FALSE
    if z3.is_false(x):
        return TRUE
    return z3.Not(x)


class Engine:
    """One instance per function under verification (or per lemma)."""

    def __init__(self, registry, contract, fn_ast, modctx, cls=None):
        self.reg = registry          # Registry: contracts, spec functions, dataclass info
        self.c = contract
        self.fn = fn_ast
        self.mod = modctx            # ModuleCtx of the file the function lives in
        self.cls = cls               # enclosing class name or None
        self.obls: list[Obligation] = []
        self.spec = False            # evaluating a specification expression
        self._abn = []               # abnormal (raised) states produced while evaluating expressions
        self.loop_ord = 0
        self.assumed = []            # axiom-schema instances used ('use' clauses)
        self.inlined = []
        self.name = contract.key if contract else "<lemma>"
        self.bound = {}              # bound variables of enclosing quantifiers (name -> V)
        self.result = None
        self.cur_st = None
        self.cur_state_for_truth = None
        self.used_defs = set()
        self.callees = set()         # contracts applied at call sites / lemmas used: the verification cone
        self.axioms_used = {}
        self.nodup = set()           # ids of array terms that denote duplicate-free LISTS (len = cardinality)
        self._nodup_keep = []
        self._set_cache = {}        # name -> definitional axiom of a spec-level function symbol that was used

    # ------------------------------------------------------------------ obligations
    def oblige(self, st, goal, kind, label, lineno=0, note=""):
        if z3.is_true(goal):
            goal = TRUE
        nm = f"{self.name}/{label}"
        # make names unique but stable
        n = sum(1 for o in self.obls if o.name == nm or o.name.startswith(nm + "#"))
        if n:
            nm = f"{nm}#{n}"
        hyps = list(st.pc) + list(self.axioms_used.values())
        self.obls.append(Obligation(nm, kind, hyps, goal, lineno, note or " & ".join(st.trace[-6:])))
        self.obls[-1].n_pc = len(st.pc)
        self.obls[-1].ax_defs = [self.__dict__.get("axiom_defs", {}).get(k) for k in self.axioms_used]

    def cover(self, st, label, lineno=0):
        nm = f"{self.name}/cover/{label}"
        n = sum(1 for o in self.obls if o.name == nm or o.name.startswith(nm + "#"))
        if n:
            nm = f"{nm}#{n}"
        hyps = list(st.pc) + list(self.axioms_used.values())
        self.obls.append(Obligation(nm, "cover", hyps, TRUE, lineno, "", cover=True))

    def bv(self, name, sort):
        """Bound variable with a deterministic, depth-indexed name: alpha-equivalent specification formulas
        then become the *same* AST, which keeps proofs stable (z3 compares bound names)."""
        return z3.Const(f"{name}@{getattr(self, 'qdepth', 0)}", sort)

    def bvar(self, name, t):
        t = parse_type(t)
        k = t[0]
        if k == "tuple":
            return V(t, tuple(self.bvar(f"{name}.{i}", ti) for i, ti in enumerate(t[1])))
        if k == "opt":
            return V(t, (self.bv(name + ".isnone", z3.BoolSort()), self.bvar(name + ".val", t[1])))
        if k == "dict":
            return V(t, (self.bv(name + ".dom", z3.ArraySort(sort_of(t[1]), z3.BoolSort())),
                         self.bv(name + ".val", z3.ArraySort(sort_of(t[1]), sort_of(t[2])))))
        if k == "obj":
            return V(t, {f: self.bvar(f"{name}.{f}", ft) for f, ft in OBJ_LAYOUT[t[1]].items()})
        return V(t, self.bv(name, sort_of(t)))

    def mkset(self, st, consts, body):
        """The set {consts | body} as an array term. Outside binders it is a fresh constant with a defining
        axiom (plain SMT-LIB, so every back end can read it); under a binder it must stay a lambda."""
        if getattr(self, "qdepth", 0) > 0 or st is None:
            return z3.Lambda(consts, body)
        if len(consts) == 1:
            dom = consts[0].sort()
        else:
            raise OutOfSubset("multi-binder set")
        key = ("set", body.get_id(), consts[0].get_id())
        if key in self._set_cache:
            return self._set_cache[key][0]
        arr = z3.Const(fresh_name("S"), z3.ArraySort(dom, z3.BoolSort()))
        # definitional axiom of a fresh constant: conservative, so it may be visible to every obligation
        self.axioms_used[f"set!{len(self._set_cache)}"] = z3.ForAll(consts, z3.Select(arr, consts[0]) == body)
        self.__dict__.setdefault("axiom_defs", {})[f"set!{len(self._set_cache)}"] = arr.decl().name()
        self._set_cache[key] = (arr, body)  # keep 'body' alive so the AST id stays unique
        return arr

    # ------------------------------------------------------------------ truthiness / equality
    def truth(self, v: V):
        k = v.t[0]
        if k == "bool":
            return v.x
        if k in ("none", "emptyset"):
            return FALSE
        if k == "opt":
            return zand(znot(v.x[0]), self.truth(v.x[1]))
        if k in ("set", "bag"):
            x = self.bv("w!", sort_of(v.t[1]))
            return z3.Exists([x], z3.Select(v.x, x))
        if k == "seq":
            return z3.Length(v.x) > 0
        if k == "aseq":
            return v.x[0] > 0
        if k == "str":
            return z3.Length(v.x) > 0
        if k == "int":
            return v.x != 0
        if k == "list":
            return vals.z3.BoolVal(len(v.x) > 0)
        if k == "tuple":
            return z3.BoolVal(len(v.x) > 0)
        if k == "dict":
            x = self.bv("w!", sort_of(v.t[1]))
            return z3.Exists([x], z3.Select(v.x[0], x))
        if k == "obj":
            c = self.reg.lookup_method(v.t[1], "__bool__")
            if c is not None:
                if c.defn is None:
                    raise OutOfSubset(f"{v.t[1]}.__bool__ needs a defn contract")
                saved_spec, saved_bound = self.spec, dict(self.bound)
                self.spec = True
                self.bound["self"] = v
                try:
                    from .state import State as _S
                    return self.truth(self.ev1(self.reg.parse_spec(c.defn), self.cur_state_for_truth or _S()))
                finally:
                    self.spec, self.bound = saved_spec, saved_bound
            return TRUE
        if k in ("data", "closure", "graph", "opaque", "node", "boundmethod"):
            return TRUE
        raise OutOfSubset(f"truthiness of {v.t}")

    def eq(self, a: V, b: V):
        ka, kb = a.t[0], b.t[0]
        if ka == "none" and kb == "none":
            return TRUE
        if ka == "none":
            a, b, ka, kb = b, a, kb, ka
        if kb == "none":
            if ka == "opt":
                return a.x[0]
            return FALSE
        if ka == "opt" and kb != "opt":
            return zand(znot(a.x[0]), self.eq(a.x[1], b))
        if kb == "opt" and ka != "opt":
            return zand(znot(b.x[0]), self.eq(a, b.x[1]))
        if ka == "opt":
            return zor(zand(a.x[0], b.x[0]), zand(znot(a.x[0]), znot(b.x[0]), self.eq(a.x[1], b.x[1])))
        if ka == "tuple" or kb == "tuple" or (ka == "list" and kb == "list"):
            xs = a.x if ka in ("tuple", "list") else from_term(b.t, a.x).x
            ys = b.x if kb in ("tuple", "list") else from_term(a.t, b.x).x
            if len(xs) != len(ys):
                return FALSE
            return zand(*[self.eq(x, y) for x, y in zip(xs, ys)])
        if ka == "list" or kb == "list":
            other = b if ka == "list" else a
            lst = a if ka == "list" else b
            if other.t[0] in ("bag", "seq", "set"):
                return self.eq(coerce(lst, other.t), other)
        if ka == "obj" and kb == "obj":
            if a.t != b.t:
                return FALSE
            return zand(*[self.eq(a.x[f], b.x[f]) for f in a.x])
        if ka == "dict" and kb == "dict":
            k = self.bv("k!", sort_of(a.t[1]))
            return zand(a.x[0] == b.x[0], z3.ForAll([k], z3.Implies(z3.Select(a.x[0], k), z3.Select(a.x[1], k) == z3.Select(b.x[1], k))))
        if ka in ("set", "bag") and kb in ("set", "bag"):
            if sort_of(a.t) != sort_of(b.t):
                return FALSE
            return a.x == b.x  # array extensionality
        ta, tb = to_term(a), to_term(b)
        if ta.sort() != tb.sort():
            return FALSE
        return ta == tb

    def contains(self, coll: V, e: V):
        k = coll.t[0]
        if k == "emptyset":
            return FALSE
        if k in ("set", "bag"):
            return z3.Select(coll.x, to_term(coerce(e, coll.t[1])))
        if k == "dict":
            return z3.Select(coll.x[0], to_term(coerce(e, coll.t[1])))
        if k == "seq":
            return z3.Contains(coll.x, z3.Unit(to_term(coerce(e, coll.t[1]))))
        if k in ("list", "tuple"):
            return zor(*[self.eq(x, e) for x in coll.x])
        if k == "str":
            if e.t[0] != "str":
                raise OutOfSubset("in <str> with non-str")
            return z3.Contains(coll.x, e.x)
        if k == "opt":
            return zand(znot(coll.x[0]), self.contains(coll.x[1], e))
        if k == "obj":
            c_ = self.reg.lookup_method(coll.t[1], "__contains__")
            if c_ is not None and c_.defn is not None:
                saved_spec, saved_bound = self.spec, dict(self.bound)
                self.spec = True
                self.bound = dict(self.bound)
                self.bound.update({list(c_.params)[0]: coll, list(c_.params)[1]: self.typed(e, list(c_.params.values())[1])})
                try:
                    from .state import State as _S
                    return self.truth(self.ev1(self.reg.parse_spec(c_.defn), self.cur_state_for_truth or _S()))
                finally:
                    self.spec, self.bound = saved_spec, saved_bound
        raise OutOfSubset(f"'in' on {coll.t}")

    # ------------------------------------------------------------------ raising
    def do_raise(self, st, excname, lineno=0, payload=None):
        st.flow = "raise"
        st.exc = (excname, payload)
        st.trace.append(f"raise {excname}@{lineno}")
        self._abn.append(st)

    # ------------------------------------------------------------------ expressions
    def ev(self, node, st) -> list:
        """Evaluate; returns [(state, value)] for normal continuations (raising ones go to self._abn)."""
        m = getattr(self, "ev_" + type(node).__name__, None)
        if m is None:
            raise OutOfSubset(f"expression {type(node).__name__} at line {getattr(node, 'lineno', '?')}")
        return m(node, st)

    def ev1(self, node, st) -> V:
        """Evaluate an expression that must not fork or raise (specifications, pure sub-expressions)."""
        n_abn = len(self._abn)
        r = self.ev(node, st)
        if len(r) != 1 or len(self._abn) != n_abn:
            raise OutOfSubset(f"expression forks or raises where a pure one is required: {ast.unparse(node)[:80]}")
        if r[0][0] is not st:
            # pure evaluation may still add assumptions (definitional axioms); merge them
            st.pc = r[0][0].pc
            st.vars = r[0][0].vars
        return r[0][1]

    def ev_seq(self, nodes, st):
        res = [(st, [])]
        for n in nodes:
            nxt = []
            for s, acc in res:
                for s2, v in self.ev(n, s):
                    nxt.append((s2, acc + [v]))
            res = nxt
        return res

    def ev_Constant(self, node, st):
        c = node.value
        if c is None:
            return [(st, VNONE)]
        if isinstance(c, bool):
            return [(st, vbool(c))]
        if isinstance(c, int):
            return [(st, vint(c))]
        if isinstance(c, str):
            return [(st, vstr(c))]
        raise OutOfSubset(f"constant {c!r}")

    def ev_Name(self, node, st):
        n = node.id
        if n in self.bound:
            return [(st, self.bound[n])]
        if n in st.vars:
            cond = st.ghost.get(("unbound", n)) if not self.spec else None
            if cond is not None:
                # a for-loop target read after the loop: unbound when the loop never ran (UnboundLocalError), else the last element
                ln = getattr(node, "lineno", 0)
                if getattr(self, "qdepth", 0) > 0 and getattr(self, "_comp_ctx", None):
                    cx = self._comp_ctx[-1]
                    cx["raises"].append(("UnboundLocalError", cond, list(cx["member"]), list(cx["consts"]), ln))
                elif getattr(self, "qdepth", 0) > 0:
                    raise OutOfSubset(f"loop variable {n} read after its loop under a binder")
                else:
                    s_err = st.fork()
                    s_err.assume(cond)
                    if feasible(s_err):
                        self.do_raise(s_err, "UnboundLocalError", ln)
                    st.assume(znot(cond))
                    del st.ghost[("unbound", n)]
            return [(st, st.vars[n])]
        if self.spec and n == "result":
            return [(st, self.result)]
        v = self.reg.global_value(n, self.mod)
        if v is not None:
            return [(st, v)]
        raise UnknownName(f"unknown name {n} at line {node.lineno}")

    def ev_Tuple(self, node, st):
        return [(s, V(("tuple", tuple(v.t for v in vs)), tuple(vs))) for s, vs in self.ev_seq(node.elts, st)]

    def ev_List(self, node, st):
        return [(s, V(("list",), list(vs))) for s, vs in self.ev_seq(node.elts, st)]

    def ev_Set(self, node, st):
        out = []
        for s, vs in self.ev_seq(node.elts, st):
            t = ("set", vs[0].t)
            out.append((s, V(t, coerce(V(("list",), vs), t).x)))
        return out

    def ev_UnaryOp(self, node, st):
        out = []
        for s, v in self.ev(node.operand, st):
            if isinstance(node.op, ast.Not):
                out.append((s, vbool(znot(self.truth(v)))))
            elif isinstance(node.op, ast.USub) and v.t[0] == "int":
                out.append((s, vint(-v.x)))
            else:
                raise OutOfSubset("unary op")
        return out

    def is_simple(self, node) -> bool:
        """Syntactically total & side-effect free: safe to evaluate regardless of a guard."""
        for n in ast.walk(node):
            if isinstance(n, ast.Call):
                if not self.reg.call_is_total(n, self):
                    return False
            elif isinstance(n, (ast.Subscript,)):
                return False if not self.spec else True
            elif isinstance(n, (ast.Await, ast.Yield, ast.YieldFrom, ast.NamedExpr)):
                return False
        return True

    def ev_BoolOp(self, node, st):
        is_and = isinstance(node.op, ast.And)
        results = []
        # states where the result is already decided, and states still evaluating
        pending = [(st, [])]
        for i, operand in enumerate(node.values):
            nxt = []
            for s, acc in pending:
                if self.spec or self.is_simple(operand):
                    for s2, v in self.ev(operand, s):
                        nxt.append((s2, acc + [v]))
                else:
                    # guard: previous operands all true (and) / all false (or)
                    g = zand(*[self.truth(a) for a in acc]) if is_and else zand(*[znot(self.truth(a)) for a in acc])
                    if z3.is_true(g):
                        for s2, v in self.ev(operand, s):
                            nxt.append((s2, acc + [v]))
                        continue
                    s_skip = s.fork()
                    s_skip.assume(znot(g))
                    if feasible(s_skip):
                        # short-circuited: value decided by earlier operands
                        results.append((s_skip, self._boolop_value(is_and, acc)))
                    s_go = s
                    s_go.assume(g)
                    if feasible(s_go):
                        for s2, v in self.ev(operand, s_go):
                            nxt.append((s2, acc + [v]))
            pending = nxt
        for s, acc in pending:
            results.append((s, self._boolop_value(is_and, acc)))
        return results

    def _boolop_value(self, is_and, acc):
        if all(a.t[0] == "bool" for a in acc):
            return vbool(zand(*[a.x for a in acc]) if is_and else zor(*[a.x for a in acc]))
        # Python returns one of the operands; only the truth value is modelled unless all but last are bool
        if len(acc) == 2 and not is_and:
            a, b = acc
            # a or b  -> a if truthy else b
            if a.t[0] == "opt":
                inner_t = a.t[1]
                try:
                    bb = coerce(b, inner_t)
                    ta = self.truth(a)
                    return self.ite(ta, a.x[1], bb)
                except TypeError:
                    pass
            if a.t[0] in ("bag", "set", "seq", "list") and b.t[0] in ("bag", "set", "seq", "list") and not (a.t[0] == "list" and b.t[0] == "list"):
                # xs or ys -> xs when it is non-empty, else ys
                try:
                    return self.ite(self.truth(a), a, b)
                except (TypeError, OutOfSubset):
                    pass
        return vbool(zand(*[self.truth(a) for a in acc]) if is_and else zor(*[self.truth(a) for a in acc]))

    def ite(self, c, a: V, b: V) -> V:
        if z3.is_true(c):
            return a
        if z3.is_false(c):
            return b
        if a.t[0] == "none" and b.t[0] != "none":
            a = coerce(a, ("opt", b.t) if b.t[0] != "opt" else b.t)
        if b.t[0] == "none" and a.t[0] != "none":
            b = coerce(b, ("opt", a.t) if a.t[0] != "opt" else a.t)
        if a.t[0] == "opt" and b.t[0] != "opt":
            b = coerce(b, a.t)
        if b.t[0] == "opt" and a.t[0] != "opt":
            a = coerce(a, b.t)
        if a.t[0] == "list" and b.t[0] in ("bag", "seq", "set"):
            a = coerce(a, b.t)
        if b.t[0] == "list" and a.t[0] in ("bag", "seq", "set"):
            b = coerce(b, a.t)
        k = a.t[0]
        if k == "none":
            return a
        if k == "opt":
            return V(a.t, (z3.If(c, a.x[0], b.x[0]), self.ite(c, a.x[1], b.x[1])))
        if k == "tuple":
            return V(a.t, tuple(self.ite(c, x, y) for x, y in zip(a.x, b.x)))
        if k in ("dict", "aseq"):
            return V(a.t, (z3.If(c, a.x[0], b.x[0]), z3.If(c, a.x[1], b.x[1])))
        if k == "obj":
            return V(a.t, {f: self.ite(c, a.x[f], b.x[f]) for f in a.x})
        if k == "list":
            if len(a.x) != len(b.x):
                raise OutOfSubset("ite of lists of different length")
            return V(a.t, [self.ite(c, x, y) for x, y in zip(a.x, b.x)])
        if a.t != b.t and sort_of(a.t) != sort_of(b.t):
            raise OutOfSubset(f"ite of {a.t} and {b.t}")
        return V(a.t, z3.If(c, a.x, b.x))

    def ev_IfExp(self, node, st):
        out = []
        for s, c in self.ev(node.test, st):
            cb = self.truth(c)
            if self.spec or (self.is_simple(node.body) and self.is_simple(node.orelse)):
                a = self.ev1(node.body, s)
                b = self.ev1(node.orelse, s)
                out.append((s, self.ite(cb, a, b)))
                continue
            s2 = s.fork()
            s.assume(cb)
            s2.assume(znot(cb))
            if feasible(s):
                out += self.ev(node.body, s)
            if feasible(s2):
                out += self.ev(node.orelse, s2)
        return out

    def ev_Compare(self, node, st):
        out = []
        for s, vs in self.ev_seq([node.left] + node.comparators, st):
            conj = []
            for op, a, b in zip(node.ops, vs[:-1], vs[1:]):
                conj.append(self.compare(op, a, b))
            out.append((s, vbool(zand(*conj))))
        return out

    def compare(self, op, a, b):
        if isinstance(op, (ast.Eq, ast.Is)):
            return self.eq(a, b)
        if isinstance(op, (ast.NotEq, ast.IsNot)):
            return znot(self.eq(a, b))
        if isinstance(op, ast.In):
            return self.contains(b, a)
        if isinstance(op, ast.NotIn):
            return znot(self.contains(b, a))
        if a.t[0] == "int" and b.t[0] == "int":
            return {ast.Lt: a.x < b.x, ast.LtE: a.x <= b.x, ast.Gt: a.x > b.x, ast.GtE: a.x >= b.x}[type(op)]
        if isinstance(op, ast.LtE) and a.t[0] in ("set", "bag") and b.t[0] in ("set", "bag"):
            x = self.bv("e!", sort_of(a.t[1]))
            return z3.ForAll([x], z3.Implies(z3.Select(a.x, x), z3.Select(b.x, x)))
        raise OutOfSubset(f"comparison {type(op).__name__} on {a.t},{b.t}")

    def ev_BinOp(self, node, st):
        out = []
        for s, (a, b) in self.ev_seq([node.left, node.right], st):
            out.append((s, self.binop(node.op, a, b, s)))
        return out

    def binop(self, op, a, b, st):
        for v_ in (a, b):
            if v_.t[0] == "opt" and not self.spec:
                # arithmetic / concatenation with None is a TypeError
                s_none = st.fork()
                s_none.assume(v_.x[0])
                if feasible(s_none):
                    self.do_raise(s_none, "TypeError", 0)
                st.assume(znot(v_.x[0]))
        if a.t[0] == "opt":
            a = a.x[1]
        if b.t[0] == "opt":
            b = b.x[1]
        ka, kb = a.t[0], b.t[0]
        if ka == "int" and kb == "int":
            if isinstance(op, ast.Add):
                return vint(a.x + b.x)
            if isinstance(op, ast.Sub):
                return vint(a.x - b.x)
            if isinstance(op, ast.Mult):
                return vint(a.x * b.x)
        if ka == "str" and kb == "str" and isinstance(op, ast.Add):
            return vstr(z3.Concat(a.x, b.x))
        if ka in ("set", "bag") and kb in ("set", "bag", "list"):
            b = coerce(b, a.t)
            x = z3.Const(fresh_name("e"), sort_of(a.t[1]))
            if isinstance(op, ast.Sub):
                return V(a.t, self.mkset(st, [x], z3.And(z3.Select(a.x, x), z3.Not(z3.Select(b.x, x)))))
            if isinstance(op, (ast.BitOr, ast.Add)):
                return V(a.t, self.mkset(st, [x], z3.Or(z3.Select(a.x, x), z3.Select(b.x, x))))
            if isinstance(op, ast.BitAnd):
                return V(a.t, self.mkset(st, [x], z3.And(z3.Select(a.x, x), z3.Select(b.x, x))))
        if ka == "list" and kb == "list" and isinstance(op, ast.Add):
            return V(("list",), list(a.x) + list(b.x))
        if ka == "list" and kb in ("bag", "seq") and isinstance(op, ast.Add):
            return self.binop(op, coerce(a, b.t), b, st)
        if ka == "seq" and kb in ("seq", "list") and isinstance(op, ast.Add):
            res = z3.Concat(a.x, coerce(b, a.t).x)
            if kb == "list" and not self.spec and getattr(self, "qdepth", 0) == 0:
                # facts that are valid in the theory of sequences, stated explicitly because the solvers do not derive them under quantifiers:
                # (xs + [e1..ek]) has length len(xs) + k, agrees with xs below len(xs), and holds e_i at len(xs) + i
                j = z3.Int(fresh_name("j"))
                st.assume(z3.Length(res) == z3.Length(a.x) + len(b.x))
                st.assume(z3.ForAll([j], z3.Implies(z3.And(0 <= j, j < z3.Length(a.x)), res[j] == a.x[j])))
                for i_, e_ in enumerate(b.x):
                    st.assume(res[z3.Length(a.x) + i_] == to_term(coerce(e_, a.t[1])))
            return V(a.t, res)
        raise OutOfSubset(f"binary {type(op).__name__} on {a.t},{b.t}")

    def ev_JoinedStr(self, node, st):
        parts = []
        for p in node.values:
            if isinstance(p, ast.Constant):
                parts.append(vstr(p.value))
            elif isinstance(p, ast.FormattedValue):
                if p.format_spec is not None or p.conversion != -1:
                    raise OutOfSubset("format spec")
                v = self.ev1(p.value, st)  # must neither fork nor raise (checked by ev1)
                parts.append(self.to_str(v))
        if not parts:
            return [(st, vstr(""))]
        t = parts[0].x
        for p in parts[1:]:
            t = z3.Concat(t, p.x)
        return [(st, vstr(t))]

    def to_str(self, v):
        if v.t[0] == "str":
            return v
        if v.t[0] == "opt" and v.t[1][0] == "str":
            return vstr(z3.If(v.x[0], z3.StringVal("None"), v.x[1].x))
        # formatting of an opaque value: an uninterpreted injective rendering is not needed; refuse
        return vstr(self.reg.render(v))

    def ev_Attribute(self, node, st):
        v_ = node.value
        if (isinstance(v_, ast.Name) and v_.id not in st.vars and v_.id not in self.bound and self.mod is not None
                and v_.id in self.mod.imports and self.mod.imports[v_.id][1] is None):
            key = f"{self.mod.imports[v_.id][0]}.{node.attr}"
            mc = getattr(self.reg, "module_constants", {})
            if key in mc:
                # <imported module>.<CONSTANT> registered with its real value (e.g. re.DOTALL)
                return [(st, mc[key])]
            if not self.spec:
                # module.CONSTANT (e.g. os.sep): an assumed contract without parameters keyed "module.CONSTANT"
                c = self.reg.contracts.get(key)
                if c is None or c.params:
                    raise OutOfSubset(f"no contract for module attribute {key} (line {getattr(node, 'lineno', '?')})")
                return self.reg.apply_contract(self, c, [], {}, st, node)
        out = []
        for s, recv in self.ev(node.value, st):
            out += self.getattr(recv, node.attr, s, node)
        return out

    def getattr(self, recv: V, attr: str, st, node):
        k = recv.t[0]
        if k == "obj":
            if attr in recv.x:
                return [(st, recv.x[attr])]
            if attr == "__dict__":
                return [(st, V(("objdict",), recv.x))]
            c_ = self.reg.lookup_method(recv.t[1], attr)
            if c_ is not None and c_.kind == "method" and not self.spec:
                return [(st, V(("boundmethod",), (recv, attr, node.value if isinstance(node, ast.Attribute) else None)))]
            return self.reg.call_method(self, st, recv, attr, [], {}, node, is_property=True)
        if k == "opt":
            # attribute on Optional: AttributeError when None
            isnone, inner = recv.x
            if not self.spec:
                s_none = st.fork()
                s_none.assume(isnone)
                if feasible(s_none):
                    self.do_raise(s_none, "AttributeError", getattr(node, "lineno", 0))
                st.assume(znot(isnone))
            return self.getattr(inner, attr, st, node)
        if k in ("data", "graph", "opaque"):
            return self.reg.call_method(self, st, recv, attr, [], {}, node, is_property=True)
        if k == "exc" and attr == "args":
            return [(st, V(("list",), [recv.x]))]
        raise OutOfSubset(f"attribute {attr} on {recv.t} at line {getattr(node, 'lineno', '?')}")

    def ev_Subscript(self, node, st):
        out = []
        if isinstance(node.slice, ast.Slice):
            parts = [node.value] + [p for p in (node.slice.lower, node.slice.upper) if p is not None]
            if node.slice.step is not None:
                raise OutOfSubset("slice step")
            for s, vs in self.ev_seq(parts, st):
                recv = vs[0]
                it = iter(vs[1:])
                lo = next(it) if node.slice.lower is not None else None
                hi = next(it) if node.slice.upper is not None else None
                out.append((s, self.slice(recv, lo, hi)))
            return out
        for s, (recv, idx) in self.ev_seq([node.value, node.slice], st):
            out += self.index(recv, idx, s, node)
        return out

    def _norm_index(self, i, n):
        # python index normalisation for a possibly negative index term
        return z3.If(i < 0, n + i, i)

    def slice(self, recv, lo, hi):
        k = recv.t[0]
        if k in ("str", "seq"):
            n = z3.Length(recv.x)
            l = z3.IntVal(0) if lo is None else self._clamp(self._norm_index(lo.x, n), n)
            h = n if hi is None else self._clamp(self._norm_index(hi.x, n), n)
            ln = z3.If(h > l, h - l, z3.IntVal(0))
            return V(recv.t, z3.SubSeq(recv.x, l, ln) if k == "seq" else z3.SubString(recv.x, l, ln))
        if k == "list":
            def conc(v, default):
                if v is None:
                    return default
                s = z3.simplify(v.x)
                if not z3.is_int_value(s):
                    raise OutOfSubset("symbolic slice of concrete list")
                return s.as_long()
            return V(recv.t, recv.x[conc(lo, None):conc(hi, None)])
        raise OutOfSubset(f"slice of {recv.t}")

    def _clamp(self, i, n):
        return z3.If(i < 0, z3.IntVal(0), z3.If(i > n, n, i))

    def index(self, recv, idx, st, node):
        k = recv.t[0]
        ln = getattr(node, "lineno", 0)
        if k in ("tuple", "list"):
            s = z3.simplify(idx.x) if idx.t[0] == "int" else None
            if s is None or not z3.is_int_value(s):
                raise OutOfSubset("symbolic index into concrete tuple/list")
            i = s.as_long()
            if not (-len(recv.x) <= i < len(recv.x)):
                self.do_raise(st, "IndexError", ln)
                return []
            return [(st, recv.x[i])]
        if k == "objdict":
            sv = z3.simplify(idx.x) if idx.t[0] == "str" else None
            if sv is None or not z3.is_string_value(sv):
                raise OutOfSubset("symbolic key into __dict__")
            return [(st, recv.x[sv.as_string()])]
        if k == "opt" and self.spec:
            return self.index(recv.x[1], idx, st, node)
        if k == "opt":
            # None[...] is a TypeError
            s_none = st.fork()
            s_none.assume(recv.x[0])
            if feasible(s_none):
                self.do_raise(s_none, "TypeError", ln)
                st.assume(znot(recv.x[0]))   # (nothing to add when the path already excludes None)
            return self.index(recv.x[1], idx, st, node)
        if k in ("opaque", "data") and self.reg.lookup_method(self.reg.family_of(recv) or "", "__getitem__") is not None:
            return self.reg.call_method(self, st, recv, "__getitem__", [idx], {}, node)
        if k == "dict":
            key = to_term(coerce(idx, recv.t[1]))
            present = z3.Select(recv.x[0], key)
            if len(recv.t) == 4 and not self.spec:
                # defaultdict(list): a missing key yields the empty default (callers here only append to it)
                if recv.t[2][0] == "dict":
                    # defaultdict(dict): a missing key yields the empty dict
                    dflt = V(recv.t[2], (z3.K(sort_of(recv.t[2][1]), FALSE), z3.Const(fresh_name("dval"), z3.ArraySort(sort_of(recv.t[2][1]), sort_of(recv.t[2][2])))))
                    return [(st, from_term(recv.t[2], z3.If(present, z3.Select(recv.x[1], key), to_term(dflt))))]
                if recv.t[2][0] not in ("bag", "set"):
                    raise OutOfSubset("defaultdict with non-collection default")
                empty = z3.K(sort_of(recv.t[2][1]), FALSE)
                return [(st, V(recv.t[2], z3.If(present, z3.Select(recv.x[1], key), empty)))]
            if not self.spec and getattr(self, "qdepth", 0) > 0 and getattr(self, "_comp_ctx", None):
                # d[k] inside a comprehension: the comprehension raises KeyError iff SOME iteration reaches a missing key (decided after the comprehension)
                cx = self._comp_ctx[-1]
                cx["raises"].append(("KeyError", znot(present), list(cx["member"]), list(cx["consts"]), ln))
            elif not self.spec:
                s_err = st.fork()
                s_err.assume(znot(present))
                if feasible(s_err):
                    self.do_raise(s_err, "KeyError", ln)
                st.assume(present)
            return [(st, from_term(recv.t[2], z3.Select(recv.x[1], key)))]
        if k == "aseq":
            n = recv.x[0]
            i = self._norm_index(idx.x, n)
            ok = z3.And(i >= 0, i < n)
            if not self.spec:
                s_err = st.fork()
                s_err.assume(znot(ok))
                if feasible(s_err):
                    self.do_raise(s_err, "IndexError", ln)
                st.assume(ok)
            return [(st, from_term(recv.t[1], z3.Select(recv.x[1], i)))]
        if k in ("seq", "str"):
            n = z3.Length(recv.x)
            i = self._norm_index(idx.x, n)
            ok = z3.And(i >= 0, i < n)
            if not self.spec:
                s_err = st.fork()
                s_err.assume(znot(ok))
                if feasible(s_err):
                    self.do_raise(s_err, "IndexError", ln)
                st.assume(ok)
            if k == "str":
                return [(st, vstr(z3.SubString(recv.x, i, 1)))]
            return [(st, from_term(recv.t[1], recv.x[i]))]
        if k in ("bag", "set") and idx.t[0] == "int" and z3.is_int_value(z3.simplify(idx.x)) and not self.spec and z3.simplify(idx.x).as_long() not in (0, -1):
            # xs[1], xs[2], ...: IndexError depends on the NUMBER of elements, which the collection view of a list does not carry (found by the mutant corpus)
            raise OutOfSubset(f"constant index {z3.simplify(idx.x)} into a list seen as a collection (only [0] / [-1] are modelled)")
        if k in ("bag", "set") and idx.t[0] == "int" and z3.is_int_value(z3.simplify(idx.x)) and not self.spec:
            # xs[i] of a list seen as the collection of its elements: IndexError when empty, else SOME element (every order is covered)
            x = z3.Const(fresh_name("e"), sort_of(recv.t[1]))
            s_err = st.fork()
            s_err.assume(z3.Not(z3.Exists([x], z3.Select(recv.x, x))))
            if feasible(s_err):
                self.do_raise(s_err, "IndexError", ln)
            e = fresh(recv.t[1], "elem")
            st.assume(z3.Select(recv.x, to_term(e)))
            return [(st, e)]
        if k == "data" and recv.t[1] in DATA and idx.t[0] == "int":
            raise OutOfSubset("index into datatype")
        if k == "obj":
            return self.reg.call_method(self, st, recv, "__getitem__", [idx], {}, node)
        raise OutOfSubset(f"subscript on {recv.t}")

    def ev_Lambda(self, node, st):
        if node.args.vararg or node.args.kwarg or node.args.kwonlyargs or node.args.posonlyargs:
            raise OutOfSubset("lambda with *args / keyword-only / positional-only parameters")
        if not node.args.defaults:
            return [(st, V(("closure",), (node, st, None)))]
        # default arguments are evaluated ONCE, when the lambda expression is evaluated (early binding of defaults)
        outs = [(st, [])]
        for d in node.args.defaults:
            outs = [(s2, ds + [v]) for s, ds in outs for s2, v in self.ev(d, s)]
        return [(s, V(("closure",), (node, s, ds))) for s, ds in outs]

    def apply_closure(self, clo: V, args, st):
        """Evaluate the lambda body with parameters bound; free variables are read from the state
        passed in (the defining frame's *current* state: Python's late binding). Parameters without an explicit argument take the
        default values captured when the lambda was created."""
        node = clo.x[0]
        params = [a.arg for a in node.args.args]
        defaults = list(clo.x[2] or [])
        if node.args.vararg or node.args.kwarg or node.args.kwonlyargs:
            raise OutOfSubset("closure arity")
        missing = len(params) - len(args)
        if missing < 0 or missing > len(defaults):
            raise OutOfSubset("closure arity")
        args = list(args) + (defaults[len(defaults) - missing:] if missing else [])
        saved = dict(self.bound)
        for p_, a_ in zip(params, args):
            self.bound[p_] = a_
        try:
            return self.ev(node.body, st)
        finally:
            self.bound = saved

    # ---- closures stored in collections: Lam[...] values (see vals.parse_type)
    def closure_to_lam(self, clo: V, t, st):
        """A python-level closure becomes a value of the uninterpreted sort t = Lam[caps]: a fresh constant whose captured-default
        projections equal the defaults evaluated at creation. One lambda site per Lam sort and function (else refused)."""
        from .vals import LAM_CAPS, lam_cap_fn
        name = t[1]
        caps = LAM_CAPS[name]
        node, _st, defaults = clo.x
        defaults = list(defaults or [])
        if len(defaults) > len(caps):
            raise ContractDrift(f"lambda at line {node.lineno} captures {len(defaults)} defaults, the declared type {name} has {len(caps)}")
        sites = self.__dict__.setdefault("lam_sites", {})
        site = sites.get(name)
        if site is not None and site[0] is not node:
            raise OutOfSubset(f"two lambda sites stored as {name}")
        # depth of the defining frame: free variables of the body are looked up there when the closure is applied
        sites[name] = (node, len(st.stack), len(defaults))
        c = fresh(t, "lam")
        for k, d in enumerate(defaults):
            st.assume(lam_cap_fn(name, k)(c.x) == to_term(coerce(d, caps[k])))
        return c

    def apply_lam(self, f: V, args, st):
        from .vals import LAM_CAPS, lam_cap_fn
        name = f.t[1]
        site = self.__dict__.get("lam_sites", {}).get(name)
        if site is None:
            raise OutOfSubset(f"application of a {name} value whose lambda site is not in this function (inline the helper that applies it)")
        node, depth, ndef = site
        params = [a.arg for a in node.args.args]
        missing = len(params) - len(args)
        if missing < 0 or missing > ndef:
            raise OutOfSubset("closure arity")
        caps = LAM_CAPS[name]
        defaults = [from_term(caps[k], lam_cap_fn(name, k)(f.x)) for k in range(ndef)]
        args = list(args) + (defaults[ndef - missing:] if missing else [])
        saved = dict(self.bound)
        for p_, a_ in zip(params, args):
            self.bound[p_] = a_
        # the body's free variables live in the DEFINING frame (its current contents: late binding); when the application happens in an
        # inlined helper, evaluate in that frame
        swap = len(st.stack) > depth
        if swap:
            st.stack[depth], st.vars = st.vars, st.stack[depth]
        try:
            outs = self.ev(node.body, st)
        finally:
            self.bound = saved
        if swap:
            seen_ids = set()
            for s, _v in outs + [(st, None)]:
                if id(s) in seen_ids:
                    continue
                seen_ids.add(id(s))
                s.stack[depth], s.vars = s.vars, s.stack[depth]
        return outs

    def ev_Call(self, node, st):
        return self.reg.call(self, node, st)

    def ev_ListComp(self, node, st):
        return self.reg.comprehension(self, node, st, "bag")

    def ev_SetComp(self, node, st):
        return self.reg.comprehension(self, node, st, "set")

    def ev_GeneratorExp(self, node, st):
        return self.reg.comprehension(self, node, st, "bag")

    def ev_DictComp(self, node, st):
        return self.reg.dict_comprehension(self, node, st)

    def ev_Dict(self, node, st):
        if node.keys:
            raise OutOfSubset("non-empty dict literal")
        return [(st, V(("dict", ("none",), ("none",)), None))]  # typed on first store / by declaration
