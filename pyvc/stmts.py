"""Statement execution, loops by invariants, and the per-function verification driver."""
from __future__ import annotations

import ast
import z3

from .vals import (V, VNONE, vbool, vint, vstr, fresh, to_term, from_term, sort_of, coerce,
                   parse_type, fresh_name, deep_copy)
from .state import State, Obligation, OutOfSubset, UnknownName, ContractDrift, feasible
from .engine import Engine, TRUE, FALSE, zand, zor, znot, MUTATORS

MAX_PATHS = 4000


def assigned_names(stmts):
    """Names a block may rebind or mutate (syntactic over-approximation)."""
    out = set()

    class Vst(ast.NodeVisitor):
        def visit_Assign(self, n):
            for t in n.targets:
                self._target(t)
            self.generic_visit(n)

        def visit_AugAssign(self, n):
            self._target(n.target)
            self.generic_visit(n)

        def visit_AnnAssign(self, n):
            self._target(n.target)
            self.generic_visit(n)

        def visit_For(self, n):
            self._target(n.target)
            self.generic_visit(n)

        def visit_With(self, n):
            for it in n.items:
                if it.optional_vars is not None:
                    self._target(it.optional_vars)
            self.generic_visit(n)

        def visit_ExceptHandler(self, n):
            if n.name:
                out.add(n.name)
            self.generic_visit(n)

        def visit_Call(self, n):
            if isinstance(n.func, ast.Attribute) and n.func.attr in MUTATORS:
                self._target(n.func.value)
            self.generic_visit(n)

        def _target(self, t):
            if isinstance(t, ast.Name):
                out.add(t.id)
            elif isinstance(t, (ast.Tuple, ast.List)):
                for e in t.elts:
                    self._target(e)
            elif isinstance(t, (ast.Attribute, ast.Subscript)):
                self._target(t.value)
            elif isinstance(t, ast.Starred):
                self._target(t.value)

    v = Vst()
    for s in stmts:
        v.visit(s)
    return out


class Exec(Engine):
    # ------------------------------------------------------------------ blocks
    def run_block(self, stmts, states):
        """Execute stmts from each normal state; states with other flow pass through."""
        for stmt in stmts:
            nxt = []
            for st in states:
                if st.flow != "normal":
                    nxt.append(st)
                    continue
                self._abn = []
                try:
                    res = self.run_stmt(stmt, st)
                finally:
                    abn = self._abn
                    self._abn = []
                nxt += res + abn
            states = nxt
            if len(states) > MAX_PATHS:
                raise OutOfSubset(f"path explosion (> {MAX_PATHS}) at line {stmt.lineno}")
        return states

    def run_stmt(self, stmt, st):
        ghost_at = getattr(self.c, "ghost_at", None) if getattr(self, "_inline_depth", 0) == 0 else None
        if ghost_at:
            text = ast.unparse(stmt)
            for key, specs in ghost_at.items():
                if text.startswith(key):
                    self._ghost_used = getattr(self, "_ghost_used", set()) | {key}
                    for ga in specs:
                        for e, t in self.spec_conj([ga], st):
                            self.oblige(st, t, "lemma", f"ghost-assert@[{key[:30]}][{e[:50]}]", stmt.lineno)
                            st.assume(t)
        m = getattr(self, "st_" + type(stmt).__name__, None)
        if m is None:
            raise OutOfSubset(f"statement {type(stmt).__name__} at line {stmt.lineno}")
        return m(stmt, st)

    # ------------------------------------------------------------------ simple statements
    def st_Pass(self, stmt, st):
        return [st]

    def st_Expr(self, stmt, st):
        if isinstance(stmt.value, ast.Constant):
            return [st]  # docstring
        return [s for s, _ in self.ev(stmt.value, st)]

    def st_Import(self, stmt, st):
        """`import m` inside a function (an availability probe such as `try: import matplotlib`): the assumed contract 'import:m' says when it raises ImportError.
        The imported name itself must not be used by the function (it is not bound)."""
        states = [st]
        for a in stmt.names:
            c = self.reg.contracts.get("import:" + a.name)
            if c is None or c.params:
                raise OutOfSubset(f"import {a.name} at line {stmt.lineno} (no contract import:{a.name})")
            states = [s2 for s in states for s2, _ in self.reg.apply_contract(self, c, [], {}, s, stmt)]
        return states

    def st_Return(self, stmt, st):
        if stmt.value is None:
            st.flow, st.ret = "return", VNONE
            return [st]
        out = []
        for s, v in self.ev(stmt.value, st):
            s.flow, s.ret = "return", v
            out.append(s)
        return out

    def st_Continue(self, stmt, st):
        st.flow = "continue"
        return [st]

    def st_Break(self, stmt, st):
        st.flow = "break"
        return [st]

    def st_Raise(self, stmt, st):
        if stmt.exc is None:
            if "__handled_exc" in st.ghost:
                name, payload = st.ghost["__handled_exc"]
                self.do_raise(st, name, stmt.lineno, payload)
                return []
            raise OutOfSubset("bare raise outside handler")
        e = stmt.exc
        if isinstance(e, ast.Call) and isinstance(e.func, ast.Name):
            name = e.func.id
            payload = None
            if len(e.args) == 1:
                n_abn = len(self._abn)
                try:
                    r = self.ev(e.args[0], st)
                    if len(r) == 1 and len(self._abn) == n_abn:
                        st, payload = r[0]
                except UnknownName:
                    raise           # at run time this is a NameError, not the exception being constructed
                except OutOfSubset:
                    payload = None  # message text not modelled
            self.do_raise(st, name, stmt.lineno, payload)
            return []
        if isinstance(e, ast.Name):
            self.do_raise(st, e.id, stmt.lineno)
            return []
        raise OutOfSubset("raise of non-call expression")

    def st_Assert(self, stmt, st):
        out = []
        for s, v in self.ev(stmt.test, st):
            if self.c is not None and self.c.is_lemma:
                self.oblige(s, self.truth(v), "lemma", f"assert@{stmt.lineno}", stmt.lineno)
                s.assume(self.truth(v))
                out.append(s)
            else:
                s2 = s.fork()
                s2.assume(znot(self.truth(v)))
                if feasible(s2):
                    self.do_raise(s2, "AssertionError", stmt.lineno)
                s.assume(self.truth(v))
                out.append(s)
        return out

    def st_Assign(self, stmt, st):
        out = []
        if isinstance(stmt.value, ast.Name) and stmt.value.id in st.vars and not self.spec:
            v0 = st.vars[stmt.value.id]
            if v0.t[0] in ("set", "bag", "seq", "dict", "list", "obj") and all(isinstance(t, ast.Name) for t in stmt.targets):
                # two names for one mutable object: only sound if declared (value semantics would hide the sharing)
                ok = self.c.aliases_ok if self.c is not None else ()
                if stmt.targets[0].id not in ok:
                    raise OutOfSubset(f"aliasing of mutable '{stmt.value.id}' as '{stmt.targets[0].id}' at line {stmt.lineno} (declare aliases_ok with a justification)")
        for s, v in self.ev(stmt.value, st):
            for t in stmt.targets:
                self.assign(t, v, s, stmt)
            out.append(s)
        return out

    def st_AnnAssign(self, stmt, st):
        if stmt.value is None:
            return [st]
        out = []
        for s, v in self.ev(stmt.value, st):
            self.assign(stmt.target, v, s, stmt)
            out.append(s)
        return out

    def st_AugAssign(self, stmt, st):
        load = ast.BinOp(left=self._as_load(stmt.target), op=stmt.op, right=stmt.value)
        ast.copy_location(load, stmt)
        ast.fix_missing_locations(load)
        out = []
        for s, v in self.ev(load, st):
            self.assign(stmt.target, v, s, stmt)
            out.append(s)
        return out

    def _as_load(self, t):
        import copy
        t2 = copy.deepcopy(t)
        for n in ast.walk(t2):
            if hasattr(n, "ctx"):
                n.ctx = ast.Load()
        return t2

    def declared_type(self, name):
        if self.c is not None and name in self.c.locals:
            return self.c.locals[name]
        return None

    def assign(self, target, v: V, st, stmt):
        if isinstance(target, ast.Name):
            dt = self.declared_type(target.id)
            if dt is not None:
                try:
                    v = self.typed(v, dt)
                except TypeError as e:
                    raise ContractDrift(f"local {target.id} declared {dt} but assigned {v.t}: {e}")
            elif v.t[0] == "dict" and v.x is None:
                raise ContractDrift(f"dict local {target.id} needs a declared type (line {stmt.lineno})")
            st.vars[target.id] = deep_copy(v)
            return
        if isinstance(target, (ast.Tuple, ast.List)):
            if v.t[0] not in ("tuple", "list"):
                if v.t[0] in ("data",) or v.t[0] == "opaque":
                    raise OutOfSubset("unpacking opaque value")
                raise OutOfSubset(f"unpacking {v.t}")
            if len(v.x) != len(target.elts):
                raise OutOfSubset("unpack arity")
            for t, e in zip(target.elts, v.x):
                self.assign(t, e, st, stmt)
            return
        if isinstance(target, ast.Attribute):
            # path assignment into a mutable record reachable from a variable
            obj = self.lvalue_obj(target.value, st)
            if obj.t[0] != "obj":
                raise OutOfSubset(f"attribute store on {obj.t}")
            layout = vals_layout(obj.t[1])
            if target.attr in layout:
                v = self.typed(v, layout[target.attr])
            elif target.attr not in obj.x:
                dt = self.c.attrs.get(target.attr) if self.c else None
                if dt is None:
                    raise ContractDrift(f"attribute {target.attr} of {obj.t[1]} has no declared type")
                v = self.typed(v, dt)
            obj.x[target.attr] = deep_copy(v)
            return
        if isinstance(target, ast.Subscript):
            base = target.value
            if isinstance(base, ast.Subscript) and isinstance(base.value, ast.Name):
                # d[k1][k2] = v  (dict of dicts, e.g. a defaultdict(dict)):  inner = d[k1] (the default when missing); inner[k2] = v; d[k1] = inner
                outer = st.vars[base.value.id]
                if outer.t[0] != "dict" or outer.x is None or outer.t[2][0] != "dict":
                    raise OutOfSubset("nested subscript store on something else than a dict of dicts")
                k1 = self.ev1(base.slice, st)
                got = self.index(outer, k1, st, target)
                if len(got) != 1:
                    raise OutOfSubset("nested subscript store: inner lookup forks")
                key = self.ev1(target.slice, st)
                st.vars[base.value.id] = self.dict_store(outer, k1, self.dict_store(got[0][1], key, v))
                return
            if not isinstance(base, ast.Name):
                # e.g. self._modules_by_layer_name[k] = v
                holder = self.lvalue_obj(base.value, st) if isinstance(base, ast.Attribute) else None
                if holder is None or holder.t[0] != "obj":
                    raise OutOfSubset("subscript store on complex target")
                d = holder.x[base.attr]
                key = self.ev1(target.slice, st)
                holder.x[base.attr] = self.dict_store(d, key, v)
                return
            d = st.vars[base.id]
            key = self.ev1(target.slice, st)
            st.vars[base.id] = self.dict_store(d, key, v)
            return
        raise OutOfSubset(f"assignment target {type(target).__name__}")

    def dict_store(self, d: V, key: V, v: V) -> V:
        if d.t[0] != "dict" or d.x is None:
            raise ContractDrift("store into untyped dict (declare the local's type in the contract)")
        k = to_term(coerce(key, d.t[1]))
        val = to_term(self.typed(v, d.t[2]))
        return V(d.t, (z3.Store(d.x[0], k, TRUE), z3.Store(d.x[1], k, val)))

    def lvalue_obj(self, node, st) -> V:
        if isinstance(node, ast.Name):
            return st.vars[node.id]
        if isinstance(node, ast.Attribute):
            o = self.lvalue_obj(node.value, st)
            if o.t[0] != "obj":
                raise OutOfSubset("attribute path through non-object")
            return o.x[node.attr]
        raise OutOfSubset("complex lvalue")

    def typed(self, v: V, t) -> V:
        """View v at declared type t (empty literals get their element type here)."""
        t = parse_type(t)
        if v.t[0] == "dict" and v.x is None:
            if t[0] != "dict":
                raise TypeError("dict literal for non-dict")
            return V(t, (z3.K(sort_of(t[1]), FALSE), z3.Const(fresh_name("dval"), z3.ArraySort(sort_of(t[1]), sort_of(t[2])))))
        if v.t[0] == "list" and not v.x and t == ("str",):
            return vstr("")   # a list of string pieces that is only appended to and joined with "": modelled by its concatenation
        if v.t[0] == "emptyset":
            if t[0] not in ("set", "bag"):
                raise TypeError("empty set literal for non-set")
            return V(t, z3.K(sort_of(t[1]), FALSE))
        return coerce(v, t)

    # ------------------------------------------------------------------ with (resource managers whose __exit__ does not swallow exceptions: open())
    def st_With(self, stmt, st):
        states = [st]
        for item in stmt.items:
            nxt = []
            for s in states:
                for s2, v in self.ev(item.context_expr, s):
                    if v.t != ("opaque", "File"):
                        raise OutOfSubset(f"with-statement over {v.t}: only open(...) is modelled")
                    if item.optional_vars is not None:
                        self.assign(item.optional_vars, v, s2, stmt)
                    nxt.append(s2)
            states = nxt
        return self.run_block(stmt.body, states)

    # ------------------------------------------------------------------ if
    def st_If(self, stmt, st):
        out = []
        for s, c in self.ev(stmt.test, st):
            cb = self.truth(c)
            s_else = s.fork()
            s.assume(cb)
            s.trace.append(f"L{stmt.lineno}:T")
            s_else.assume(znot(cb))
            s_else.trace.append(f"L{stmt.lineno}:F")
            if feasible(s):
                out += self.run_block(stmt.body, [s])
            if feasible(s_else):
                out += self.run_block(stmt.orelse, [s_else]) if stmt.orelse else [s_else]
        return out

    # ------------------------------------------------------------------ try
    def st_Try(self, stmt, st):
        if stmt.finalbody:
            raise OutOfSubset("try/finally")
        states = self.run_block(stmt.body, [st])
        out = []
        for s in states:
            if s.flow != "raise":
                if stmt.orelse and s.flow == "normal":
                    out += self.run_block(stmt.orelse, [s])
                else:
                    out.append(s)
                continue
            handled = False
            for h in stmt.handlers:
                names = self._handler_names(h)
                if names is None or any(self.reg.exc_is_subclass(s.exc[0], n) for n in names):
                    s.flow = "normal"
                    exc = s.exc
                    s.exc = None
                    s.ghost["__handled_exc"] = exc
                    if h.name:
                        s.vars[h.name] = V(("exc", exc[0]), exc[1] if exc[1] is not None else fresh("Str", "excmsg"))
                    s.trace.append(f"except {exc[0]}@{h.lineno}")
                    out += self.run_block(h.body, [s])
                    handled = True
                    break
            if not handled:
                out.append(s)
        return out

    def _handler_names(self, h):
        if h.type is None:
            return None
        if isinstance(h.type, ast.Name):
            return [h.type.id]
        if isinstance(h.type, ast.Tuple):
            return [e.id for e in h.type.elts]
        raise OutOfSubset("handler type")

    # ------------------------------------------------------------------ loops
    def loop_ordinal(self, stmt):
        """Static ordinal of a loop statement within its function (source order)."""
        fn = self.fn
        cache = getattr(self, "_loop_ids", None)
        if cache is None or cache[0] is not fn:
            loops = [n for n in ast.walk(fn) if isinstance(n, (ast.For, ast.While))]
            loops.sort(key=lambda n: (n.lineno, n.col_offset))
            cache = (fn, {id(n): i for i, n in enumerate(loops)})
            self._loop_ids = cache
        return cache[1][id(stmt)]

    def loop_contract(self, stmt):
        k = self.loop_ordinal(stmt)
        header = ("while " + ast.unparse(stmt.test)) if isinstance(stmt, ast.While) else \
                 ("for " + ast.unparse(stmt.target) + " in " + ast.unparse(stmt.iter))
        lc = self.c.loops.get(k) if self.c else None
        if lc is None:
            return k, header, None
        if lc.get("sig") and lc["sig"] != header:
            raise ContractDrift(f"loop {k} of {self.name}: contract is for '{lc['sig']}', source has '{header}'")
        return k, header, lc

    def spec_conj(self, exprs, st, extra_bound=None, entry=None):
        """Evaluate a list of specification expressions (strings) in state st -> z3 Bool."""
        saved_spec, saved_bound = self.spec, dict(self.bound)
        saved_entry = getattr(self, "_entry_vars", None)
        if entry is not None:
            self._entry_vars = entry
        self.spec = True
        if extra_bound:
            self.bound.update(extra_bound)
        try:
            terms = []
            for e in exprs:
                tree = self.reg.parse_spec(e)
                v = self.ev1(tree, st)
                t = self.truth(v)
                if z3.is_and(t) and t.num_args() > 1:
                    # one obligation per conjunct: smaller, more stable queries
                    for i, ch in enumerate(t.children()):
                        terms.append((f"{e[:44]}~{i}", ch))
                else:
                    terms.append((e, t))
            return terms
        finally:
            self.spec, self.bound = saved_spec, saved_bound
            self._entry_vars = saved_entry

    def havoc(self, st, names):
        for n in sorted(names):
            if n in st.vars:
                v = st.vars[n]
                try:
                    st.vars[n] = self.havoc_value(v, n)
                except TypeError as e:
                    raise OutOfSubset(f"cannot havoc {n}: {e}")

    def havoc_value(self, v, n):
        if v.t[0] == "list":
            dt = self.declared_type(n)
            if dt is None:
                raise TypeError("concrete list modified in loop needs a declared Bag/Seq type")
            return fresh(dt, n)
        if v.t[0] == "closure":
            raise TypeError("closure")
        if v.t[0] == "obj":
            return V(v.t, {f: self.havoc_value(x, f) for f, x in v.x.items()})
        return fresh(v.t, n)

    def st_While(self, stmt, st):
        if stmt.orelse:
            raise OutOfSubset("while/else")
        k, header, lc = self.loop_contract(stmt)
        if lc is None:
            raise ContractDrift(f"loop {k} ('{header}') of {self.name} has no invariant")
        mods = assigned_names(stmt.body)
        entry = {k_: deep_copy(v_) for k_, v_ in st.vars.items()}
        # 1. invariant holds on entry
        for e, t in self.spec_conj(lc["invariant"], st, None, entry):
            self.oblige(st, t, "inv.init", f"loop{k}.inv.init[{e[:50]}]", stmt.lineno)
        # 2. arbitrary iteration
        it = st.fork()
        self.havoc(it, mods)
        for e, t in self.spec_conj(lc["invariant"], it, None, entry):
            it.assume(t)
        ex = it.fork()
        guard_it = self.truth(self.ev1(stmt.test, it))
        it.assume(guard_it)
        it.trace.append(f"loop{k}:iter")
        out = []
        if feasible(it):
            self.cover(it, f"loop{k}.body", stmt.lineno)
            for s in self.run_block(stmt.body, [it]):
                if s.flow in ("normal", "continue"):
                    s.flow = "normal"
                    for e, t in self.spec_conj(lc["invariant"], s, None, entry):
                        self.oblige(s, t, "inv.preserve", f"loop{k}.inv.preserve[{e[:50]}]", stmt.lineno)
                elif s.flow == "break":
                    s.flow = "normal"   # leaves the loop from inside an arbitrary iteration: continues after it
                    s.trace.append(f"loop{k}:break")
                    out.append(s)
                else:
                    out.append(s)  # return / raise from inside the loop
        # 3. exit
        guard_ex = self.truth(self.ev1(stmt.test, ex))
        ex.assume(znot(guard_ex))
        ex.trace.append(f"loop{k}:exit")
        self.apply_use(lc.get("use_at_exit", []), ex)
        out.append(ex)
        return out

    def st_For(self, stmt, st):
        if stmt.orelse:
            raise OutOfSubset("for/else")
        out = []
        adj = self._zip_adjacent(stmt.iter, st)
        if adj is not None:
            for s, xs in self.ev(ast.copy_location(ast.Name(id=adj, ctx=ast.Load()), stmt.iter), st):
                if xs.t[0] == "seq":
                    out += self.for_over_adjacent(stmt, s, xs, adj)
                else:
                    for s2, coll in self.ev(stmt.iter, s):
                        out += self.for_over(stmt, s2, coll)
            return out
        for s, coll in self.ev(stmt.iter, st):
            out += self.for_over(stmt, s, coll)
        return out

    def _zip_adjacent(self, it, st):
        """`zip(xs[:-1], xs[1:])` over ONE plain name xs -> 'xs'; every other zip -> None (b_zip then refuses symbolic sequences)."""
        if not (isinstance(it, ast.Call) and isinstance(it.func, ast.Name) and it.func.id == "zip" and "zip" not in st.vars
                and len(it.args) == 2 and not it.keywords):
            return None
        a, b = it.args
        for x in (a, b):
            if not (isinstance(x, ast.Subscript) and isinstance(x.value, ast.Name) and isinstance(x.slice, ast.Slice) and x.slice.step is None):
                return None
        if a.value.id != b.value.id:
            return None
        ua, lb = a.slice.upper, b.slice.lower
        if not (a.slice.lower is None and isinstance(ua, ast.UnaryOp) and isinstance(ua.op, ast.USub) and isinstance(ua.operand, ast.Constant)
                and type(ua.operand.value) is int and ua.operand.value == 1):
            return None
        if not (b.slice.upper is None and isinstance(lb, ast.Constant) and type(lb.value) is int and lb.value == 1):
            return None
        return a.value.id

    def for_over_adjacent(self, stmt, st, xs, xsname):
        """for a, b in zip(xs[:-1], xs[1:]) over a Seq xs: the pairs (xs[i], xs[i+1]) for i = 0 .. len(xs)-2, IN ORDER. The invariant may
        mention the ghost 'idx' = number of pairs already processed (0 on entry, max(len(xs)-1, 0) on exit)."""
        k, header, lc = self.loop_contract(stmt)
        if lc is None:
            raise ContractDrift(f"loop {k} ('{header}') of {self.name} has no invariant")
        mods = assigned_names(stmt.body)
        if xsname in mods or xsname in self._target_names(stmt.target):
            raise OutOfSubset("sequence modified while its adjacent pairs are iterated")
        et = xs.t[1]
        ln = z3.Length(xs.x)
        n = z3.If(ln >= 1, ln - 1, z3.IntVal(0))
        entry = {k_: deep_copy(v_) for k_, v_ in st.vars.items()}
        for e, t in self.spec_conj(lc["invariant"], st, {"idx": vint(0)}, entry):
            self.oblige(st, t, "inv.init", f"loop{k}.inv.init[{e[:50]}]", stmt.lineno)
        it = st.fork()
        self.havoc(it, (mods | self._target_names(stmt.target)) - {xsname})
        idx = z3.Int(fresh_name("idx"))
        ex = it.fork()
        it.assume(z3.And(idx >= 0, idx < n))
        for e, t in self.spec_conj(lc["invariant"], it, {"idx": vint(idx)}, entry):
            it.assume(t)
        pair = V(("tuple", (et, et)), (from_term(et, xs.x[idx]), from_term(et, xs.x[idx + 1])))
        self.assign(stmt.target, pair, it, stmt)
        it.trace.append(f"loop{k}:iter")
        out = []
        if feasible(it):
            self.cover(it, f"loop{k}.body", stmt.lineno)
            for s in self.run_block(stmt.body, [it]):
                if s.flow in ("normal", "continue"):
                    s.flow = "normal"
                    for e, t in self.spec_conj(lc["invariant"], s, {"idx": vint(idx + 1)}, entry):
                        self.oblige(s, t, "inv.preserve", f"loop{k}.inv.preserve[{e[:50]}]", stmt.lineno)
                elif s.flow == "break":
                    s.flow = "normal"
                    out.append(s)
                else:
                    out.append(s)
        for e, t in self.spec_conj(lc["invariant"], ex, {"idx": vint(n)}, entry):
            ex.assume(t)
        ex.trace.append(f"loop{k}:exit")
        self.apply_use(lc.get("use_at_exit", []), ex)
        out.append(ex)
        return out

    def for_over(self, stmt, st, coll: V):
        if coll.t[0] in ("list", "tuple"):
            # concrete length: unroll (no contract needed)
            states = [st]
            for e in coll.x:
                nxt = []
                for s in states:
                    if s.flow != "normal":
                        nxt.append(s)
                        continue
                    self.assign(stmt.target, e, s, stmt)
                    for s2 in self.run_block(stmt.body, [s]):
                        if s2.flow == "continue":
                            s2.flow = "normal"
                        nxt.append(s2)
                states = nxt
            for s in states:
                if s.flow == "break":
                    s.flow = "normal"
            return states
        k, header, lc = self.loop_contract(stmt)
        if lc is None:
            raise ContractDrift(f"loop {k} ('{header}') of {self.name} has no invariant")
        if coll.t[0] == "str":
            return self.for_over_string(stmt, st, coll, k, lc)
        if coll.t[0] == "dict":
            coll = V(("bag", coll.t[1]), coll.x[0])
        if coll.t[0] == "opt":
            s_none = st.fork()
            s_none.assume(coll.x[0])
            if feasible(s_none):
                self.do_raise(s_none, "TypeError", stmt.lineno)
            st.assume(znot(coll.x[0]))
            coll = coll.x[1]
        if coll.t[0] == "seq" and lc.get("ordered"):
            return self.for_over_seq_ordered(stmt, st, coll, k, lc)
        if coll.t[0] == "seq":
            coll = coerce(coll, ("bag", coll.t[1]))
        if coll.t[0] not in ("set", "bag"):
            raise OutOfSubset(f"for over {coll.t}")
        et = coll.t[1]
        if et[0] == "obj":
            raise OutOfSubset("for over a collection of record snapshots (mutation through the loop variable would be lost)")
        mods = assigned_names(stmt.body)
        itername = ast.unparse(stmt.iter)
        if isinstance(stmt.iter, ast.Name) and stmt.iter.id in mods:
            raise OutOfSubset("collection modified while iterated")
        seen_t = ("set", et)
        empty = V(seen_t, z3.K(sort_of(et), FALSE))
        ghost = {"seen": empty}
        entry = {k_: deep_copy(v_) for k_, v_ in st.vars.items()}
        for e, t in self.spec_conj(lc["invariant"], st, ghost, entry):
            self.oblige(st, t, "inv.init", f"loop{k}.inv.init[{e[:50]}]", stmt.lineno)
        it = st.fork()
        self.havoc(it, mods - self._target_names(stmt.target))
        seen = fresh(seen_t, f"seen{k}")
        x = z3.Const(fresh_name("e"), sort_of(et))
        it.assume(z3.ForAll([x], z3.Implies(z3.Select(seen.x, x), z3.Select(coll.x, x))))
        ex = it.fork()
        for e, t in self.spec_conj(lc["invariant"], it, {"seen": seen}, entry):
            it.assume(t)
        cur = fresh(et, "cur")
        it.assume(z3.Select(coll.x, to_term(cur)))
        self.assign(stmt.target, cur, it, stmt)
        it.trace.append(f"loop{k}:iter")
        out = []
        seen2 = V(seen_t, z3.Store(seen.x, to_term(cur), TRUE))
        if feasible(it):
            self.cover(it, f"loop{k}.body", stmt.lineno)
            for s in self.run_block(stmt.body, [it]):
                if s.flow in ("normal", "continue"):
                    s.flow = "normal"
                    for e, t in self.spec_conj(lc["invariant"], s, {"seen": seen2}, entry):
                        self.oblige(s, t, "inv.preserve", f"loop{k}.inv.preserve[{e[:50]}]", stmt.lineno)
                elif s.flow == "break":
                    s.flow = "normal"   # leaves the loop from inside an arbitrary iteration: continues after it
                    s.trace.append(f"loop{k}:break")
                    out.append(s)
                else:
                    out.append(s)
        # exit: everything seen
        allseen = V(seen_t, coll.x)
        for e, t in self.spec_conj(lc["invariant"], ex, {"seen": allseen}, entry):
            ex.assume(t)
        ex.trace.append(f"loop{k}:exit")
        self.apply_use(lc.get("use_at_exit", []), ex)
        # after the loop the target still holds the LAST element -- some element of the collection (any order) -- and is unbound if the loop never ran
        tnames = self._target_names(stmt.target)
        if tnames and not any(n in ex.vars for n in tnames):
            last = fresh(et, "last")
            y = z3.Const(fresh_name("e"), sort_of(et))
            empty_c = z3.Not(z3.Exists([y], z3.Select(coll.x, y)))
            ex.assume(z3.Or(empty_c, z3.Select(coll.x, to_term(last))))
            self.assign(stmt.target, last, ex, stmt)
            for n in tnames:
                ex.ghost[("unbound", n)] = empty_c
        out.append(ex)
        return out

    def for_over_seq_ordered(self, stmt, st, xs, k, lc):
        """for x in <Seq> with a loop contract marked ordered=True: the elements xs[0], xs[1], ... IN ORDER. The invariant may mention the ghost
        'idx' = number of elements already processed (0 on entry, len(xs) on exit); an arbitrary iteration processes xs[idx]."""
        mods = assigned_names(stmt.body)
        if isinstance(stmt.iter, ast.Name) and (stmt.iter.id in mods or stmt.iter.id in self._target_names(stmt.target)):
            raise OutOfSubset("sequence modified while iterated")
        et = xs.t[1]
        n = z3.Length(xs.x)
        entry = {k_: deep_copy(v_) for k_, v_ in st.vars.items()}
        for e, t in self.spec_conj(lc["invariant"], st, {"idx": vint(0)}, entry):
            self.oblige(st, t, "inv.init", f"loop{k}.inv.init[{e[:50]}]", stmt.lineno)
        it = st.fork()
        self.havoc(it, mods | self._target_names(stmt.target))
        idx = z3.Int(fresh_name("idx"))
        ex = it.fork()
        it.assume(z3.And(idx >= 0, idx < n))
        for e, t in self.spec_conj(lc["invariant"], it, {"idx": vint(idx)}, entry):
            it.assume(t)
        self.assign(stmt.target, from_term(et, xs.x[idx]), it, stmt)
        it.trace.append(f"loop{k}:iter")
        out = []
        if feasible(it):
            self.cover(it, f"loop{k}.body", stmt.lineno)
            for s in self.run_block(stmt.body, [it]):
                if s.flow in ("normal", "continue"):
                    s.flow = "normal"
                    for e, t in self.spec_conj(lc["invariant"], s, {"idx": vint(idx + 1)}, entry):
                        self.oblige(s, t, "inv.preserve", f"loop{k}.inv.preserve[{e[:50]}]", stmt.lineno)
                elif s.flow == "break":
                    s.flow = "normal"
                    out.append(s)
                else:
                    out.append(s)
        for e, t in self.spec_conj(lc["invariant"], ex, {"idx": vint(n)}, entry):
            ex.assume(t)
        ex.trace.append(f"loop{k}:exit")
        self.apply_use(lc.get("use_at_exit", []), ex)
        out.append(ex)
        return out

    def for_over_string(self, stmt, st, coll, k, lc):
        """for ch in <str>: characters in order. The invariant may mention the ghost 'idx' = number of characters already
        processed (0 on entry, len on exit); an arbitrary iteration processes coll[idx]."""
        mods = assigned_names(stmt.body)
        n = z3.Length(coll.x)
        entry = {k_: deep_copy(v_) for k_, v_ in st.vars.items()}
        for e, t in self.spec_conj(lc["invariant"], st, {"idx": vint(0)}, entry):
            self.oblige(st, t, "inv.init", f"loop{k}.inv.init[{e[:50]}]", stmt.lineno)
        it = st.fork()
        self.havoc(it, mods - self._target_names(stmt.target))
        idx = z3.Int(fresh_name("idx"))
        ex = it.fork()
        it.assume(z3.And(idx >= 0, idx < n))
        for e, t in self.spec_conj(lc["invariant"], it, {"idx": vint(idx)}, entry):
            it.assume(t)
        self.assign(stmt.target, vstr(z3.SubString(coll.x, idx, 1)), it, stmt)
        it.trace.append(f"loop{k}:iter")
        out = []
        if feasible(it):
            self.cover(it, f"loop{k}.body", stmt.lineno)
            for s in self.run_block(stmt.body, [it]):
                if s.flow in ("normal", "continue"):
                    s.flow = "normal"
                    for e, t in self.spec_conj(lc["invariant"], s, {"idx": vint(idx + 1)}, entry):
                        self.oblige(s, t, "inv.preserve", f"loop{k}.inv.preserve[{e[:50]}]", stmt.lineno)
                elif s.flow == "break":
                    s.flow = "normal"
                    out.append(s)
                else:
                    out.append(s)
        for e, t in self.spec_conj(lc["invariant"], ex, {"idx": vint(n)}, entry):
            ex.assume(t)
        ex.trace.append(f"loop{k}:exit")
        self.apply_use(lc.get("use_at_exit", []), ex)
        out.append(ex)
        return out

    def _target_names(self, t):
        if isinstance(t, ast.Name):
            return {t.id}
        if isinstance(t, (ast.Tuple, ast.List)):
            r = set()
            for e in t.elts:
                r |= self._target_names(e)
            return r
        return set()

    def apply_use(self, uses, st):
        """Instances of trusted axiom schemas (each one a true statement about the spec functions)."""
        for u in uses:
            tree = self.reg.parse_spec(u)
            if isinstance(tree, ast.Call) and isinstance(tree.func, ast.Name) and tree.func.id in self.reg.lemmas:
                self.use_lemma(self.reg.lemmas[tree.func.id], tree, st)
                continue
            if not (isinstance(tree, ast.Call) and isinstance(tree.func, ast.Name) and tree.func.id in self.reg.schemas):
                raise ContractDrift(f"'use' must name an axiom schema or a lemma: {u}")
            saved = self.spec
            self.spec = True
            try:
                v = self.ev1(tree, st)
            except UnknownName:
                continue   # the instance speaks about a local of another path: nothing is assumed on this one
            finally:
                self.spec = saved
            st.assume(self.truth(v))
            self.assumed.append(u)

    def use_lemma(self, lem, tree, st):
        """Assume an instance (requires => ensures) of a lemma that is proved separately as its own obligations."""
        saved = self.spec
        self.spec = True
        try:
            args = [self.ev1(a, st) for a in tree.args]
        finally:
            self.spec = saved
        if len(args) != len(lem.params):
            raise ContractDrift(f"lemma {lem.key}: arity")
        ls = State()
        ls.pc = st.pc
        for (n, t), a in zip(lem.params.items(), args):
            ls.vars[n] = self.typed(a, t)
        ls.old = dict(ls.vars)
        hyp = zand(*[t for _, t in self.spec_conj(lem.requires, ls)])
        concl = zand(*[t for _, t in self.spec_conj(lem.ensures, ls)])
        st.assume(z3.Implies(hyp, concl))
        self.used_lemmas = getattr(self, "used_lemmas", []) + [lem.key]
        self.callees.add(lem.key)

    # ------------------------------------------------------------------ function level
    def case_valuations(self):
        import itertools
        paths = self.c.cases
        if not paths:
            return [()]
        return list(itertools.product([True, False], repeat=len(paths)))

    def apply_case(self, st, valuation):
        """Fix Boolean parameter fields to constants: the formulas of each case then simplify syntactically."""
        label = []
        for path, val in zip(self.c.cases, valuation):
            parts = path.split(".")
            v = st.vars[parts[0]]
            holder, key = None, None
            for a in parts[1:]:
                holder, key = v, a
                v = v.x[a]
            newv = vbool(val)
            if v.t[0] == "opt":
                newv = V(v.t, (v.x[0], vbool(val)))
            elif v.t[0] != "bool":
                raise ContractDrift(f"case path {path} is not Boolean")
            if holder is None:
                st.vars[parts[0]] = newv
            else:
                holder.x[key] = newv
            label.append(f"{parts[-1]}={'T' if val else 'F'}")
        return ",".join(label)

    def check_defaults(self):
        """Default values of the real signature are part of the behaviour callers see: the contract's `defaults` must state the same expressions."""
        a = self.fn.args
        pos = a.posonlyargs + a.args
        for arg, d in list(zip(pos[len(pos) - len(a.defaults):], a.defaults)) + [(k, d) for k, d in zip(a.kwonlyargs, a.kw_defaults) if d is not None]:
            if arg.arg in self.c.params:
                want = self.c.defaults.get(arg.arg)
                if want is None:
                    continue   # the contract does not allow omitting this argument: every call site passes it explicitly (checked at binding)
                if ast.unparse(ast.parse(want, mode="eval").body) != ast.unparse(d):
                    raise ContractDrift(f"{self.name}: default of parameter {arg.arg} is {ast.unparse(d)} in the source, {want} in the contract")

    def verify(self):
        self.check_defaults()
        all_obls = []
        self.n_paths = self.n_normal = 0
        base_name = self.name
        for valuation in self.case_valuations():
            self.obls = []
            self._verify_case(valuation, base_name)
            all_obls += self.obls
        self.name = base_name
        self.obls = all_obls
        return all_obls

    def _verify_case(self, valuation, base_name):
        c = self.c
        st = State()
        for name, t in c.params.items():
            st.vars[name] = fresh(t, name)
        label = self.apply_case(st, valuation)
        self.name = base_name + (f"/case[{label}]" if label else "")
        for e in c.param_axioms(self, st):
            st.assume(e)
        st.old = {k: deep_copy(v) for k, v in st.vars.items()}
        for e, t in self.spec_conj(c.requires, st):
            st.assume(t)
        self.apply_use(c.use_at_start, st)
        self.cover(st, "requires", self.fn.lineno)
        finals = self.run_block(self.fn.body, [st])
        # a parameter NAME that the body rebinds (p = ...) no longer denotes the caller's object: in the postcondition and
        # the frame the name refers to the entry value (rebinding is not a mutation of the argument)
        rebound = {t.id for n in ast.walk(self.fn) if isinstance(n, (ast.Assign, ast.AugAssign, ast.AnnAssign))
                   for t in (n.targets if isinstance(n, ast.Assign) else [n.target]) if isinstance(t, ast.Name)} & set(c.params)
        # ... likewise a parameter name used as a loop target (for parent, child in ...: `child` is a parameter of _add_edges_within_module_hierarchy)
        rebound |= {nm for n in ast.walk(self.fn) if isinstance(n, ast.For) for nm in self._target_names(n.target)} & set(c.params)
        n_norm = 0
        for i, s in enumerate(finals):
            for p_ in rebound:
                if p_ in s.old:
                    s.vars[p_] = s.old[p_]
            if s.flow in ("normal", "return"):
                n_norm += 1
                self.apply_use(c.use_at_end, s)
                self.result = s.ret if s.flow == "return" else VNONE
                if c.returns is not None:
                    try:
                        self.result = self.typed(self.result, c.returns)
                    except TypeError as e:
                        raise ContractDrift(f"{self.name}: returns {self.result.t}, contract says {c.returns}: {e}")
                if c.returns_nodup and not (self.result.t[0] in ("bag", "set") and self.result.x.get_id() in self.nodup):
                    raise ContractDrift(f"{self.name}: the contract promises a duplicate-free list, which the engine can only establish for a comprehension over a dict's keys / a set")
                for ga in c.ghost_asserts:
                    names = {n.id for n in ast.walk(self.reg.parse_spec(ga)) if isinstance(n, ast.Name)}
                    free = {n for n in names if n not in s.vars and n not in self.reg.specfuns and n not in self.reg.macros and n not in self.reg.defined
                            and n not in ("forall", "exists", "implies", "result", "len", "old", "Str", "Int", "Bool", "Node", "True", "False", "None") and not n[:1].isupper()}
                    lam_bound = {a.arg for n in ast.walk(self.reg.parse_spec(ga)) if isinstance(n, ast.Lambda) for a in n.args.args}
                    if free - lam_bound:
                        continue   # a local of another path
                    for e, t in self.spec_conj([ga], s):
                        self.oblige(s, t, "lemma", f"ghost-assert[{e[:50]}]/path{i}", self.fn.lineno)
                        s.assume(t)
                # normal return only when no 'raises' condition holds
                for exc, cond in c.raises:
                    t = zand(*[t_ for _, t_ in self.spec_conj([cond], self._with_old(s), None)])
                    self.oblige(s, znot(t), "raises", f"post.no-normal-return-when[{exc}:{cond[:40]}]/path{i}", self.fn.lineno)
                for e, t in self.spec_conj(c.ensures, s):
                    self.oblige(s, t, "post", f"post[{e[:60]}]/path{i}", self.fn.lineno)
                self.frame_obligations(s, i)
                if c.defn is not None:
                    saved = self.spec
                    self.spec = True
                    try:
                        dv = self.ev1(self.reg.parse_spec(c.defn), self._with_old(s))
                    finally:
                        self.spec = saved
                    self.oblige(s, self.eq(self.result, self.typed(dv, c.returns) if c.returns else dv), "post",
                                f"post[result == {c.defn[:50]}]/path{i}", self.fn.lineno)
            elif s.flow == "raise":
                exc = s.exc[0]
                allowed = [cond for (e, cond) in c.raises if self.reg.exc_is_subclass(exc, e)]
                if not allowed:
                    self.oblige(s, FALSE, "raises", f"raises.unexpected[{exc}]/path{i}", self.fn.lineno,
                                note=" & ".join(s.trace[-8:]))
                else:
                    # one disjunct per allowed clause; a clause that is a conjunction stays ONE formula (spec_conj splits conjunctions)
                    ts = [zand(*[t for _, t in self.spec_conj([cond], self._with_old(s))]) for cond in allowed]
                    self.oblige(s, zor(*ts), "raises", f"raises.only-when[{exc}]/path{i}", self.fn.lineno)
                self.frame_obligations(s, i)
                for e, t in self.spec_conj(c.ensures_on_raise, s):
                    self.oblige(s, t, "post", f"post.raise[{e[:60]}]/path{i}", self.fn.lineno)
            else:
                raise OutOfSubset(f"stray flow {s.flow}")
        self.n_paths += len(finals)
        self.n_normal += n_norm
        return self.obls

    def frame_obligations(self, s, i):
        """Parameters of mutable type that the contract does not list under 'modifies' must be unchanged."""
        for p, t in self.c.params.items():
            if p in self.c.modifies or t[0] not in ("obj", "set", "bag", "seq", "dict"):
                continue
            if p not in s.vars:
                continue
            self.oblige(s, self.eq(s.vars[p], s.old[p]), "frame", f"frame[{p} unchanged]/path{i}", self.fn.lineno)

    def _with_old(self, s):
        """raises-conditions are evaluated over the entry values of the parameters."""
        s2 = s.fork()
        for k, v in s.old.items():
            s2.vars[k] = v
        s2.pc = s.pc
        return s2


def vals_layout(cls):
    from .vals import OBJ_LAYOUT
    return OBJ_LAYOUT.get(cls, {})
