"""Verify functions against their contracts; collect obligations and results."""
from __future__ import annotations

import time
import traceback

from . import extract
from .stmts import Exec
from .state import OutOfSubset, ContractDrift
from .solve import discharge


def load_contracts():
    import importlib
    import contracts  # noqa
    return contracts.REG


def generate(reg, key):
    """-> (obligations, info) for one contract key; raises OutOfSubset / ContractDrift."""
    c = reg.contracts[key]
    mod = extract.module(c.module)
    fn = mod.function(c.qualname)
    if fn is None:
        raise ContractDrift(f"{c.key}: function {c.qualname} not found in {c.module}")
    sfn = extract.strip(fn)
    cls = c.qualname.split(".")[0] if "." in c.qualname else None
    eng = Exec(reg, c, sfn, mod, cls)
    obls = eng.verify()
    info = dict(key=key, module=c.module, qualname=c.qualname, hash=extract.fn_hash(fn), paths=eng.n_paths,
                normal_paths=eng.n_normal, inlined=sorted(set(eng.inlined)), used_schemas=sorted(set(eng.assumed)),
                lineno=fn.lineno)
    return obls, info
