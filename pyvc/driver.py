"""Verify functions against their contracts; collect obligations and results."""
from __future__ import annotations

import time
import traceback

from . import extract
from .stmts import Exec
from .state import OutOfSubset, ContractDrift
from .solve import discharge


def load_contracts():
    import importlib
    import contracts  # noqa
    return contracts.REG


def generate(reg, key):
    """-> (obligations, info) for one contract key; raises OutOfSubset / ContractDrift."""
    # the numbering of fresh symbols restarts per key: the SMT-LIB text of a key's obligations then does not depend on which other keys
    # the same worker process generated before (solver behaviour is sensitive to symbol names/order, verdicts must not depend on scheduling)
    import itertools
    from . import vals
    vals._counter = itertools.count()
    c = reg.contracts[key]
    if c.is_lemma:
        return generate_lemma(reg, c)
    mod = extract.module(c.module)
    fn = mod.function(c.qualname)
    if fn is None:
        raise ContractDrift(f"{c.key}: function {c.qualname} not found in {c.module}")
    sfn = extract.strip(fn)
    cls = c.qualname.split(".")[0] if "." in c.qualname else None
    eng = Exec(reg, c, sfn, mod, cls)
    obls = eng.verify()
    info = dict(key=key, module=c.module, qualname=c.qualname, hash=extract.fn_hash(fn), paths=eng.n_paths,
                normal_paths=eng.n_normal, inlined=sorted(set(eng.inlined)), used_schemas=sorted(set(eng.assumed)),
                lineno=fn.lineno, callees=sorted(eng.callees))
    return obls, info


def generate_lemma(reg, c):
    """A lemma is a closed statement over the specification vocabulary: for all parameters, requires => ensures."""
    from .state import State
    from .vals import fresh
    eng = Exec(reg, c, None, None, None)
    all_obls = []
    for valuation in eng.case_valuations():
        eng.obls = []
        st = State()
        for name, t in c.params.items():
            st.vars[name] = fresh(t, name)
        label = eng.apply_case(st, valuation)
        eng.name = c.key + (f"/case[{label}]" if label else "")
        st.old = dict(st.vars)
        for e, t in eng.spec_conj(c.requires, st):
            st.assume(t)
        eng.apply_use(c.use_at_start, st)
        eng.cover(st, "hypotheses", 0)
        for e, t in eng.spec_conj(c.ensures, st):
            eng.oblige(st, t, "lemma", f"lemma[{e[:60]}]", 0)
        all_obls += eng.obls
    eng.obls = all_obls
    info = dict(key=c.key, module=None, qualname=c.key, hash="lemma", paths=1, normal_paths=1, inlined=[],
                used_schemas=sorted(set(eng.assumed)) + sorted(set(getattr(eng, "used_lemmas", []))), lineno=0,
                callees=sorted(eng.callees))
    return eng.obls, info
