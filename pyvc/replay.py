"""Replay of refuted obligations against the real code.

A replay file names the obligation, carries the solver's verdicts and model, and -- where a native replayer is
registered for the function -- the concrete input built from the model together with what the real code did."""
from __future__ import annotations

import json
import os
import sys

ROOT = os.path.dirname(os.path.dirname(os.path.abspath(__file__)))


def make_replay(pid, result, job, reg):
    rep = dict(property=pid, obligation=result["name"], kind=result.get("kind"), function=result.get("fn"),
               source_line=result.get("lineno"), path=result.get("note"), backends=result["backends"],
               scope=result.get("scope"), solver_model=(result.get("model") or "")[:20000])
    try:
        from contracts import replayers
        native = replayers.try_native(pid, result, job, reg)
        if native is not None:
            rep["native"] = native
    except Exception as e:  # a failing replayer must never turn into a violation or hide one
        rep["native_error"] = f"{type(e).__name__}: {e}"
    if "native" not in rep:
        rep["native"] = dict(confirmed=False, reason="no-failing-input-found: no native replayer produced a failing input; "
                             "the obligation was discharged on the unchanged tree and is refuted now (solver output attached)")
    return rep


def run(path):
    p = path if os.path.isabs(path) else os.path.join(ROOT, path)
    with open(p) as f:
        rep = json.load(f)
    print(f"replay of {rep.get('obligation') or rep.get('check')} (property {rep.get('property')})")
    if rep.get("kind") == "bounded" or rep.get("native", {}).get("input") is not None:
        from contracts import replayers
        ok, text = replayers.rerun(rep)
        print(text)
        return 1 if not ok else 0
    print(json.dumps(rep.get("backends"), indent=1))
    print("no native input recorded: no-failing-input-found")
    return 1
