"""Mechanical extraction of the functions under contract from the *current* source tree.

Nothing is copied by hand: every run re-reads /repo/src and hands the FunctionDef nodes to the VC generator.
Dropped by the extraction: docstrings, type annotations, comments, decorators (modelled by the contract's
'kind': property / classmethod / staticmethod / deprecated / singledispatch).
"""
from __future__ import annotations

import ast
import hashlib
import os

REPO_SRC = os.environ.get("PYVC_REPO_SRC", "/repo/src")


class ModuleCtx:
    def __init__(self, modname):
        self.modname = modname
        self.path = os.path.join(REPO_SRC, *modname.split(".")) + ".py"
        if not os.path.exists(self.path):
            self.path = os.path.join(REPO_SRC, *modname.split("."), "__init__.py")
        with open(self.path) as f:
            self.source = f.read()
        self.tree = ast.parse(self.source)
        self.imports = {}      # local name -> (module, original name)
        self.functions = {}    # qualname -> FunctionDef
        self.classes = {}      # class name -> ClassDef
        self.constants = {}    # module-level NAME = <constant expr>
        for n in self.tree.body:
            if isinstance(n, ast.ImportFrom) and n.module:
                for a in n.names:
                    self.imports[a.asname or a.name] = (n.module, a.name)
            elif isinstance(n, ast.Import):
                for a in n.names:
                    self.imports[a.asname or a.name] = (a.name, None)
            elif isinstance(n, (ast.FunctionDef,)):
                self.functions[n.name] = n
            elif isinstance(n, ast.ClassDef):
                self.classes[n.name] = n
                for m in n.body:
                    if isinstance(m, ast.FunctionDef):
                        # singledispatch registrations are all called "_": key them by the registered type
                        key = m.name
                        for d in m.decorator_list:
                            if isinstance(d, ast.Call) and isinstance(d.func, ast.Attribute) and d.func.attr == "register":
                                key = f"{d.func.value.id}.register({ast.unparse(d.args[0])})"
                        self.functions[f"{n.name}.{key}"] = m
            elif isinstance(n, ast.Assign) and len(n.targets) == 1 and isinstance(n.targets[0], ast.Name):
                self.constants[n.targets[0].id] = n.value

    def function(self, qualname):
        if qualname not in self.functions:
            return None
        return self.functions[qualname]

    def class_bases(self, cls):
        c = self.classes.get(cls)
        if c is None:
            return []
        return [b.id for b in c.bases if isinstance(b, ast.Name)]


_cache = {}


def module(modname) -> ModuleCtx:
    if modname not in _cache:
        _cache[modname] = ModuleCtx(modname)
    return _cache[modname]


def reset():
    _cache.clear()


def strip(fn: ast.FunctionDef) -> ast.FunctionDef:
    """The verified text: the function without docstring / annotations / decorators."""
    import copy
    f = copy.deepcopy(fn)
    f.decorator_list = []
    f.returns = None
    for a in f.args.args + f.args.kwonlyargs + f.args.posonlyargs:
        a.annotation = None
    if f.args.vararg:
        f.args.vararg.annotation = None
    if f.args.kwarg:
        f.args.kwarg.annotation = None
    if f.body and isinstance(f.body[0], ast.Expr) and isinstance(f.body[0].value, ast.Constant) and isinstance(f.body[0].value.value, str):
        f.body = f.body[1:] or [ast.Pass()]

    class Ann(ast.NodeTransformer):
        def visit_AnnAssign(self, n):
            if n.value is None:
                return ast.Pass()
            return ast.copy_location(ast.Assign(targets=[n.target], value=n.value), n)

    f = Ann().visit(f)
    ast.fix_missing_locations(f)
    return f


def fn_hash(fn: ast.FunctionDef) -> str:
    return hashlib.sha256(ast.dump(strip(fn)).encode()).hexdigest()[:16]


def decorators(fn: ast.FunctionDef):
    out = []
    for d in fn.decorator_list:
        out.append(ast.unparse(d))
    return out
