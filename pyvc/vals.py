"""Symbolic values, type descriptors and SMT sorts of pyvc.

A type descriptor is a tuple:
  ('bool',) ('int',) ('str',) ('none',) ('node',) ('graph',)
  ('opaque', Name)            uninterpreted sort Name
  ('data', Name)              registered algebraic datatype (frozen dataclass family)
  ('opt', T)                  T | None
  ('set', T) ('bag', T)       Array(T, Bool); bag = list seen as the set of its elements
  ('seq', T)                  z3 Seq(T)  (list in sequence view)
  ('dict', K, V)              (dom: Array(K,Bool), val: Array(K, sort(V)))
  ('tuple', (T1, ..., Tn))    python tuple of values; TupleSort when stored in a collection
  ('list',)                   python list of values, concrete length
  ('obj', ClassName)          mutable record: python dict field -> value
  ('closure',)                lambda + defining state
  ('exc', Name)               exception value
"""
from __future__ import annotations

import itertools
import z3

import os as _os

# String view: module names are z3 Strings instead of an uninterpreted sort. Every contract stays well typed (a
# more specific interpretation of the sort 'Node'); functions that inspect names character-wise ('flagged
# sites', C14) are verified in this view. Selected per contract with view="string"; see pyvc/cli.py.
STRING_MODE = _os.environ.get("PYVC_NODE") == "str"
Node = z3.StringSort() if STRING_MODE else z3.DeclareSort("Node")
Graph = z3.DeclareSort("Graph")

_opaque = {"Graph": Graph} if STRING_MODE else {"Node": Node, "Graph": Graph}
_counter = itertools.count()


def fresh_name(base: str) -> str:
    return f"{base}!{next(_counter)}"


def opaque_sort(name: str):
    if name not in _opaque:
        _opaque[name] = z3.DeclareSort(name)
    return _opaque[name]


# ---------------------------------------------------------------- datatypes
DATA = {}  # name -> dict(sort=, ctor=, fields={field: (accessor, T)}, order=[field...])


def declare_data(name: str, fields: list[tuple[str, tuple]]):
    """One-constructor datatype with the given fields."""
    dt = z3.Datatype(name)
    dt.declare("mk_" + name, *[(f, sort_of(t)) for f, t in fields])
    s = dt.create()
    ctor = s.constructor(0)
    acc = {f: (s.accessor(0, i), t) for i, (f, t) in enumerate(fields)}
    DATA[name] = dict(sort=s, ctor=ctor, fields=acc, order=[f for f, _ in fields])
    return s


def declare_enum(name: str, members: list[str]):
    s, vals = z3.EnumSort(name, members)
    DATA[name] = dict(sort=s, enum={m: v for m, v in zip(members, vals)})
    return s


_tuple_sorts = {}


def tuple_sort(ts: tuple):
    key = tuple(str(sort_of(t)) for t in ts)
    if key not in _tuple_sorts:
        nm = "Tup_" + "_".join(k.replace(" ", "").replace("(", "L").replace(")", "R").replace(",", "_") for k in key)
        s, mk, accs = z3.TupleSort(nm, [sort_of(t) for t in ts])
        _tuple_sorts[key] = (s, mk, accs)
    return _tuple_sorts[key]


_opt_sorts = {}


def opt_sort(t: tuple):
    key = str(sort_of(t))
    if key not in _opt_sorts:
        nm = "Opt_" + key.replace(" ", "").replace("(", "L").replace(")", "R").replace(",", "_")
        dt = z3.Datatype(nm)
        dt.declare("none_" + nm)
        dt.declare("some_" + nm, ("val", sort_of(t)))
        s = dt.create()
        _opt_sorts[key] = s
    return _opt_sorts[key]


_dict_sorts = {}


def dict_sort(t: tuple):
    """A dict used as a VALUE (element of a collection / value of another dict): the pair (domain, value array) as one tuple term."""
    ks, vs = sort_of(t[1]), sort_of(t[2])
    key = (str(ks), str(vs))
    if key not in _dict_sorts:
        nm = "Dict_" + "_".join(k.replace(" ", "").replace("(", "L").replace(")", "R").replace(",", "_") for k in key)
        _dict_sorts[key] = z3.TupleSort(nm, [z3.ArraySort(ks, z3.BoolSort()), z3.ArraySort(ks, vs)])
    return _dict_sorts[key]


def sort_of(t: tuple):
    k = t[0]
    if k == "dict" and len(t) >= 3 and t[1] != ("none",):
        return dict_sort(t)[0]
    if k == "bool":
        return z3.BoolSort()
    if k == "int":
        return z3.IntSort()
    if k == "str":
        return z3.StringSort()
    if k == "node":
        return Node
    if k == "graph":
        return Graph
    if k == "opaque":
        return opaque_sort(t[1])
    if k == "data":
        return DATA[t[1]]["sort"]
    if k in ("set", "bag"):
        return z3.ArraySort(sort_of(t[1]), z3.BoolSort())
    if k == "arr":
        return z3.ArraySort(sort_of(t[1]), sort_of(t[2]))
    if k == "seq":
        return z3.SeqSort(sort_of(t[1]))
    if k == "tuple":
        return tuple_sort(t[1])[0]
    if k == "opt":
        return opt_sort(t[1])
    if k == "none":
        return opt_sort(("bool",))  # only ever compared, never stored
    if k == "obj" and t[1] in OBJ_LAYOUT:
        return obj_sort(t[1])
    if k == "dict" and len(t) == 3:
        # a dict as ONE term (only inside record snapshots / results of pure functions): the pair (domain, value array)
        return tuple_sort((("set", t[1]), _ArrT(t[1], t[2])))[0]
    raise TypeError(f"type {t} has no SMT sort")


# ---------------------------------------------------------------- parsing of type strings
TYPE_ALIASES = {}


def parse_type(s):
    if isinstance(s, tuple):
        return s
    s = s.strip()
    if s in TYPE_ALIASES:
        return TYPE_ALIASES[s]
    base = {
        "Bool": ("bool",), "Int": ("int",), "Str": ("str",), "Node": (("str",) if STRING_MODE else ("node",)),
        "Graph": ("graph",), "None": ("none",), "Closure": ("closure",), "List": ("list",),
    }
    if s in base:
        return base[s]
    if "[" in s:
        head, rest = s.split("[", 1)
        assert rest.endswith("]"), s
        args = _split_args(rest[:-1])
        head = head.strip()
        if head == "Set":
            return ("set", parse_type(args[0]))
        if head == "Bag":
            return ("bag", parse_type(args[0]))
        if head == "Seq":
            return ("seq", parse_type(args[0]))
        if head == "ASeq":
            # a list as (length, array index -> element): same meaning as Seq, but quantified index invariants stay in the array fragment
            # (z3's sequence theory does not instantiate them); supports [], append, len, [i], zip in a comprehension -- everything else is refused
            return ("aseq", parse_type(args[0]))
        if head == "Opt":
            return ("opt", parse_type(args[0]))
        if head == "Dict":
            return ("dict", parse_type(args[0]), parse_type(args[1]))
        if head == "DDict":  # collections.defaultdict(list)
            return ("dict", parse_type(args[0]), parse_type(args[1]), "default")
        if head == "Tuple":
            return ("tuple", tuple(parse_type(a) for a in args))
        if head == "Obj":
            return ("obj", args[0].strip())
        if head == "Opaque":
            return ("opaque", args[0].strip())
        if head == "Lam":
            # closures of ONE lambda site stored in a collection (defunctionalised): an uninterpreted sort whose values carry the
            # lambda's captured DEFAULT-argument values (projection functions lamcap_<sort>_<k>); free variables of the body are NOT
            # captured -- they are read from the defining frame when the closure is applied (Python's late binding)
            caps = tuple(parse_type(a) for a in args if a.strip())
            name = "Lam_" + "_".join("".join(ch for ch in repr(c) if ch.isalnum()) for c in caps)
            LAM_CAPS[name] = caps
            return ("opaque", name)
        raise TypeError(s)
    if s in DATA:
        return ("data", s)
    if s in OBJ_LAYOUT:
        return ("obj", s)
    return ("opaque", s)


def _split_args(s):
    out, depth, cur = [], 0, ""
    for ch in s:
        if ch == "[":
            depth += 1
        if ch == "]":
            depth -= 1
        if ch == "," and depth == 0:
            out.append(cur)
            cur = ""
        else:
            cur += ch
    out.append(cur)
    return out


LAM_CAPS = {}    # sort name of a Lam[...] type -> types of the captured default arguments


def lam_cap_fn(name, k):
    return z3.Function(f"lamcap_{name}_{k}", opaque_sort(name), sort_of(LAM_CAPS[name][k]))


OBJ_LAYOUT = {}  # class name -> {field: type}   (mutable records such as Rule, RuleConfiguration)


def declare_obj(name, fields: dict):
    OBJ_LAYOUT[name] = {f: parse_type(t) for f, t in fields.items()}


class _ArrT(tuple):
    """internal type descriptor ('arr', K, V): the value array of a dict (only as a component of the dict's snapshot sort)"""
    def __new__(cls, k, v):
        return tuple.__new__(cls, ("arr", k, v))


_obj_sorts = {}


def obj_sort(name):
    """Snapshot sort of a declared mutable record: one-constructor datatype over the sorts of its fields. Used when a record is
    stored in a collection or returned by a pure function under a binder, i.e. BY VALUE; the engine only does that for temporaries
    (results of calls) -- storing a record that is still reachable under a name is refused (identity / later mutation would be lost).
    A field without an SMT sort (dict, closure) makes the whole record unstorable (TypeError -> refused)."""
    if name not in _obj_sorts:
        layout = OBJ_LAYOUT[name]
        dt = z3.Datatype("Rec_" + name)
        dt.declare("mk_Rec_" + name, *[(f"{name}!{f}", sort_of(t)) for f, t in layout.items()])
        _obj_sorts[name] = dt.create()
    return _obj_sorts[name]


# ---------------------------------------------------------------- values
class V:
    __slots__ = ("t", "x")

    def __init__(self, t, x):
        self.t = t
        self.x = x

    def __repr__(self):
        return f"V{self.t}<{self.x}>"


def vbool(b):
    return V(("bool",), z3.BoolVal(b) if isinstance(b, bool) else b)


def vint(i):
    return V(("int",), z3.IntVal(i) if isinstance(i, int) else i)


def vstr(s):
    return V(("str",), z3.StringVal(s) if isinstance(s, str) else s)


VNONE = V(("none",), None)


def fresh(t, base="v"):
    """A fresh unconstrained symbolic value of type t."""
    t = parse_type(t)
    k = t[0]
    if k in ("bool", "int", "str", "node", "graph", "opaque", "data", "set", "bag", "seq"):
        return V(t, z3.Const(fresh_name(base), sort_of(t)))
    if k == "none":
        return VNONE
    if k == "opt":
        return V(t, (z3.Const(fresh_name(base + "_isnone"), z3.BoolSort()), fresh(t[1], base)))
    if k == "dict":
        return V(t, (z3.Const(fresh_name(base + "_dom"), z3.ArraySort(sort_of(t[1]), z3.BoolSort())),
                     z3.Const(fresh_name(base + "_val"), z3.ArraySort(sort_of(t[1]), sort_of(t[2])))))
    if k == "tuple":
        return V(t, tuple(fresh(ti, base) for ti in t[1]))
    if k == "aseq":
        return V(t, (z3.Const(fresh_name(base + "_len"), z3.IntSort()), z3.Const(fresh_name(base + "_at"), z3.ArraySort(z3.IntSort(), sort_of(t[1])))))
    if k == "obj":
        return V(t, {f: fresh(ft, base + "_" + f) for f, ft in OBJ_LAYOUT[t[1]].items()})
    if k == "closure":
        raise TypeError("cannot havoc a closure")
    raise TypeError(f"cannot create fresh value of {t}")


def to_term(v: V):
    """z3 term of sort_of(v.t) denoting v (used when v is stored in a collection / compared)."""
    k = v.t[0]
    if k in ("bool", "int", "str", "node", "graph", "opaque", "data", "set", "bag", "seq"):
        return v.x
    if k == "tuple":
        s, mk, accs = tuple_sort(v.t[1])
        return mk(*[to_term(e) for e in v.x])
    if k == "opt":
        s = opt_sort(v.t[1])
        isnone, inner = v.x
        it = to_term(inner)
        # the view of a term t as (is-none(t), val(t)) goes back to t itself:  ite(is-none(t), none, some(val(t))) == t
        if z3.is_app(isnone) and isnone.num_args() == 1 and isnone.decl().eq(s.recognizer(0)) and it.eq(s.accessor(1, 0)(isnone.arg(0))):
            return isnone.arg(0)
        return z3.If(isnone, s.constructor(0)(), s.constructor(1)(it))
    if k == "dict" and v.x is not None:
        s, mk, accs = dict_sort(v.t)
        if z3.is_app(v.x[0]) and v.x[0].num_args() == 1 and v.x[0].decl().eq(accs[0]) and v.x[1].eq(accs[1](v.x[0].arg(0))):
            return v.x[0].arg(0)
        return mk(v.x[0], v.x[1])
    if k == "obj" and v.t[1] in OBJ_LAYOUT and set(v.x) == set(OBJ_LAYOUT[v.t[1]]):
        s = obj_sort(v.t[1])
        fts = [to_term(coerce(v.x[f], ft)) for f, ft in OBJ_LAYOUT[v.t[1]].items()]
        # a record that is (still) the field-wise view of one term t denotes t:  mk(acc_0(t), ..., acc_n(t)) == t
        if fts and z3.is_app(fts[0]) and fts[0].num_args() == 1 and fts[0].arg(0).sort() == s:
            t0 = fts[0].arg(0)
            if all(ft.eq(s.accessor(0, i)(t0)) for i, ft in enumerate(fts)):
                return t0
        return s.constructor(0)(*fts)
    raise TypeError(f"no term for {v.t}")


def from_term(t, term) -> V:
    k = t[0]
    if k in ("bool", "int", "str", "node", "graph", "opaque", "data", "set", "bag", "seq"):
        return V(t, term)
    if k == "tuple":
        s, mk, accs = tuple_sort(t[1])
        return V(t, tuple(from_term(ti, z3.simplify(acc(term))) for ti, acc in zip(t[1], accs)))
    if k == "opt":
        s = opt_sort(t[1])
        return V(t, (s.recognizer(0)(term), from_term(t[1], s.accessor(1, 0)(term))))
    if k == "dict":
        s, mk, accs = dict_sort(t)
        return V(t, (accs[0](term), accs[1](term)))
    if k == "obj" and t[1] in OBJ_LAYOUT:
        s = obj_sort(t[1])
        return V(t, {f: from_term(ft, s.accessor(0, i)(term)) for i, (f, ft) in enumerate(OBJ_LAYOUT[t[1]].items())})
    raise TypeError(f"no value from term for {t}")


def elem_type(t):
    if t[0] in ("set", "bag", "seq"):
        return t[1]
    raise TypeError(f"not a collection: {t}")


def deep_copy(v: V) -> V:
    k = v.t[0]
    if k == "obj":
        return V(v.t, {f: deep_copy(x) for f, x in v.x.items()})
    if k == "list":
        return V(v.t, [deep_copy(x) for x in v.x])
    if k == "tuple":
        return V(v.t, tuple(deep_copy(x) for x in v.x))
    if k == "opt":
        return V(v.t, (v.x[0], deep_copy(v.x[1])))
    return v


def coerce(v: V, t) -> V:
    """View v at type t where that is a sound re-interpretation (list->bag, x->opt x, none->opt, set<->bag)."""
    if v.t == t:
        return v
    k = t[0]
    if v.t[0] == "emptyset" and k in ("set", "bag"):
        return V(t, z3.K(sort_of(t[1]), z3.BoolVal(False)))
    if k == "opt":
        if v.t[0] == "none":
            inner = fresh(t[1], "dead")
            return V(t, (z3.BoolVal(True), inner))
        if v.t[0] == "opt":
            return V(t, (v.x[0], coerce(v.x[1], t[1])))
        return V(t, (z3.BoolVal(False), coerce(v, t[1])))
    if k in ("bag", "set") and v.t[0] in ("bag", "set") and _compatible(v.t[1], t[1]):
        return V(t, v.x)
    if k in ("bag", "set", "seq") and v.t[0] == "list" and v.x and t[1][0] == "obj":
        raise TypeError("concrete list of records viewed as a collection of snapshots (the records may still be reachable under a name)")
    if k in ("bag", "set") and v.t[0] in ("list", "tuple"):   # a concrete tuple (e.g. the empty tuple ()) viewed as the collection of its elements
        arr = z3.K(sort_of(t[1]), z3.BoolVal(False))
        for e in v.x:
            arr = z3.Store(arr, to_term(coerce(e, t[1])), z3.BoolVal(True))
        return V(t, arr)
    if k == "aseq" and v.t[0] == "list":
        arr = z3.Const(fresh_name("aseq0"), z3.ArraySort(z3.IntSort(), sort_of(t[1])))
        for i, e in enumerate(v.x):
            arr = z3.Store(arr, z3.IntVal(i), to_term(coerce(e, t[1])))
        return V(t, (z3.IntVal(len(v.x)), arr))
    if k == "seq" and v.t[0] == "list":
        s = z3.Empty(sort_of(t))
        for e in v.x:
            s = z3.Concat(s, z3.Unit(to_term(coerce(e, t[1]))))
        return V(t, s)
    if k in ("bag", "set") and v.t[0] == "seq" and _compatible(v.t[1], t[1]):
        x = z3.Const(fresh_name("e"), sort_of(t[1]))
        arr = z3.Lambda([x], z3.Contains(v.x, z3.Unit(x)))
        return V(t, arr)
    if k == "tuple" and v.t[0] == "tuple" and len(t[1]) == len(v.t[1]):
        return V(t, tuple(coerce(e, ti) for e, ti in zip(v.x, t[1])))
    if k == "tuple" and v.t[0] == "list" and len(t[1]) == len(v.x):
        return V(t, tuple(coerce(e, ti) for e, ti in zip(v.x, t[1])))
    if k == "dict" and v.t[0] == "dict" and v.x is not None and v.t[1:3] == t[1:3]:
        return V(t, v.x)  # defaultdict viewed as a mapping (and back)
    if _compatible(v.t, t):
        return V(t, v.x)
    for hook in COERCE_HOOKS:
        r = hook(v, t)
        if r is not None:
            return r
    raise TypeError(f"cannot view {v.t} as {t}")


COERCE_HOOKS = []   # contract files may register abstraction functions (v, t) -> V | None, e.g. a concrete graph record viewed as the abstract Graph


def _compatible(a, b):
    if a == b:
        return True
    try:
        return sort_of(a) == sort_of(b) and a[0] not in ("tuple", "opt") and b[0] not in ("tuple", "opt")
    except TypeError:
        return False
