"""./check <property> [--tier quick|thorough] | ./check replay <file> | ./check list

Exit codes: 0 property held on everything explored / 1 violation (VIOLATION line) / 2 undecided / 3 checker crash.
"""
from __future__ import annotations

import argparse
import json
import multiprocessing as mp
import os
import sys
import time
import traceback

ROOT = os.path.dirname(os.path.dirname(os.path.abspath(__file__)))
sys.path.insert(0, ROOT)
GEN_MEM_BYTES = 8 << 30
GEN_BUDGET_S = int(os.environ.get("PYVC_GEN_BUDGET_S", "900"))   # per generation round (all keys of the round run in parallel); the slowest key takes ~15 s on an idle machine


def _gen_in_string_view(key):
    """Names as strings: the sort 'Node' is fixed at import time, so the key is generated in a child interpreter
    started with PYVC_NODE=str (same contracts, same engine)."""
    import pickle, subprocess, tempfile
    with tempfile.NamedTemporaryFile(suffix=".pkl", dir=os.environ.get("PYVC_TMP"), delete=False) as f:
        out = f.name
    try:
        p = subprocess.run([sys.executable, "-m", "pyvc.cli", "gen-one", key, "--out", out], cwd=ROOT,
                           env=dict(os.environ, PYVC_NODE="str"), capture_output=True, text=True, timeout=900)
        if p.returncode != 0 or not os.path.getsize(out):
            return dict(key=key, status="crash", error=f"string-view generator failed: {p.stderr[-2000:]}")
        with open(out, "rb") as fh:
            return pickle.load(fh)
    finally:
        os.unlink(out)


def _gen_worker(key, in_child=False):
    """Generate the obligations of one function / lemma (runs in a worker; returns picklable data)."""
    from pyvc import driver, solve
    from pyvc.state import OutOfSubset, ContractDrift
    t0 = time.time()
    try:
        import resource
        resource.setrlimit(resource.RLIMIT_AS, (GEN_MEM_BYTES, GEN_MEM_BYTES))   # a runaway z3 call during path pruning ends in MemoryError -> undecided
    except Exception:
        pass
    try:
        reg = driver.load_contracts()
        from pyvc import vals
        if reg.contracts[key].view == "string" and not vals.STRING_MODE:
            return _gen_in_string_view(key)
        obls, info = driver.generate(reg, key)
        jobs = []
        for o in obls:
            jobs.append(dict(name=o.name, kind=o.kind, cover=o.cover, lineno=o.lineno, note=o.note,
                             smt2=solve.to_smt2(o.hyps, o.goal, o.cover, scope=(5 if o.cover else None)),
                             scoped=[] if o.cover else [(n, solve.to_smt2(solve.relevant_hyps(o), o.goal, False, scope=n)) for n in (3, 5)]))
        info["gen_s"] = round(time.time() - t0, 2)
        return dict(key=key, status="ok", info=info, jobs=jobs)
    except OutOfSubset as e:
        from pyvc import vals
        if "('node',)" in str(e) and not vals.STRING_MODE:
            # the function inspects a module NAME character-wise (startswith / in / slicing ...): a flagged site (C14).
            # Names are uninterpreted in the default view; verify this function with names as strings instead.
            g = _gen_in_string_view(key)
            if g.get("info") is not None:
                g["info"]["string_view_fallback"] = str(e)
            return g
        return dict(key=key, status="out-of-subset", error=str(e))
    except ContractDrift as e:
        return dict(key=key, status="contract-drift", error=str(e))
    except Exception as e:  # engine crash
        if isinstance(e, TypeError) and str(e).startswith(("cannot view", "no term for", "no value from term", "cannot create fresh value", "cannot havoc")):
            # a value of another sort than the contract declares (changed code): the contract no longer binds -- not a checker crash
            return dict(key=key, status="contract-drift", error=f"sort mismatch between the code and the declared types: {e}")
        if isinstance(e, MemoryError) or "out of memory" in str(e).lower():
            return dict(key=key, status="out-of-subset", error=f"VC generation exceeded its memory limit ({type(e).__name__}); undecided, not a verdict")
        return dict(key=key, status="crash", error=f"{type(e).__name__}: {e}", tb=traceback.format_exc())


def _solve_worker(job):
    from pyvc import solve
    r = solve.solve_one((job["name"], job["smt2"], job["cover"], job["seed"], job["thorough"], job["scoped"]))
    r["kind"] = job["kind"]
    r["lineno"] = job["lineno"]
    r["note"] = job["note"]
    r["fn"] = job["fn"]
    return r


def _retry_worker(job):
    from pyvc import solve
    r = solve.solve_retry((job["name"], job["smt2"], job["cover"], job["seed"], job["thorough"], job["scoped"]))
    for k in ("kind", "lineno", "note", "fn"):
        r[k] = job[k]
    return r


def run_property(pid, tier, seed):
    from pyvc import driver, report
    t0 = time.time()
    reg = driver.load_contracts()
    import contracts.props as props
    if pid not in props.PROPS:
        print(f"unknown property {pid}")
        return 3
    spec = props.PROPS[pid]
    keys = props.keys_for(reg, pid)
    thorough = tier == "thorough"
    ctx = mp.get_context("fork")
    # development aid for confirming many seeded changes (tools/confirm_seeds.sh): the bounded stand-ins run first and, when one of them already has a
    # failing input, the proof side is skipped (the run is a violation either way; the evidence of such a run says so). Not used by the registered commands.
    bounded_first = None
    if os.environ.get("PYVC_BOUNDED_FIRST") == "1":
        bounded_first = []
        for b in spec.get("bounded", []):
            try:
                bounded_first.append(b(tier, seed))
            except Exception as e:
                bounded_first.append(dict(name=getattr(b, "__name__", "bounded"), status="crash", error=f"{type(e).__name__}: {e}", tb=traceback.format_exc()))
        if any(b.get("violations") for b in bounded_first):
            print(f"[{pid}] bounded-first: a bounded stand-in has a failing input; proof side skipped")
            keys = []
    # the verification cone: seeds plus, transitively, every contract applied at a call site / lemma used
    gens, done, todo = [], set(), list(keys)
    while todo:
        # one freshly forked process per key: the z3 context (and with it the order of declarations in the SMT-LIB text) then has the
        # same history for a key in every run, whatever else is being generated
        with ctx.Pool(min(16, max(1, len(todo))), maxtasksperchild=1) as pool:
            # VC generation calls z3 for path pruning; a changed function can make that (or the symbolic execution itself) run away. A key whose
            # generation does not finish within the budget is UNDECIDED (never a verdict); leaving the 'with' block terminates the stuck worker.
            pending = [(k, pool.apply_async(_gen_worker, (k,))) for k in todo]
            deadline = time.time() + GEN_BUDGET_S
            batch = []
            for k, ar in pending:
                try:
                    batch.append(ar.get(timeout=max(1.0, deadline - time.time())))
                except mp.TimeoutError:
                    batch.append(dict(key=k, status="out-of-subset", error=f"VC generation did not finish within {GEN_BUDGET_S} s (undecided, not a verdict)"))
        done |= set(todo)
        gens += batch
        nxt = set()
        for g in batch:
            for k in (g.get("info") or {}).get("callees", []):
                c = reg.contracts.get(k)
                if c is not None and k not in done and (c.is_lemma or (c.status == "verify" and not c.inline)):
                    nxt.add(k)
        todo = sorted(nxt)
    keys = sorted(done)
    t_gen = time.time() - t0
    jobs, fn_infos, problems = [], [], []
    for g in gens:
        if g["status"] != "ok":
            problems.append(g)
            continue
        fn_infos.append(g["info"])
        for j in g["jobs"]:
            j.update(seed=seed, thorough=thorough, fn=g["key"])
            jobs.append(j)
    results = []
    if jobs:
        # slow obligations first would be ideal; keep submission order but small chunks
        with ctx.Pool(16) as pool:
            results = pool.map(_solve_worker, jobs, chunksize=1)
        # second chance for undecided obligations: few processes, long budgets, several seeds
        idx = [i for i, r in enumerate(results) if not r["cover"] and r["verdict"] not in ("proved", "refuted")]
        if idx:
            with ctx.Pool(min(4, len(idx))) as pool:
                again = pool.map(_retry_worker, [jobs[i] for i in idx], chunksize=1)
            for i, r2 in zip(idx, again):
                r2["backends"] = {**results[i]["backends"], **r2["backends"]}
                results[i] = r2
    t_solve = time.time() - t0 - t_gen
    bounded = []
    for b in (spec.get("bounded", []) if bounded_first is None else []):
        try:
            bounded.append(b(tier, seed))
        except Exception as e:
            bounded.append(dict(name=getattr(b, "__name__", "bounded"), status="crash", error=f"{type(e).__name__}: {e}",
                                tb=traceback.format_exc()))
    if bounded_first is not None:
        bounded = bounded_first
    print(f"[{pid}] phases: generate {t_gen:.1f}s, solve {t_solve:.1f}s, bounded {time.time() - t0 - t_gen - t_solve:.1f}s")
    slow = sorted(results, key=lambda r: -sum(b.get("seconds", 0) for b in r["backends"].values()))[:5]
    for r in slow:
        tt = sum(b.get("seconds", 0) for b in r["backends"].values())
        if tt > 8:
            print(f"[{pid}] slow obligation {tt:.1f}s {r['name'][:150]} { {k: v['result'] for k, v in r['backends'].items()} }")
    return report.conclude(pid, tier, seed, reg, spec, keys, fn_infos, problems, jobs, results, bounded, time.time() - t0)


def main(argv=None):
    ap = argparse.ArgumentParser()
    ap.add_argument("what")
    ap.add_argument("arg", nargs="?")
    ap.add_argument("--tier", default=os.environ.get("VERIF_TIER", "quick"))
    ap.add_argument("--replay")
    ap.add_argument("--out")
    a = ap.parse_args(argv)
    seed = int(os.environ.get("VERIF_SEED", "0") or 0)
    try:
        if a.what == "list":
            from pyvc import driver
            import contracts.props as props
            reg = driver.load_contracts()
            for pid in sorted(props.PROPS):
                print(pid, len(props.keys_for(reg, pid)), "functions/lemmas")
            return 0
        if a.what == "gen-one":
            import pickle
            g = _gen_worker(a.arg, in_child=True)
            with open(a.out, "wb") as fh:
                pickle.dump(g, fh)
            return 0
        if a.what == "replay":
            from pyvc import replay
            return replay.run(a.arg)
        if a.replay:
            from pyvc import replay
            return replay.run(a.replay)
        return run_property(a.what, a.tier if a.tier in ("quick", "thorough") else "quick", seed)
    except SystemExit:
        raise
    except Exception:
        traceback.print_exc()
        print("CHECKER-CRASH")
        return 3


if __name__ == "__main__":
    sys.exit(main())
