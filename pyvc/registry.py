"""Contracts, specification functions, modelled builtins, and call dispatch."""
from __future__ import annotations

import ast
import z3

from . import extract
from . import vals
from .vals import (V, VNONE, vbool, vint, vstr, fresh, to_term, from_term, sort_of, coerce,
                   parse_type, fresh_name, DATA, OBJ_LAYOUT, deep_copy)
from .state import State, OutOfSubset, ContractDrift, feasible
from .engine import TRUE, FALSE, zand, zor, znot, MUTATORS


class BindMismatch(ContractDrift):
    pass


class Contract:
    def __init__(self, key, module=None, qualname=None, params=None, returns=None, requires=(), ensures=(),
                 raises=(), locals=None, loops=None, defn=None, modifies=(), kind="function",
                 status="verify", impl_of=None, self_guard=None, defaults=None, ensures_on_raise=(),
                 attrs=None, is_lemma=False, note="", total=None, properties=(), inline=False, use_at_end=(), opaque=(),
                 aliases_ok=(), use_at_start=(), cases=(), view=None, pure=False, payloads=None, ghost_asserts=(), returns_nodup=False, ghost_at=None, opts=()):
        self.key = key
        self.module = module
        self.qualname = qualname or key
        self.params = {k: parse_type(v) for k, v in (params or {}).items()}
        self.returns = parse_type(returns) if returns is not None else None
        self.requires = list(requires)
        self.ensures = list(ensures)
        self.ensures_on_raise = list(ensures_on_raise)
        self.raises = list(raises)            # [(ExcName, condition-string)]  raised iff condition
        self.locals = {k: parse_type(v) for k, v in (locals or {}).items()}
        self.attrs = {k: parse_type(v) for k, v in (attrs or {}).items()}
        self.loops = loops or {}
        self.defn = defn                      # result == this spec expression (pure function)
        self.modifies = list(modifies)
        self.kind = kind                      # function | method | property | classmethod | staticmethod
        self.status = status                  # verify | assumed | bounded
        self.impl_of = impl_of                # key of the abstract contract this implementation must satisfy
        self.self_guard = self_guard          # extra requires identifying the dynamic class of self
        self.defaults = defaults or {}
        self.is_lemma = is_lemma
        self.note = note
        self.total = total if total is not None else (not self.requires and not self.raises)
        self.properties = list(properties)    # property ids this function is under contract for
        self.inline = inline
        self.use_at_end = list(use_at_end)
        self.opaque = set(opaque)
        self.aliases_ok = set(aliases_ok)
        self.use_at_start = list(use_at_start)
        self.cases = list(cases)              # Boolean parameter fields to split on (verified once per valuation)
        self.opts = set(opts)  # engine options for this function, e.g. "sorted_as_seq": sorted(names) is a Seq ordered by lex_le (default: order abstracted away)
        self.ghost_at = dict(ghost_at or {})  # proof hints placed BEFORE the first statement whose source text starts with the key: each is an obligation there, then assumed
        self.ghost_asserts = list(ghost_asserts)  # proof hints: asserted (as obligations) and then assumed at a normal return, on the paths where their locals exist
        self.returns_nodup = returns_nodup    # the returned LIST has no duplicates (established structurally when the function is verified; lets callers use len() as cardinality)
        self.payloads = payloads or {}        # exception name -> spec expression of the message (args[0]) of the raised exception
        self.pure = pure                      # result is a function of the arguments: every call denotes the same uninterpreted application
        self.view = view                      # None: names opaque; 'string': names are strings (PYVC_NODE=str)

    def param_axioms(self, eng, st):
        return []


class Registry:
    def __init__(self):
        self.contracts: dict[str, Contract] = {}
        self.specfuns = {}        # name -> python callable(engine, st, *args:V) -> V
        self.macros = {}          # name -> (param names, body string)
        self.schemas = set()      # names of spec functions that are trusted axiom schemas
        self.ctors = {}           # class name -> callable(engine, st, args, kwargs) -> V
        self.method_family = {}   # type key -> class family name used for contract lookup
        self.class_bases = {}     # class -> [bases] (for contract lookup and exceptions)
        self.exc_bases = {"KeyError": ["LookupError"], "IndexError": ["LookupError"], "LookupError": ["Exception"],
                          "AssertionError": ["Exception"], "TypeError": ["Exception"], "ValueError": ["Exception"],
                          "AttributeError": ["Exception"], "StopIteration": ["Exception"],
                          "NotImplementedError": ["Exception"], "Exception": []}
        self._spec_cache = {}
        self.render_fn = None
        self.lemmas = {}
        self.defined = {}         # name -> dict(params, body, func, axiom, deps): defined predicates (opaque-able)

    # ------------------------------------------------------------------ registration
    def add(self, c: Contract):
        if c.key in self.contracts:
            raise ValueError(f"duplicate contract {c.key}")
        self.contracts[c.key] = c
        return c

    def lemma(self, key, params, requires, ensures, properties=(), note="", use=(), opaque=(), cases=(), view=None):
        """Register a lemma; it becomes usable in 'use' clauses (as the formula requires => ensures)."""
        c = Contract(key, params=params, requires=requires, ensures=ensures, is_lemma=True, properties=properties, note=note,
                     use_at_start=use, opaque=opaque, cases=cases, view=view)
        self.add(c)
        self.lemmas[key] = c
        return c

    def define(self, name, params, body):
        """A defined predicate: an uninterpreted symbol plus one definitional axiom (with the application as its
        trigger). Uses stay syntactically aligned across contracts and the definition can be hidden (opaque)."""
        self.defined[name] = dict(params={k: parse_type(v) for k, v in params.items()}, body=body, func=None,
                                  axiom=None, deps=set())

    def flatten(self, v):
        k = v.t[0]
        if k == "tuple":
            return [t for e in v.x for t in self.flatten(e)]
        if k == "dict":
            return list(v.x)
        if k == "opt":
            return [v.x[0]] + self.flatten(v.x[1])
        if k == "obj":
            return [t for f in sorted(v.x) for t in self.flatten(v.x[f])]
        if k in ("list", "closure", "none"):
            raise ContractDrift(f"defined predicate argument of type {v.t}")
        return [v.x]

    def defined_app(self, eng, name, args, st):
        """Transparent (default): expand the body like a macro. Opaque (listed in the contract's 'opaque'): an
        application of an uninterpreted symbol -- whatever is proved then holds for every interpretation of it,
        in particular for the defined one, and hypotheses stated with it stay syntactically aligned."""
        d = self.defined[name]
        if len(args) != len(d["params"]):
            raise ContractDrift(f"defined predicate {name}: arity")
        if not (eng.c is not None and name in eng.c.opaque):
            saved = dict(eng.bound)
            eng.bound.update(dict(zip(d["params"].keys(), [eng.typed(a, t) for a, t in zip(args, d["params"].values())])))
            try:
                return eng.ev1(self.parse_spec(d["body"]), st)
            finally:
                eng.bound = saved
        vs = [eng.typed(a, t) for a, t in zip(args, d["params"].values())]
        terms = [t for v in vs for t in self.flatten(v)]
        if d["func"] is None:
            d["func"] = z3.Function(name, *[t.sort() for t in terms], z3.BoolSort())
        return vbool(d["func"](*terms))

    def def_axioms(self, names, opaque=()):
        return []

    def specfun(self, name, schema=False):
        def deco(f):
            self.specfuns[name] = f
            if schema:
                self.schemas.add(name)
            return f
        return deco

    def macro(self, name, params, body, schema=False):
        if name in self.macros and self.macros[name] != (params, body):
            raise ValueError(f"duplicate macro {name}")
        self.macros[name] = (params, body)
        if schema:
            self.schemas.add(name)

    def parse_spec(self, s):
        if s not in self._spec_cache:
            try:
                self._spec_cache[s] = ast.parse(s.strip(), mode="eval").body
            except SyntaxError as e:
                raise ContractDrift(f"bad spec expression {s!r}: {e}")
        return self._spec_cache[s]

    def exc_is_subclass(self, a, b):
        if a == b or b in ("Exception", "BaseException"):
            return True
        for p in self.exc_bases.get(a, ["Exception"]):
            if p != a and self.exc_is_subclass(p, b) and p != "Exception":
                return True
        return False

    def render(self, v):
        raise OutOfSubset(f"string rendering of {v.t}")

    # ------------------------------------------------------------------ globals
    def global_value(self, name, modctx):
        if modctx is not None and name in modctx.constants:
            node = modctx.constants[name]
            if isinstance(node, ast.Constant) and isinstance(node.value, (str, int, bool)):
                c = node.value
                return vstr(c) if isinstance(c, str) else vbool(c) if isinstance(c, bool) else vint(c)
            if isinstance(node, ast.Tuple) and node.elts and all(isinstance(e, ast.Constant) and isinstance(e.value, str) for e in node.elts):
                # a module-level tuple of string literals (e.g. DEFAULT_EXCLUSIONS): a concrete tuple
                return V(("tuple", tuple(("str",) for _ in node.elts)), tuple(vstr(e.value) for e in node.elts))
        if name in ("True", "False"):
            return vbool(name == "True")
        if modctx is not None:
            tbl = self._global_table(name, modctx)
            if tbl is not None:
                return tbl
        if modctx is not None and (name in modctx.classes or (name in modctx.imports and name[:1].isupper())):
            return V(("opaque", "Class"), z3.Const("class_" + name, sort_of(("opaque", "Class"))))
        return None

    def _global_table(self, name, modctx):
        """A module-level constant table  NAME[: ann] = defaultdict(str)  filled by ONE  NAME.update({(<bool consts>): 'text', ...})  at module level and only
        read (NAME[...]) everywhere else in the module: a total dict (defaultdict: a missing key reads as the default '') from tuples of Booleans to strings.
        Anything else (other writes, other key / value forms, another default factory) is not recognised (-> unknown name, the function is refused)."""
        cache = modctx.__dict__.setdefault("_tables", {})
        if name in cache:
            return cache[name]
        cache[name] = None
        body = modctx.tree.body
        defs = [n for n in body if isinstance(n, (ast.Assign, ast.AnnAssign)) and isinstance(getattr(n, "target", None) or n.targets[0], ast.Name)
                and (getattr(n, "target", None) or n.targets[0]).id == name]
        upds = [n for n in body if isinstance(n, ast.Expr) and isinstance(n.value, ast.Call) and isinstance(n.value.func, ast.Attribute)
                and isinstance(n.value.func.value, ast.Name) and n.value.func.value.id == name]
        if len(defs) != 1 or len(upds) != 1 or body.index(upds[0]) < body.index(defs[0]):
            return None
        v, u = defs[0].value, upds[0].value
        if not (isinstance(v, ast.Call) and isinstance(v.func, ast.Name) and v.func.id == "defaultdict" and len(v.args) == 1 and not v.keywords
                and isinstance(v.args[0], ast.Name) and v.args[0].id == "str" and modctx.imports.get("defaultdict") == ("collections", "defaultdict")):
            return None
        if not (u.func.attr == "update" and len(u.args) == 1 and not u.keywords and isinstance(u.args[0], ast.Dict)):
            return None
        # every other occurrence of NAME in the module must be a read  NAME[...]
        parents = {id(ch): p_ for p_ in ast.walk(modctx.tree) for ch in ast.iter_child_nodes(p_)}
        for n in ast.walk(modctx.tree):
            if isinstance(n, ast.Name) and n.id == name:
                par = parents.get(id(n))
                if par is defs[0] or par is u.func:
                    continue
                if not (isinstance(par, ast.Subscript) and par.value is n and isinstance(par.ctx, ast.Load) and isinstance(n.ctx, ast.Load)):
                    return None
        entries, arity = [], None
        for k_, v_ in zip(u.args[0].keys, u.args[0].values):
            if not (isinstance(k_, ast.Tuple) and all(isinstance(e, ast.Constant) and isinstance(e.value, bool) for e in k_.elts)
                    and isinstance(v_, ast.Constant) and isinstance(v_.value, str)):
                return None
            if arity not in (None, len(k_.elts)):
                return None
            arity = len(k_.elts)
            entries.append((tuple(e.value for e in k_.elts), v_.value))
        if not entries:
            return None
        from .vals import tuple_sort
        kt = ("tuple", tuple(("bool",) for _ in range(arity)))
        ks, mk, _ = tuple_sort(kt[1])
        vals_ = z3.K(ks, z3.StringVal(""))
        for key, text in entries:   # later entries of a dict literal win, as in CPython
            vals_ = z3.Store(vals_, mk(*[z3.BoolVal(b) for b in key]), z3.StringVal(text))
        cache[name] = V(("dict", kt, ("str",)), (z3.K(ks, TRUE), vals_))
        return cache[name]

    # ------------------------------------------------------------------ totality (for short-circuit decisions)
    def call_is_total(self, node: ast.Call, eng):
        f = node.func
        if isinstance(f, ast.Name):
            n = f.id
            if n in ("len", "isinstance", "set", "list", "tuple", "sorted", "any", "all", "map", "bool", "str"):
                return True
            if n in self.specfuns or n in self.macros or n in self.defined:
                return True
            if n in self.ctors:
                return True
            c = self.contracts.get(n)
            return bool(c and c.total)
        if isinstance(f, ast.Attribute):
            if f.attr in ("startswith", "endswith", "keys", "values", "items", "intersection", "union", "get"):
                return True
            # a method all of whose contracts (whatever the receiver's class) are total: no requires, no raises
            cands = [c for k, c in self.contracts.items() if k.split("@")[0].split(".")[-1] == f.attr and not c.is_lemma]
            return bool(cands) and all(c.total for c in cands)
        return False

    # ------------------------------------------------------------------ calls
    def call(self, eng, node: ast.Call, st):
        f = node.func
        if any(isinstance(a, ast.Starred) for a in node.args) or any(k.arg is None for k in node.keywords):
            return self.call_starred(eng, node, st)
        # ---- plain names
        if isinstance(f, ast.Name):
            n = f.id
            if n in ("forall", "exists") and eng.spec:
                return [(st, self.quantifier(eng, n, node, st))]
            if n == "old" and eng.spec:
                return [(st, self.old(eng, node, st))]
            if n == "new" and eng.spec:
                cls = node.args[0].id
                layout = OBJ_LAYOUT[cls]
                fields = {k.arg: eng.typed(eng.ev1(k.value, st), layout[k.arg]) for k in node.keywords}
                if set(fields) != set(layout):
                    raise ContractDrift(f"new({cls}): fields {sorted(fields)} != layout {sorted(layout)}")
                return [(st, V(("obj", cls), fields))]
            if n == "pre" and eng.spec:
                return [(st, self.pre(eng, node, st))]
            if n == "setof" and eng.spec:
                return [(st, self.setof(eng, node, st))]
            if n in ("any", "all") and len(node.args) == 1 and isinstance(node.args[0], (ast.GeneratorExp, ast.ListComp)):
                return [(st, self.any_all_gen(eng, n, node.args[0], st))]
            if n == "isinstance" and len(node.args) == 2:
                from .builtins_model import b_isinstance
                out = []
                for s_, v_ in eng.ev(node.args[0], st):
                    out += b_isinstance(self, eng, s_, [v_], {}, node)
                return out
            if n == "defaultdict":
                return [(st, V(("dict", ("none",), ("none",)), None))]  # typed by the local's declaration (DDict)
            if n == "cast" and len(node.args) == 2:
                if eng.c is not None and "cast_not_none" in getattr(eng.c, "opts", ()) and not eng.spec:
                    # opt-in (contract option "cast_not_none"): cast(T, v) of an Optional v -- still the identity, but the contract takes on the OBLIGATION that v
                    # is not None here and the value is used as a T afterwards (a possibly-None value fails the obligation, it is never assumed away)
                    out = []
                    for s_, v_ in eng.ev(node.args[1], st):
                        if v_.t[0] == "opt":
                            eng.oblige(s_, znot(v_.x[0]), "pre@call", f"cast: value is not None@{node.lineno}", node.lineno)
                            s_.assume(znot(v_.x[0]))
                            v_ = v_.x[1]
                        out.append((s_, v_))
                    return out
                return eng.ev(node.args[1], st)  # typing.cast is the identity
            if n == "next" and len(node.args) == 1 and isinstance(node.args[0], ast.GeneratorExp):
                return self.next_gen(eng, node, st)
            out = []
            for s, vs in eng.ev_seq(list(node.args) + [k.value for k in node.keywords], st):
                args = vs[:len(node.args)]
                kwargs = {k.arg: v for k, v in zip(node.keywords, vs[len(node.args):])}
                out += self.call_named(eng, n, args, kwargs, s, node)
            return out
        # ---- attribute calls
        if (isinstance(f, ast.Attribute) and f.attr in ("update", "add") and isinstance(f.value, ast.Call) and isinstance(f.value.func, ast.Attribute)
                and f.value.func.attr == "setdefault" and len(f.value.args) == 2 and len(node.args) == 1 and not node.keywords):
            # d.setdefault(k, set()).update(xs) / .add(x):  d[k] = (d[k] if k in d else {}) | xs   (the default is a fresh empty set)
            dexpr = f.value.func.value
            out = []
            for s, (dv, kv, dflt, xs) in eng.ev_seq([dexpr, f.value.args[0], f.value.args[1], node.args[0]], st):
                if dv.t[0] != "dict" or dv.x is None or dv.t[2][0] not in ("set", "bag") or dflt.t[0] not in ("emptyset",):
                    raise OutOfSubset("setdefault(...).update(...) on an unsupported receiver / default")
                vt = dv.t[2]
                key = to_term(coerce(kv, dv.t[1]))
                cur = z3.If(z3.Select(dv.x[0], key), z3.Select(dv.x[1], key), z3.K(sort_of(vt[1]), FALSE))
                x = z3.Const(fresh_name("e"), sort_of(vt[1]))
                if f.attr == "add":
                    newset = z3.Store(cur, to_term(coerce(xs, vt[1])), TRUE)
                else:
                    m = self.as_membership(eng, xs) if xs.t[0] != "emptyset" else V(vt, z3.K(sort_of(vt[1]), FALSE))
                    newset = eng.mkset(s, [x], z3.Or(z3.Select(cur, x), z3.Select(m.x, x)))
                newd = V(dv.t, (z3.Store(dv.x[0], key, TRUE), z3.Store(dv.x[1], key, newset)))
                from .builtins_model import _store
                _store(eng, s, dexpr, newd, dv)
                out.append((s, VNONE))
            return out
        if isinstance(f, ast.Attribute):
            # super().__init__(...)
            if isinstance(f.value, ast.Call) and isinstance(f.value.func, ast.Name) and f.value.func.id == "super":
                out = []
                for s, vs in eng.ev_seq(list(node.args) + [k.value for k in node.keywords], st):
                    args = vs[:len(node.args)]
                    kwargs = {k.arg: v for k, v in zip(node.keywords, vs[len(node.args):])}
                    base = self.super_class(eng, f.attr)
                    c = self.lookup_method(base, f.attr)
                    if c is None:
                        raise OutOfSubset(f"super().{f.attr} without contract")
                    out += self.apply_contract(eng, c, [s.vars["self"]] + args, kwargs, s, node, self_expr=ast.Name(id="self", ctx=ast.Load()))
                return out
            # module.function(...): resolved through the file's imports to a contract keyed "module.function"
            if (isinstance(f.value, ast.Name) and f.value.id not in st.vars and f.value.id not in eng.bound and eng.mod is not None
                    and eng.mod.imports.get(f.value.id, (None, 0))[1] is None and f.value.id in eng.mod.imports):
                modname = eng.mod.imports[f.value.id][0]
                c = self.contracts.get(f"{modname}.{f.attr}")
                if c is None:
                    raise OutOfSubset(f"no contract for library function {modname}.{f.attr} (line {node.lineno})")
                out = []
                for s, vs in eng.ev_seq(list(node.args) + [k.value for k in node.keywords], st):
                    args = vs[:len(node.args)]
                    kwargs = {k.arg: v for k, v in zip(node.keywords, vs[len(node.args):])}
                    out += self.apply_contract(eng, c, args, kwargs, s, node)
                return out
            # package.module.function(...), e.g. os.path.dirname: a dotted chain rooted in an imported module, resolved to a contract keyed by the dotted name
            if isinstance(f.value, ast.Attribute):
                chain, base = [f.attr], f.value
                while isinstance(base, ast.Attribute):
                    chain.append(base.attr)
                    base = base.value
                if (isinstance(base, ast.Name) and base.id not in st.vars and base.id not in eng.bound and eng.mod is not None
                        and base.id in eng.mod.imports and eng.mod.imports[base.id][1] is None):
                    dotted = ".".join([eng.mod.imports[base.id][0]] + chain[::-1])
                    c = self.contracts.get(dotted)
                    if c is None:
                        raise OutOfSubset(f"no contract for library function {dotted} (line {node.lineno})")
                    out = []
                    for s, vs in eng.ev_seq(list(node.args) + [k.value for k in node.keywords], st):
                        args = vs[:len(node.args)]
                        kwargs = {k.arg: v for k, v in zip(node.keywords, vs[len(node.args):])}
                        out += self.apply_contract(eng, c, args, kwargs, s, node)
                    return out
            # cls.method(...) / ClassName.method(...)
            if isinstance(f.value, ast.Name) and (f.value.id == "cls" or (f.value.id not in st.vars and f.value.id not in eng.bound and self.is_class(f.value.id, eng))):
                clsname = eng.cls if f.value.id == "cls" else f.value.id
                c = self.lookup_method(clsname, f.attr)
                if c is None:
                    raise OutOfSubset(f"no contract for {clsname}.{f.attr} (line {node.lineno})")
                out = []
                for s, vs in eng.ev_seq(list(node.args) + [k.value for k in node.keywords], st):
                    args = vs[:len(node.args)]
                    kwargs = {k.arg: v for k, v in zip(node.keywords, vs[len(node.args):])}
                    pre = [] if c.kind in ("classmethod", "staticmethod") else []
                    out += self.apply_contract(eng, c, pre + args, kwargs, s, node)
                return out
            out = []
            for s, vs in eng.ev_seq([f.value] + list(node.args) + [k.value for k in node.keywords], st):
                recv = vs[0]
                args = vs[1:1 + len(node.args)]
                kwargs = {k.arg: v for k, v in zip(node.keywords, vs[1 + len(node.args):])}
                out += self.call_method(eng, s, recv, f.attr, args, kwargs, node, recv_expr=f.value)
            return out
        raise OutOfSubset(f"call of {type(f).__name__}")

    def call_starred(self, eng, node, st):
        """f(a, ..., **mapping) / obj.m(a, ..., **mapping): modelled only when the mapping is the ONLY keyword part and the callee's contract declares which
        parameter receives it (opts 'star_kwargs:<param>'; the callee gets its own copy, so mutations of it are not written back). Everything else is refused."""
        if any(isinstance(a, ast.Starred) for a in node.args) or len(node.keywords) != 1 or node.keywords[0].arg is not None:
            raise OutOfSubset(f"starred call at line {node.lineno}")
        mapping_expr = node.keywords[0].value
        f = node.func

        def apply(c, args, mapping, s, self_expr):
            star = [o.split(":", 1)[1] for o in c.opts if o.startswith("star_kwargs:")]
            if len(star) != 1 or mapping.t[0] != "dict" or mapping.x is None:
                raise OutOfSubset(f"**mapping passed to {c.key}, whose contract declares no star_kwargs parameter (line {node.lineno})")
            return self.apply_contract(eng, c, args, {star[0]: mapping}, s, node, self_expr=self_expr)
        out = []
        if isinstance(f, ast.Name) and f.id not in st.vars and f.id not in eng.bound:
            c = self.contracts.get(f.id)
            if c is None:
                raise OutOfSubset(f"call of unknown function {f.id} at line {node.lineno}")
            self.check_resolution(eng, f.id, c)
            for s, vs in eng.ev_seq(list(node.args) + [mapping_expr], st):
                out += apply(c, vs[:-1], vs[-1], s, None)
            return out
        if isinstance(f, ast.Attribute):
            for s, vs in eng.ev_seq([f.value] + list(node.args) + [mapping_expr], st):
                fam = self.family_of(vs[0])
                c = self.lookup_method(fam, f.attr) if fam is not None else None
                if c is None or c.kind != "method":
                    raise OutOfSubset(f"no contract for {fam}.{f.attr} (line {node.lineno})")
                out += apply(c, vs[:-1], vs[-1], s, f.value)
            return out
        raise OutOfSubset(f"starred call at line {node.lineno}")

    def is_class(self, name, eng):
        if any(k.startswith(name + ".") for k in self.contracts):
            return True
        return name in self.class_bases or name in OBJ_LAYOUT or name in self.ctors or (eng.mod is not None and name in eng.mod.classes)

    def super_class(self, eng, attr):
        for b in self.class_bases.get(eng.cls, []):
            if self.lookup_method(b, attr) is not None:
                return b
        raise OutOfSubset(f"super() of {eng.cls}")

    def _all_bases(self, cls):
        out, todo = set(), [cls]
        while todo:
            c = todo.pop()
            for b in self.class_bases.get(c, []):
                if b not in out:
                    out.add(b)
                    todo.append(b)
        return out

    def lookup_method(self, cls, attr):
        seen = set()
        todo = [cls]
        while todo:
            c = todo.pop(0)
            if c in seen or c is None:
                continue
            seen.add(c)
            k = f"{c}.{attr}"
            if k in self.contracts:
                return self.contracts[k]
            todo += self.class_bases.get(c, [])
        return None

    def call_named(self, eng, n, args, kwargs, st, node):
        if n in st.vars and st.vars[n].t[0] == "closure":
            return eng.apply_closure(st.vars[n], args, st)
        if n in st.vars and st.vars[n].t[0] == "boundmethod":
            recv, attr, rexpr = st.vars[n].x
            return self.call_method(eng, st, recv, attr, args, kwargs, node, recv_expr=rexpr)
        if n in eng.bound and eng.bound[n].t[0] == "closure":
            return eng.apply_closure(eng.bound[n], args, st)
        for env in (eng.bound, st.vars):
            if n in env and env[n].t[0] == "opaque" and env[n].t[1] in vals.LAM_CAPS and not eng.spec:
                if kwargs:
                    raise OutOfSubset("keyword arguments in the application of a stored closure")
                return eng.apply_lam(env[n], args, st)
        if eng.spec and n in self.defined:
            return [(st, self.defined_app(eng, n, args, st))]
        if eng.spec and n in self.macros:
            return [(st, self.expand_macro(eng, n, args, st))]
        if n in self.specfuns and (eng.spec or n in self.code_visible_specfuns):
            return [(st, self.specfuns[n](eng, st, *args, **kwargs))]
        from .builtins_model import BUILTINS
        if n in BUILTINS:
            return BUILTINS[n](self, eng, st, args, kwargs, node)
        if n in self.ctors:
            return self.ctors[n](self, eng, st, args, kwargs, node)
        c = self.contracts.get(n)
        if c is not None:
            self.check_resolution(eng, n, c)
            return self.apply_contract(eng, c, args, kwargs, st, node)
        init = self.lookup_method(n, "__init__") if n in OBJ_LAYOUT else None
        if init is not None:
            return self.instantiate(eng, n, init, args, kwargs, st, node)
        if eng.spec and n in self.specfuns:
            return [(st, self.specfuns[n](eng, st, *args, **kwargs))]
        raise OutOfSubset(f"call of unknown function {n} at line {getattr(node, 'lineno', '?')}")

    code_visible_specfuns = set()
    module_constants = {}   # "module.NAME" -> value, for <imported module>.<CONSTANT> expressions (e.g. re.DOTALL)
    upcasts = {}   # (record type, opaque interface type) -> z3 function: a record viewed as an object of the abstract interface it implements

    def instantiate(self, eng, cls, init, args, kwargs, st, node):
        """ClassName(args): a fresh record initialised by the contract of __init__."""
        tmp = fresh_name("__new").replace("!", "_")
        st.vars[tmp] = fresh(("obj", cls), cls.lower())
        tmp_expr = ast.Name(id=tmp, ctx=ast.Load())
        out = []
        for s, _ in self.apply_contract(eng, init, [st.vars[tmp]] + list(args), kwargs, st, node, self_expr=tmp_expr):
            obj = s.vars.pop(tmp)
            out.append((s, obj))
        return out

    def check_resolution(self, eng, name, c):
        """The name called in the source must resolve to the module the contract is for."""
        if eng.mod is None or c.module is None or eng.spec:
            return
        if name in eng.mod.functions and eng.mod.modname == c.module:
            return
        imp = eng.mod.imports.get(name)
        if imp is not None and imp[0] == c.module:
            return
        if imp is None and name not in eng.mod.functions:
            return  # ghost programs (lemmas) call by bare name
        raise ContractDrift(f"{name} in {eng.mod.modname} resolves to {imp}, contract is for {c.module}")

    def expand_macro(self, eng, n, args, st):
        params, body = self.macros[n]
        if len(params) != len(args):
            raise ContractDrift(f"macro {n} arity")
        saved = dict(eng.bound)
        eng.bound.update(dict(zip(params, args)))
        saved_spec = eng.spec
        eng.spec = True
        try:
            return eng.ev1(self.parse_spec(body), st)
        finally:
            eng.bound = saved
            eng.spec = saved_spec

    # ------------------------------------------------------------------ quantifiers & friends
    def _binders(self, eng, type_nodes, lam):
        names = [a.arg for a in lam.args.args]
        if len(names) != len(type_nodes):
            raise ContractDrift("quantifier arity")
        vs, consts = [], []
        eng.qdepth = getattr(eng, "qdepth", 0) + 1
        try:
            for nm, tn in zip(names, type_nodes):
                t = parse_type(ast.unparse(tn))
                if t[0] == "obj":
                    # a quantifier over records binds ONE variable of the record's snapshot sort; its fields are the accessor terms
                    c_ = eng.bv(nm, sort_of(t))
                    vs.append(from_term(t, c_))
                    consts.append(c_)
                    continue
                v = eng.bvar(nm, t)
                vs.append(v)
                consts += self.consts_of(v)
        finally:
            eng.qdepth -= 1
        return names, vs, consts

    def consts_of(self, v):
        k = v.t[0]
        if k == "tuple":
            r = []
            for e in v.x:
                r += self.consts_of(e)
            return r
        if k == "opt":
            return [v.x[0]] + self.consts_of(v.x[1])
        if k == "dict":
            return list(v.x)
        if k == "obj":
            return [t for f in sorted(v.x) for t in self.consts_of(v.x[f])]
        return [v.x]

    def quantifier(self, eng, which, node, st):
        lam = node.args[-1]
        if not isinstance(lam, ast.Lambda):
            raise ContractDrift("quantifier needs a lambda")
        names, vs, consts = self._binders(eng, node.args[:-1], lam)
        saved = dict(eng.bound)
        eng.bound.update(dict(zip(names, vs)))
        eng.qdepth = getattr(eng, "qdepth", 0) + 1
        npc = len(st.pc)
        try:
            body = eng.truth(eng.ev1(lam.body, st))
        finally:
            eng.bound = saved
            eng.qdepth -= 1
        if len(st.pc) != npc:
            raise OutOfSubset("definitional axiom introduced under a binder")
        return vbool(z3.ForAll(consts, body) if which == "forall" else z3.Exists(consts, body))

    def setof(self, eng, node, st):
        lam = node.args[-1]
        names, vs, consts = self._binders(eng, node.args[:-1], lam)
        if len(vs) != 1:
            raise ContractDrift("setof takes one binder")
        saved = dict(eng.bound)
        eng.bound.update(dict(zip(names, vs)))
        eng.qdepth = getattr(eng, "qdepth", 0) + 1
        try:
            body = eng.truth(eng.ev1(lam.body, st))
        finally:
            eng.bound = saved
            eng.qdepth -= 1
        v = vs[0]
        if v.t[0] == "tuple":
            s, mk, accs = __import__("pyvc.vals", fromlist=["tuple_sort"]).tuple_sort(v.t[1])
            p = z3.Const(fresh_name("p"), s)
            sub = [(c, acc(p)) for c, acc in zip(consts, accs)]
            return V(("set", v.t), eng.mkset(st, [p], z3.substitute(body, *sub)))
        return V(("set", v.t), eng.mkset(st, consts, body))

    def old(self, eng, node, st):
        s2 = State()
        s2.vars = dict(st.old)
        s2.pc = st.pc
        s2.old = st.old
        return eng.ev1(node.args[0], s2)

    def pre(self, eng, node, st):
        """Value of an expression at the entry of the loop whose invariant is being evaluated."""
        ev_ = getattr(eng, "_entry_vars", None)
        if ev_ is None:
            raise ContractDrift("pre(...) outside a loop invariant")
        s2 = State()
        s2.vars = dict(ev_)
        s2.pc = st.pc
        s2.old = st.old
        return eng.ev1(node.args[0], s2)

    def gen_binding(self, eng, gens, st):
        """Bind comprehension generators over symbolic collections.
        Returns (consts, membership condition, cleanup) or None when all generators are concrete lists."""
        raise NotImplementedError

    def any_all_gen(self, eng, which, gen, st):
        items = self.comp_items(eng, gen, st)
        if items["concrete"] is not None:
            vals_ = [eng.truth(v) for v in items["concrete"]]
            return vbool(zor(*vals_) if which == "any" else zand(*vals_))
        body = eng.truth(items["elt"])
        if which == "any":
            return vbool(z3.Exists(items["consts"], z3.And(items["member"], body)))
        return vbool(z3.ForAll(items["consts"], z3.Implies(items["member"], body)))

    def comp_items(self, eng, node, st):
        """Analyse a comprehension. Concrete iteration -> list of element values;
        symbolic -> bound constants, membership condition and element value (under the binders)."""
        gens = node.generators
        if any(g.is_async for g in gens):
            raise OutOfSubset("async comprehension")
        # try fully concrete
        def _is_zip(it):
            return isinstance(it, ast.Call) and isinstance(it.func, ast.Name) and it.func.id == "zip" and len(it.args) == 2 and not it.keywords
        first = eng.ev1(gens[0].iter, st) if not (_is_zip(gens[0].iter) and not eng.spec) else V(("zip",), None)
        if first.t[0] in ("list", "tuple") and len(gens) == 1:
            out = []
            saved = dict(eng.bound)
            symbolic_filter = False
            try:
                for e in first.x:
                    self.bind_target(eng, gens[0].target, e)
                    conds = [eng.truth(eng.ev1(c, st)) for c in gens[0].ifs]
                    cond = z3.simplify(zand(*conds)) if conds else TRUE
                    if z3.is_false(cond):
                        continue
                    if not z3.is_true(cond):
                        symbolic_filter = True  # fall back to the membership view of the list
                        break
                    elt = node.elt if not isinstance(node, ast.DictComp) else ast.Tuple(elts=[node.key, node.value], ctx=ast.Load())
                    out.append(eng.ev1(elt, st))
            finally:
                eng.bound = saved
            if not symbolic_filter:
                return dict(concrete=out)
            if not first.x:
                return dict(concrete=[])
        consts, member = [], []
        saved = dict(eng.bound)
        eng.qdepth = getattr(eng, "qdepth", 0) + 1
        npc = len(st.pc)
        ctx = dict(consts=consts, member=member, raises=[])
        eng._comp_ctx = getattr(eng, "_comp_ctx", []) + [ctx]
        try:
            for gi, g in enumerate(gens):
                if (isinstance(g.iter, ast.Call) and isinstance(g.iter.func, ast.Attribute) and g.iter.func.attr == "items"
                        and not g.iter.args):
                    dv = eng.ev1(g.iter.func.value, st)
                    if dv.t[0] == "dict":
                        # iterate keys only: the value is a function of the key (no quantification over values)
                        kx = eng.bvar(f"c{gi}!k", dv.t[1])
                        consts += self.consts_of(kx)
                        member.append(z3.Select(dv.x[0], to_term(kx)))
                        val = from_term(dv.t[2], z3.Select(dv.x[1], to_term(kx)))
                        self.bind_target(eng, g.target, V(("tuple", (dv.t[1], dv.t[2])), (kx, val)))
                        for c in g.ifs:
                            member.append(eng.truth(eng.ev1(c, st)))
                        continue
                if (isinstance(g.iter, ast.Call) and isinstance(g.iter.func, ast.Name) and g.iter.func.id == "zip" and len(g.iter.args) == 2
                        and not g.iter.keywords and not eng.spec):
                    za, zb = (eng.ev1(a_, st) for a_ in g.iter.args)
                    if za.t[0] == "aseq" and zb.t[0] == "aseq":
                        zi = eng.bvar(f"c{gi}!zip", ("int",))
                        consts += self.consts_of(zi)
                        member.append(z3.And(zi.x >= 0, zi.x < za.x[0], zi.x < zb.x[0]))
                        self.bind_target(eng, g.target, V(("tuple", (za.t[1], zb.t[1])), (from_term(za.t[1], z3.Select(za.x[1], zi.x)), from_term(zb.t[1], z3.Select(zb.x[1], zi.x)))))
                        for c in g.ifs:
                            member.append(eng.truth(eng.ev1(c, st)))
                        continue
                    if za.t[0] == "seq" and zb.t[0] == "seq":
                        # zip(xs, ys) over two sequences: positions 0 .. min(len) - 1, the i-th item is (xs[i], ys[i])
                        zi = eng.bvar(f"c{gi}!zip", ("int",))
                        consts += self.consts_of(zi)
                        member.append(z3.And(zi.x >= 0, zi.x < z3.Length(za.x), zi.x < z3.Length(zb.x)))
                        self.bind_target(eng, g.target, V(("tuple", (za.t[1], zb.t[1])), (from_term(za.t[1], za.x[zi.x]), from_term(zb.t[1], zb.x[zi.x]))))
                        for c in g.ifs:
                            member.append(eng.truth(eng.ev1(c, st)))
                        continue
                    raise OutOfSubset(f"zip over {za.t}, {zb.t} in a comprehension (only two sequences are modelled)")
                coll = first if gi == 0 else eng.ev1(g.iter, st)
                coll = self.as_membership(eng, coll)
                et = coll.t[1]
                x = eng.bvar(f"c{gi}!" + (g.target.id if isinstance(g.target, ast.Name) else "t"), et)
                consts += self.consts_of(x)
                member.append(z3.Select(coll.x, to_term(x)))
                self.bind_target(eng, g.target, x)
                for c in g.ifs:
                    member.append(eng.truth(eng.ev1(c, st)))
            elt = node.elt if not isinstance(node, ast.DictComp) else ast.Tuple(elts=[node.key, node.value], ctx=ast.Load())
            ev = eng.ev1(elt, st)
        finally:
            eng.bound = saved
            eng.qdepth -= 1
            eng._comp_ctx = eng._comp_ctx[:-1]
        if len(st.pc) != npc:
            raise OutOfSubset("definitional axiom introduced under a binder")
        # calls inside the comprehension whose contract may raise: the comprehension raises iff SOME iteration reaches a raising call
        for exc, t, mem, cs_, lineno in ctx["raises"]:
            if eng.spec or len(eng._comp_ctx) > 0:
                raise OutOfSubset("raising call in a nested / specification comprehension")
            cond = z3.Exists(cs_, z3.And(*(mem + [t]))) if cs_ else z3.And(*(mem + [t]))
            s_r = st.fork()
            s_r.assume(cond)
            if feasible(s_r):
                eng.do_raise(s_r, exc, lineno)
            st.assume(z3.Not(cond))
        return dict(concrete=None, consts=consts, member=zand(*member), elt=ev)

    def as_membership(self, eng, coll):
        k = coll.t[0]
        if k in ("set", "bag"):
            return coll
        if k == "dict":
            return V(("bag", coll.t[1]), coll.x[0])
        if k == "seq":
            return coerce(coll, ("bag", coll.t[1]))
        if k == "list":
            if not coll.x:
                raise OutOfSubset("comprehension over empty concrete list")
            return coerce(coll, ("bag", coll.x[0].t))
        if k == "opt":
            return self.as_membership(eng, coll.x[1])
        raise OutOfSubset(f"iteration over {coll.t}")

    def bind_target(self, eng, target, v):
        if isinstance(target, ast.Name):
            eng.bound[target.id] = v
        elif isinstance(target, (ast.Tuple, ast.List)):
            if v.t[0] != "tuple" or len(v.x) != len(target.elts):
                raise OutOfSubset("comprehension target unpacking")
            for t, e in zip(target.elts, v.x):
                self.bind_target(eng, t, e)
        else:
            raise OutOfSubset("comprehension target")

    def comprehension(self, eng, node, st, kind):
        items = self.comp_items(eng, node, st)
        if items["concrete"] is not None:
            if kind == "set":
                if not items["concrete"]:
                    return [(st, V(("emptyset",), None))]
                t = ("set", items["concrete"][0].t)
                return [(st, coerce(V(("list",), items["concrete"]), t))]
            return [(st, V(("list",), items["concrete"]))]
        elt = items["elt"]
        et = elt.t
        if et[0] == "obj" and not isinstance(node.elt, ast.Call):
            raise OutOfSubset("comprehension element is a record that is still reachable under a name (records are collected by value)")
        y = z3.Const(fresh_name("y"), sort_of(et))
        body = z3.Exists(items["consts"], z3.And(items["member"], y == to_term(elt)))
        arr = eng.mkset(st, [y], body)
        if self._comp_is_duplicate_free(eng, node, st):
            eng.nodup.add(arr.get_id())
            eng._nodup_keep.append(arr)
        return [(st, V((kind, et), arr))]

    def _comp_is_duplicate_free(self, eng, node, st):
        """[k for k, v in d.items() if ...] / [k for k in d ...] / [x for x in <set> ...]: one generator over a duplicate-free source, the element is
        the iteration variable (the key) itself -> the resulting LIST has no duplicates, so its len() is the cardinality of its element set."""
        if len(node.generators) != 1 or isinstance(node, ast.DictComp) or not isinstance(node.elt, ast.Name):
            return False
        g = node.generators[0]
        it = g.iter
        if isinstance(it, ast.Call) and isinstance(it.func, ast.Attribute) and it.func.attr in ("items", "keys") and not it.args:
            src = eng.ev1(it.func.value, st)
            if src.t[0] != "dict":
                return False
            key_name = g.target.elts[0].id if (it.func.attr == "items" and isinstance(g.target, ast.Tuple) and isinstance(g.target.elts[0], ast.Name)) else \
                (g.target.id if it.func.attr == "keys" and isinstance(g.target, ast.Name) else None)
            return key_name is not None and node.elt.id == key_name
        src = eng.ev1(it, st)
        return src.t[0] in ("set", "dict") and isinstance(g.target, ast.Name) and node.elt.id == g.target.id

    def dict_comprehension(self, eng, node, st):
        items = self.comp_items(eng, node, st)
        if items["concrete"] is not None:
            raise OutOfSubset("dict comprehension over concrete list")
        kv = items["elt"]
        k, v = kv.x
        if k.t[0] == "opt":
            # keys of Optional type: the comprehension's own filter must exclude None (proved as an obligation), then the key is the inner value
            eng.oblige(st, z3.ForAll(items["consts"], z3.Implies(items["member"], z3.Not(k.x[0]))), "pre@call",
                       f"dict-comprehension key is never None@{getattr(node, 'lineno', 0)}", getattr(node, "lineno", 0))
            k = k.x[1]
        kt, vt = k.t, v.t
        # functional only if keys determine values: emit that as an obligation-free requirement -> refuse otherwise
        dom_y = z3.Const(fresh_name("k"), sort_of(kt))
        dom = eng.mkset(st, [dom_y], z3.Exists(items["consts"], z3.And(items["member"], dom_y == to_term(k))))
        val = z3.Const(fresh_name("dcval"), z3.ArraySort(sort_of(kt), sort_of(vt)))
        # last write wins in Python; we only state: every value stored under a key comes from *some* generator item
        kk = z3.Const(fresh_name("k"), sort_of(kt))
        st.assume(z3.ForAll([kk], z3.Implies(z3.Select(dom, kk),
                  z3.Exists(items["consts"], z3.And(items["member"], kk == to_term(k), z3.Select(val, kk) == to_term(v))))))
        return [(st, V(("dict", kt, vt), (dom, val)))]

    def next_gen(self, eng, node, st):
        """next(x for x in <Seq> if cond(x)): the FIRST element in sequence order that satisfies the filter; StopIteration if none does."""
        gen = node.args[0]
        if len(gen.generators) != 1 or gen.generators[0].is_async or not isinstance(gen.generators[0].target, ast.Name) \
                or not (isinstance(gen.elt, ast.Name) and gen.elt.id == gen.generators[0].target.id):
            raise OutOfSubset("next(generator) of this shape")
        g = gen.generators[0]
        seq = eng.ev1(g.iter, st)
        if seq.t[0] != "seq":
            raise OutOfSubset(f"next(generator) over {seq.t} (order matters: needs a Seq)")
        et = seq.t[1]

        def cond_at(term_v):
            saved = dict(eng.bound)
            eng.bound[g.target.id] = term_v
            eng.qdepth = getattr(eng, "qdepth", 0) + 1
            try:
                return zand(*[eng.truth(eng.ev1(c, st)) for c in g.ifs])
            finally:
                eng.bound = saved
                eng.qdepth -= 1
        n = z3.Length(seq.x)
        j = z3.Int(fresh_name("j"))
        elem_j = from_term(et, seq.x[j])
        none_matches = z3.ForAll([j], z3.Implies(z3.And(j >= 0, j < n), z3.Not(cond_at(elem_j))))
        out = []
        s_stop = st.fork()
        s_stop.assume(none_matches)
        if feasible(s_stop):
            eng.do_raise(s_stop, "StopIteration", getattr(node, "lineno", 0))
        i = z3.Int(fresh_name("first"))
        elem_i = from_term(et, seq.x[i])
        st.assume(z3.And(i >= 0, i < n))
        st.assume(cond_at(elem_i))
        st.assume(z3.ForAll([j], z3.Implies(z3.And(j >= 0, j < i), z3.Not(cond_at(elem_j)))))
        out.append((st, elem_i))
        return out

    # ------------------------------------------------------------------ methods
    def call_method(self, eng, st, recv: V, attr, args, kwargs, node, is_property=False, recv_expr=None):
        from .builtins_model import METHODS
        k = recv.t[0]
        if k == "obj" and attr in recv.x and not is_property:
            fv = recv.x[attr]
            if fv.t[0] == "closure":
                return eng.apply_closure(fv, args, st)
            if fv.t[0] == "opaque":
                return self.call_method(eng, st, fv, "__call__", args, kwargs, node)
            raise OutOfSubset(f"call of field {attr} of type {fv.t}")
        if k in METHODS and attr in METHODS[k]:
            return METHODS[k][attr](self, eng, st, recv, args, kwargs, node, recv_expr)
        if k == "opt":
            isnone, inner = recv.x
            if not eng.spec:
                s_none = st.fork()
                s_none.assume(isnone)
                if feasible(s_none):
                    eng.do_raise(s_none, "AttributeError", getattr(node, "lineno", 0))
                st.assume(znot(isnone))
            if inner.t[0] in METHODS and attr in METHODS[inner.t[0]]:
                # mutation through an Optional holder: write back into the holder
                res = METHODS[inner.t[0]][attr](self, eng, st, inner, args, kwargs, node, ("opt-inner", recv_expr))
                return res
            return self.call_method(eng, st, inner, attr, args, kwargs, node, is_property, recv_expr)
        fam = self.family_of(recv)
        rx = recv_expr if recv_expr is not None else (node.value if isinstance(node, ast.Attribute) else None)
        if isinstance(rx, ast.Name) and rx.id == "self" and eng.cls and not eng.spec and recv.t[0] != "obj":
            fam = eng.cls  # dynamic class of self is the class under verification
        if fam is None:
            raise OutOfSubset(f"method {attr} on {recv.t} (line {getattr(node, 'lineno', '?')})")
        c = self.lookup_method(fam, attr)
        if c is None:
            raise OutOfSubset(f"no contract for {fam}.{attr} (line {getattr(node, 'lineno', '?')})")
        if is_property and c.kind != "property":
            raise OutOfSubset(f"bound method {fam}.{attr} used as a value")
        if c.kind in ("classmethod", "staticmethod"):
            return self.apply_contract(eng, c, list(args), kwargs, st, node)
        return self.apply_contract(eng, c, [recv] + list(args), kwargs, st, node, self_expr=recv_expr)

    def family_of(self, v):
        k = v.t[0]
        if k == "obj":
            return v.t[1]
        if k == "data":
            return self.method_family.get(v.t[1], v.t[1])
        if k == "graph":
            return "AbstractGraph"
        if k == "opaque":
            return self.method_family.get(v.t[1], v.t[1])
        return None

    # ------------------------------------------------------------------ the call rule
    def apply_contract(self, eng, c: Contract, args, kwargs, st, node, self_expr=None):
        # opts=["callee:<key>=<key>@<tag>"] of the function being verified: at ITS call sites use another contract of the SAME callee function
        # (e.g. the Seq-valued contract of get_parent_modules instead of the Bag-valued one); anything else is refused
        for o in (getattr(getattr(eng, "c", None), "opts", ()) or ()):
            if o.startswith("callee:") and o[7:].split("=", 1)[0] == c.key:
                alt_ = self.contracts.get(o.split("=", 1)[1])
                if alt_ is None or alt_.qualname.split("@")[0] != c.qualname.split("@")[0] or (alt_.module or c.module) != (c.module or alt_.module) or alt_.kind != c.kind:
                    raise ContractDrift(f"callee variant {o}: not a contract of the same function")
                c = alt_
                break
        try:
            return self._apply_contract(eng, c, args, kwargs, st, node, self_expr)
        except BindMismatch:
            alt = getattr(c, "alt", None)
            if alt is None:
                raise
            return self.apply_contract(eng, alt, args, kwargs, st, node, self_expr)

    def bag_as_seq(self, st, v, t):
        """A list known only in bag view (its element set) handed to a callee that reads it as a sequence: SOME sequence with exactly these
        elements, in an unknown order, possibly with repetitions (sound: the bag view abstracts a real Python list)."""
        from .vals import _compatible
        if not _compatible(v.t[1], t[1]):
            raise TypeError(f"cannot view {v.t} as {t}")
        s = z3.Const(fresh_name("aslist"), sort_of(t))
        j = z3.Int(fresh_name("j"))
        x = z3.Const(fresh_name("e"), sort_of(t[1]))
        pos = z3.Function(fresh_name("posof"), sort_of(t[1]), z3.IntSort())
        st.assume(z3.ForAll([j], z3.Implies(z3.And(0 <= j, j < z3.Length(s)), z3.Select(v.x, s[j]))))
        st.assume(z3.ForAll([x], z3.Implies(z3.Select(v.x, x), z3.And(0 <= pos(x), pos(x) < z3.Length(s), s[pos(x)] == x))))
        return V(t, s)

    def _apply_contract(self, eng, c: Contract, args, kwargs, st, node, self_expr=None):
        eng.callees.add(c.key)
        """Modular call: assert pre, fork on each raises-condition, assume post. The callee body is never inspected."""
        lineno = getattr(node, "lineno", 0)
        pnames = list(c.params)
        if len(args) > len(pnames):
            raise BindMismatch(f"{c.key}: too many arguments")   # (a ContractDrift) -- lets an alternative contract with more parameters bind
        bound = {}
        for n, a in zip(pnames, args):
            bound[n] = a
        for k, a in kwargs.items():
            if k not in c.params or k in bound:
                raise ContractDrift(f"{c.key}: bad keyword {k}")
            bound[k] = a
        cs = State()
        sub_self = None
        cs.pc = st.pc  # shared: assumptions land in the caller
        sub_orig = {}
        for n in pnames:
            if n not in bound and n.startswith("ghost_"):
                # ghost state (a log of calls into an assumed library): never passed by the code, threaded from the caller's ghost parameter of the same name
                if n not in st.vars:
                    raise ContractDrift(f"{c.key}: ghost state {n} is not threaded through the caller (declare it as a ghost parameter of the caller's contract)")
                bound[n] = st.vars[n]
            if n not in bound:
                if n not in c.defaults:
                    raise ContractDrift(f"{c.key}: missing argument {n}")
                saved, saved_mod = eng.spec, eng.mod
                eng.spec = True
                if c.module is not None:
                    eng.mod = extract.module(c.module)   # a default is evaluated in the scope of the function that declares it
                try:
                    bound[n] = eng.ev1(self.parse_spec(c.defaults[n]), cs)
                finally:
                    eng.spec, eng.mod = saved, saved_mod
            try:
                a_ = bound[n]
                if (a_.t[0] == "obj" and c.params[n][0] == "obj" and a_.t != c.params[n] and c.params[n][1] in OBJ_LAYOUT
                        and c.params[n][1] in self._all_bases(a_.t[1]) and all(f in a_.x for f in OBJ_LAYOUT[c.params[n][1]])):
                    # a subclass instance passed where the contract speaks about the base class: its base-class fields
                    # (a MUTATING base-class contract, e.g. super().__init__: only the base-class fields are havocked / written back,
                    # the subclass's own fields are outside the base method's frame and keep their values)
                    if n in c.modifies:
                        sub_orig[n] = a_
                    a_ = V(c.params[n], {f: a_.x[f] for f in OBJ_LAYOUT[c.params[n][1]]})
                elif (a_.t[0] == "obj" and c.params[n][0] == "obj" and a_.t != c.params[n] and c.params[n][1] in OBJ_LAYOUT
                        and c.params[n][1] in self._all_bases(a_.t[1]) and all(f in a_.x for f in OBJ_LAYOUT[c.params[n][1]])
                        and n in c.modifies and n == "self" and c.key.endswith(".__init__")):
                    # super().__init__(...) of a subclass record: the base-class constructor contract acts on the base-class fields, the subclass's own fields are untouched
                    sub_self = a_
                    a_ = V(c.params[n], {f: a_.x[f] for f in OBJ_LAYOUT[c.params[n][1]]})
                if a_.t[0] == "opt" and c.params[n][0] not in ("opt", "closure") and c.params[n] != ("opaque", "Any"):
                    if not eng.spec:
                        eng.oblige(st, znot(a_.x[0]), "pre@call", f"pre@call[{c.key}@{lineno}:{n} is not None]", lineno)
                    a_ = a_.x[1]
                if a_.t[0] == "bag" and c.params[n][0] == "seq" and not eng.spec and getattr(eng, "qdepth", 0) == 0:
                    a_ = self.bag_as_seq(st, a_, c.params[n])
                up_ = self.upcasts.get((a_.t[1], c.params[n][1])) if (a_.t[0] in ("bag", "set") and c.params[n][0] in ("bag", "set")) else None
                if up_ is not None and getattr(eng, "qdepth", 0) == 0:
                    # a collection of records passed where the contract speaks about (opaque) interface objects: the image under the registered injection
                    h_, r_ = z3.Const(fresh_name("h"), sort_of(c.params[n][1])), z3.Const(fresh_name("r"), sort_of(a_.t[1]))
                    a_ = V(c.params[n], eng.mkset(st, [h_], z3.Exists([r_], z3.And(z3.Select(a_.x, r_), h_ == up_(r_)))))
                cs.vars[n] = coerce(a_, c.params[n]) if c.params[n][0] != "closure" and c.params[n] != ("opaque", "Any") else a_
            except TypeError as e:
                raise BindMismatch(f"{c.key}: argument {n}: {e} (line {lineno})")
        cs.old = {k: deep_copy(v) for k, v in cs.vars.items()}
        if c.inline and not eng.spec:
            if getattr(eng, "qdepth", 0) > 0:
                raise OutOfSubset(f"inlined helper {c.key} under a binder")
            arg_exprs = {}
            is_method = self_expr is not None
            for i_, pn_ in enumerate(pnames):
                if is_method and i_ == 0:
                    arg_exprs[pn_] = self_expr
                else:
                    ai_ = i_ - (1 if is_method else 0)
                    if isinstance(node, ast.Call) and ai_ < len(node.args):
                        arg_exprs[pn_] = node.args[ai_]
            return self.inline_call(eng, c, cs.vars, st, node, arg_exprs)
        if (getattr(eng, "qdepth", 0) > 0 or eng.spec or c.pure) and c.defn is None:
            # a PURE, total callee without a defining expression: its result is an uninterpreted function of its arguments,
            # axiomatised by its postcondition (forall args. requires => ensures[result := f(args)])
            if not eng.spec and getattr(eng, "qdepth", 0) == 0:
                for e, t in eng.spec_conj(c.requires, cs):
                    eng.oblige(st, t, "pre@call", f"pre@call[{c.key}@{lineno}:{e[:40]}]", lineno)
            if c.raises and c.pure and not eng.spec and getattr(eng, "qdepth", 0) == 0:
                # a pure callee that may raise, called from executed code: fork the exceptional outcomes exactly as for any other call; on the
                # normal continuation the result is the function application (whose axiom is guarded by 'no raises-condition holds')
                for exc, cond in c.raises:
                    t = zand(*[t_ for _, t_ in eng.spec_conj([cond], cs)])
                    s_r = st.fork()
                    s_r.assume(t)
                    if feasible(s_r):
                        eng.do_raise(s_r, exc, lineno)
                    st.assume(znot(t))
                return [(st, self.pure_fn_app(eng, c, cs, lineno, raises_handled=True))]
            return [(st, self.pure_fn_app(eng, c, cs, lineno))]
        saved_res = eng.result
        saved_bound = eng.bound
        if c.defn is None:
            eng.bound = {k: v for k, v in eng.bound.items() if k not in cs.vars} if False else eng.bound
        try:
            # preconditions
            if not eng.spec:
                for e, t in eng.spec_conj(c.requires, cs):
                    eng.oblige(st, t, "pre@call", f"pre@call[{c.key}@{lineno}:{e[:40]}]", lineno)
            out = []
            # exceptional outcomes: raised iff condition
            conds = []
            under_binder = False
            for exc, cond in c.raises:
                t = zand(*[t_ for _, t_ in eng.spec_conj([cond], cs)])
                if getattr(eng, "qdepth", 0) > 0 and not eng.spec and getattr(eng, "_comp_ctx", None):
                    cx = eng._comp_ctx[-1]
                    cx["raises"].append((exc, t, list(cx["member"]), list(cx["consts"]), lineno))
                    under_binder = True
                    continue
                conds.append(t)
                if eng.spec:
                    continue
                s_r = st.fork()
                s_r.assume(t)
                if feasible(s_r):
                    payload = None
                    if exc in c.payloads:
                        saved_ = eng.spec
                        eng.spec = True
                        try:
                            payload = eng.ev1(self.parse_spec(c.payloads[exc]), cs)
                        finally:
                            eng.spec = saved_
                    eng.do_raise(s_r, exc, lineno, payload)
            for t in conds:
                st.assume(znot(t))
            # mutation frame
            for m in c.modifies:
                cs.vars[m] = eng.havoc_value(cs.vars[m], m)
            if c.defn is not None:
                saved = eng.spec
                eng.spec = True
                try:
                    res = eng.ev1(self.parse_spec(c.defn), cs)
                finally:
                    eng.spec = saved
                if c.returns is not None:
                    res = eng.typed(res, c.returns)
            elif c.returns is None or c.returns == ("none",):
                res = VNONE
            else:
                res = fresh(c.returns, c.key.split(".")[-1].strip("_") or "r")
                if c.returns_nodup and res.t[0] in ("bag", "set"):
                    eng.nodup.add(res.x.get_id())
                    eng._nodup_keep.append(res.x)
            eng.result = res
            # ensures of the form  <modified param>.a.b == expr  are applied as assignments (the equality would
            # force the value anyway); this keeps post-state fields the very terms the specification talks about
            rest = []
            for e in c.ensures:
                tree = self.parse_spec(e)
                tgt = None
                if (c.modifies and isinstance(tree, ast.Compare) and len(tree.ops) == 1 and isinstance(tree.ops[0], ast.Eq)
                        and isinstance(tree.comparators[0], ast.expr)):
                    tgt = self._mod_path(tree.left, c.modifies)
                if tgt is None or self._mentions_post(tree.comparators[0], c.modifies):
                    rest.append(e)
                    continue
                saved = eng.spec
                eng.spec = True
                try:
                    val = eng.ev1(tree.comparators[0], cs)
                finally:
                    eng.spec = saved
                holder = cs.vars[tgt[0]]
                for a_ in tgt[1:-1]:
                    holder = holder.x[a_]
                cur = holder.x[tgt[-1]]
                try:
                    holder.x[tgt[-1]] = deep_copy(eng.typed(val, cur.t))
                except TypeError:
                    rest.append(e)
            for e, t in eng.spec_conj(rest, cs):
                st.assume(t)
            # write back mutated arguments
            for m in c.modifies:
                if f"star_kwargs:{m}" in c.opts:
                    continue   # the callee's **kwargs dict is its own copy
                idx = pnames.index(m)
                nv_ = cs.vars[m]
                if m in sub_orig:
                    nv_ = V(sub_orig[m].t, {**sub_orig[m].x, **nv_.x})
                self.write_back(eng, st, node, idx, m, nv_, self_expr)
            out.append((st, res))
            return out
        finally:
            eng.result = saved_res
            eng.bound = saved_bound

    def pure_fn_app(self, eng, c, cs, lineno, raises_handled=False):
        scalar = ("bool", "str", "int", "node", "data", "bag", "set", "obj", "opaque")   # obj: a freshly built record, denoted by its snapshot term (vals.obj_sort)
        is_opt = c.returns is not None and c.returns[0] == "opt" and c.returns[1][0] in scalar
        in_comp = (not eng.spec) and bool(getattr(eng, "_comp_ctx", None))
        if c.modifies or (c.raises and not (in_comp or eng.spec or raises_handled)) or c.returns is None or not (c.returns[0] in scalar or is_opt):
            raise OutOfSubset(f"call of {c.key} under a binder: needs a 'defn' contract or a pure total contract with a scalar result")
        if c.raises and in_comp:
            # (in a specification the application just denotes the function; its axiom is guarded by 'no raises-condition holds')
            # inside a comprehension of the executed code: the comprehension raises iff SOME iteration meets a raises-condition (decided by comp_items);
            # on the other iterations the result is the uninterpreted function, whose axiom is guarded by 'no raises-condition holds'
            cx = eng._comp_ctx[-1]
            for exc, cond in c.raises:
                t = zand(*[t_ for _, t_ in eng.spec_conj([cond], cs)])
                cx["raises"].append((exc, t, list(cx["member"]), list(cx["consts"]), lineno))
        pnames = list(c.params)
        args = [cs.vars[n] for n in pnames]
        terms = [t for a in args for t in self.flatten(a)]
        if is_opt:
            # Optional scalar: one function for 'is None', one for the value
            key2 = c.key + "?none"
            if c.key not in self._pure_fns:
                self._pure_fns[c.key] = z3.Function("pure!" + c.key.replace(".", "_"), *[t.sort() for t in terms], sort_of(c.returns[1]))
                self._pure_fns[key2] = z3.Function("pure!" + c.key.replace(".", "_") + "_isnone", *[t.sort() for t in terms], z3.BoolSort())
            if c.ensures or c.requires:
                raise OutOfSubset(f"pure contract {c.key} with an Optional result and a postcondition")
            return V(c.returns, (self._pure_fns[key2](*terms), V(c.returns[1], self._pure_fns[c.key](*terms))))
        fn = self._pure_fns.get(c.key)
        if fn is None:
            fn = z3.Function("pure!" + c.key.replace(".", "_"), *[t.sort() for t in terms], sort_of(c.returns))
            self._pure_fns[c.key] = fn
        if ("pure", c.key) not in eng.axioms_used:
            eng.axioms_used[("pure", c.key)] = TRUE  # placeholder against re-entrance
            saved_bound, saved_spec, saved_q, saved_res = dict(eng.bound), eng.spec, getattr(eng, "qdepth", 0), eng.result
            eng.spec, eng.qdepth = True, 90
            eng.bound = {}   # the axiom is closed: no capture of binders of the call site
            try:
                pvs = {pn: eng.bvar("pf!" + pn, pt) for pn, pt in c.params.items()}
                ps = State()
                ps.vars = dict(pvs)
                ps.old = dict(pvs)
                consts = [k for v in pvs.values() for k in self.consts_of(v)]
                app = fn(*[t for v in pvs.values() for t in self.flatten(v)])
                eng.result = from_term(c.returns, app) if c.returns[0] == "obj" else V(c.returns, app)
                eng.qdepth = 91
                req = zand(*[t for _, t in eng.spec_conj(c.requires, ps)] + [znot(t) for _, cond in c.raises for _, t in [(None, zand(*[t_ for _, t_ in eng.spec_conj([cond], ps)]))]])
                ens = zand(*[t for _, t in eng.spec_conj(c.ensures, ps)])
                eng.axioms_used[("pure", c.key)] = z3.ForAll(consts, z3.Implies(req, ens), patterns=[app]) if consts else z3.Implies(req, ens)
                eng.__dict__.setdefault("axiom_defs", {})[("pure", c.key)] = fn.name()
            finally:
                eng.bound, eng.spec, eng.qdepth, eng.result = saved_bound, saved_spec, saved_q, saved_res
        return from_term(c.returns, fn(*terms)) if c.returns[0] == "obj" else V(c.returns, fn(*terms))

    _pure_fns = {}

    def _mod_path(self, node, modifies):
        path = []
        while isinstance(node, ast.Attribute):
            path.append(node.attr)
            node = node.value
        if isinstance(node, ast.Name) and node.id in modifies and path:
            return [node.id] + path[::-1]
        return None

    def _mentions_post(self, node, modifies):
        """Does the expression read a modified parameter outside old(...)? (then it is not a plain assignment)"""
        class Vis(ast.NodeVisitor):
            found = False

            def visit_Call(self, n):
                if isinstance(n.func, ast.Name) and n.func.id == "old":
                    return
                self.generic_visit(n)

            def visit_Name(self, n):
                if n.id in modifies:
                    self.found = True
        v = Vis()
        v.visit(node)
        return v.found

    def write_back(self, eng, st, node, idx, pname, newval, self_expr):
        if pname.startswith("ghost_"):
            st.vars[pname] = newval
            return
        is_method = self_expr is not None
        if is_method and idx == 0:
            target = self_expr
        else:
            ai = idx - (1 if is_method else 0)
            if isinstance(node, ast.Call) and ai < len(node.args):
                target = node.args[ai]
            else:
                kws = {k.arg: k.value for k in getattr(node, "keywords", [])}
                target = kws.get(pname)
        if target is None:
            raise OutOfSubset("mutated argument is not addressable")
        if isinstance(target, tuple):
            raise OutOfSubset("mutation through Optional receiver of contract call")
        if isinstance(target, ast.Name):
            cur = st.vars.get(target.id)
            if cur is not None and cur.t[0] == "opt" and newval.t[0] != "opt":
                newval = V(cur.t, (cur.x[0], newval))
            st.vars[target.id] = newval
        elif isinstance(target, ast.Attribute):
            holder = eng.lvalue_obj(target.value, st)
            holder.x[target.attr] = newval
        elif isinstance(target, ast.Call):
            return   # the mutated object is a temporary (e.g. Rule(...).modules_that()): only its returned value is observable
        else:
            raise OutOfSubset("mutated argument is a temporary")


def _inline_call(self, eng, c, cs_vars, st, node, arg_exprs=None):
    """Execute the callee's real body in a fresh frame (listed in the evidence as an inlined helper)."""
    from . import extract as _ex
    modctx = _ex.module(c.module)
    fn = modctx.function(c.qualname)
    if fn is None:
        raise ContractDrift(f"inlined helper {c.key} not found in {c.module}")
    eng.inlined.append(c.key)
    st.stack.append(st.vars)
    st.vars = dict(cs_vars)
    saved = (eng.c, eng.mod, eng.cls, eng.loop_ord, eng.fn)
    eng.c, eng.mod, eng.fn = c, modctx, _ex.strip(fn)
    eng.cls = c.qualname.split(".")[0] if "." in c.qualname else None
    eng.loop_ord = 0
    saved_abn = eng._abn
    try:
        finals = eng.run_block(eng.fn.body, [st])
    finally:
        eng.c, eng.mod, eng.cls, eng.loop_ord, eng.fn = saved
        eng._abn = saved_abn
    out = []
    for s in finals:
        callee_vars = s.vars
        s.vars = s.stack.pop()
        # records are passed by reference: propagate the callee's mutations of record parameters
        for pn_, ex_ in (arg_exprs or {}).items():
            pv = callee_vars.get(pn_)
            if pv is not None and pv.t[0] == "obj":
                if isinstance(ex_, ast.Name) and ex_.id in s.vars:
                    s.vars[ex_.id] = pv
                elif isinstance(ex_, ast.Attribute):
                    eng.lvalue_obj(ex_.value, s).x[ex_.attr] = pv
        if s.flow in ("normal", "return"):
            v = s.ret if s.flow == "return" else VNONE
            s.flow, s.ret = "normal", None
            out.append((s, v))
        elif s.flow == "raise":
            eng._abn.append(s)
        else:
            raise OutOfSubset("stray flow from inlined helper")
    return out


Registry.inline_call = _inline_call
