"""Discharging obligations: z3 (Python API) first, cvc5 and the system z3 take what stays unknown.

Verdicts per obligation:  proved | refuted (with model) | unknown.
'cover' obligations are vacuity guards: they must be satisfiable.
"""
from __future__ import annotations

import multiprocessing as mp
import os
import subprocess
import tempfile
import time
import z3

Z3_TIMEOUT_MS = int(os.environ.get("PYVC_Z3_TIMEOUT_MS", "8000"))
CVC5_TIMEOUT_S = int(os.environ.get("PYVC_CVC5_TIMEOUT_S", "30"))
CVC5_BIN = "/usr/bin/cvc5"
Z3_OLD_BIN = "/usr/bin/z3"


def scope_axioms(n):
    """Domain closure for every uninterpreted sort: satisfiable here => satisfiable (used for covers / models)."""
    from . import vals
    out = []
    for name, srt in vals._opaque.items():
        if srt.kind() != z3.Z3_UNINTERPRETED_SORT:
            continue
        k = 2 if name == "Graph" else n
        ds = [z3.Const(f"dom_{name}_{i}", srt) for i in range(k)]
        x = z3.Const(f"x_{name}", srt)
        out.append(z3.ForAll([x], z3.Or(*[x == d for d in ds])))
    return out


_SYMS = {}


def _symbols(e):
    """Names of the uninterpreted symbols (functions and constants) occurring in a z3 expression (memoised per AST id)."""
    key = e.get_id()
    if key in _SYMS:
        return _SYMS[key][1]
    out, todo, seen = set(), [e], set()
    while todo:
        x = todo.pop()
        i = x.get_id()
        if i in seen:
            continue
        seen.add(i)
        if z3.is_quantifier(x):
            todo.append(x.body())
        elif z3.is_app(x):
            if x.decl().kind() == z3.Z3_OP_UNINTERPRETED:
                out.add(x.decl().name())
            todo.extend(x.children())
    _SYMS[key] = (e, out)   # keep e alive: AST ids are reused after garbage collection
    return out


def relevant_hyps(o):
    """The path condition plus only those definitional axioms whose defined symbol occurs (transitively) in the obligation. The axioms are conservative
    extensions (fresh set constants, pure-function symbols, set-valued spec functions), so dropping the unused ones preserves satisfiability in both directions;
    used for the COUNTER-MODEL search only (a model of the smaller text is a model of the full one after interpreting the dropped symbols by their definitions)."""
    n_pc = getattr(o, "n_pc", len(o.hyps))
    pc, axs = o.hyps[:n_pc], o.hyps[n_pc:]
    defs = list(getattr(o, "ax_defs", [])) + [None] * len(axs)
    syms = set()
    for h in pc + [o.goal]:
        syms |= _symbols(h)
    keep = [d is None for d in defs[:len(axs)]]
    for i, k in enumerate(keep):
        if k:
            syms |= _symbols(axs[i])
    changed = True
    while changed:
        changed = False
        for i, a in enumerate(axs):
            if not keep[i] and defs[i] in syms:
                keep[i] = True
                syms |= _symbols(a)
                changed = True
    return pc + [a for a, k in zip(axs, keep) if k]


def to_smt2(hyps, goal, cover=False, scope=None):
    s = z3.Solver()
    for h in hyps:
        s.add(h)
    if not cover:
        s.add(z3.Not(goal))
    if scope:
        for a in scope_axioms(scope):
            s.add(a)
    return s.to_smt2()


def _check_z3_inproc(smt2, timeout_ms, seed, for_model=False):
    s = z3.Solver()
    s.set("timeout", timeout_ms)
    s.set("random_seed", seed)
    if for_model:
        s.set("ematching", False)
    s.from_string(smt2)
    t0 = time.time()
    r = s.check()
    dt = time.time() - t0
    model = None
    if r == z3.sat:
        try:
            model = s.model().sexpr()
        except Exception:
            model = None
    reason = s.reason_unknown() if r == z3.unknown else ""
    return str(r), dt, model, reason


HARD_GRACE_S = 10          # the API's own timeout is cooperative; after this much extra time the child is killed
HARD_MEM_BYTES = 6 << 30   # address-space limit of the child that runs the API query


def _check_z3(smt2, timeout_ms, seed, for_model=False):
    """z3 5.1 through the Python API, in a forked child under a HARD time and memory limit: the API's timeout is only checked
    cooperatively, and the sequence solver has been seen to run for 17 minutes / 7 GB on a 3 s budget (seeded change C01o). A child that
    is killed or dies counts as 'unknown' -- never as a verdict."""
    import pickle, select, signal
    rfd, wfd = os.pipe()
    t0 = time.time()
    pid = os.fork()
    if pid == 0:
        code = 0
        try:
            os.close(rfd)
            try:
                import resource
                resource.setrlimit(resource.RLIMIT_AS, (HARD_MEM_BYTES, HARD_MEM_BYTES))
            except Exception:
                pass
            try:
                out = _check_z3_inproc(smt2, timeout_ms, seed, for_model)
            except BaseException as e:  # MemoryError, Z3Exception ...
                out = ("unknown", time.time() - t0, None, f"child: {type(e).__name__}: {str(e)[:200]}")
            with os.fdopen(wfd, "wb") as fh:
                pickle.dump(out, fh)
        except BaseException:
            code = 1
        finally:
            os._exit(code)
    os.close(wfd)
    deadline = t0 + timeout_ms / 1000.0 + HARD_GRACE_S
    data = b""
    killed = False
    try:
        while True:
            left = deadline - time.time()
            if left <= 0:
                killed = True
                break
            ready, _, _ = select.select([rfd], [], [], min(left, 1.0))
            if ready:
                chunk = os.read(rfd, 1 << 16)
                if not chunk:
                    break
                data += chunk
    finally:
        os.close(rfd)
        if killed:
            try:
                os.kill(pid, signal.SIGKILL)
            except OSError:
                pass
        os.waitpid(pid, 0)
    if killed or not data:
        return "unknown", time.time() - t0, None, "hard-limit: child killed (time)" if killed else "hard-limit: child died (memory?)"
    try:
        return pickle.loads(data)
    except Exception:
        return "unknown", time.time() - t0, None, "hard-limit: unreadable child result"


def _check_cvc5(smt2, timeout_s, fmf=False):
    text = smt2.replace("(check-sat)", "")
    text = "(set-logic ALL)\n" + text + "\n(check-sat)\n"
    with tempfile.NamedTemporaryFile("w", suffix=".smt2", delete=False, dir=os.environ.get("PYVC_TMP", None)) as f:
        f.write(text)
        path = f.name
    t0 = time.time()
    try:
        flags = ["--finite-model-find"] if fmf else []
        if not fmf or "String" in smt2:
            flags.append("--strings-exp")
        p = subprocess.run([CVC5_BIN] + flags + [f"--tlimit={timeout_s * 1000}", path],
                           capture_output=True, text=True, timeout=timeout_s + 5)
        out = p.stdout.strip().splitlines()
        r = out[0] if out else "unknown"
        if r not in ("sat", "unsat"):
            r = "unknown"
    except subprocess.TimeoutExpired:
        r = "unknown"
    finally:
        os.unlink(path)
    return r, time.time() - t0


def _validated(smt2, r, timeout_s=15):
    """A 'sat' on a query with strings and quantifiers is only believed when it survives validation: the model's values
    for the string / Boolean / integer constants are asserted and the query is re-checked by the z3 API (the sequence
    solver under MBQI has returned bogus models). Anything but a confirmed 'sat' downgrades to 'unknown'."""
    if r != "sat" or "String" not in smt2:
        return r
    import re as _re
    with tempfile.NamedTemporaryFile("w", suffix=".smt2", delete=False, dir=os.environ.get("PYVC_TMP", None)) as f:
        f.write(smt2 + "\n(get-model)\n")
        path = f.name
    try:
        p = subprocess.run(["z3-new", f"-T:{timeout_s}", "smt.ematching=false", path], capture_output=True, text=True, timeout=timeout_s + 5)
        out = p.stdout
    except (subprocess.TimeoutExpired, FileNotFoundError):
        return "unknown"
    finally:
        os.unlink(path)
    if not out.startswith("sat"):
        return "unknown"
    eqs = []
    for m in _re.finditer(r'\(define-fun (\S+) \(\) (String|Bool|Int)\s+((?:"(?:[^"]|"")*")|true|false|-?\d+|\(- \d+\))\)', out):
        name = m.group(1) if _re.match(r"^[A-Za-z_][\w!.@]*$", m.group(1)) else "|" + m.group(1) + "|"
        eqs.append(f"(assert (= {name} {m.group(3)}))")
    if not eqs:
        return "unknown"
    r2, _dt, _m, _reason = _check_z3(smt2.replace("(check-sat)", "") + "\n" + "\n".join(eqs), timeout_s * 1000, 0)
    return "sat" if r2 == "sat" else "unknown"


def _check_z3_cli_model(smt2, timeout_s):
    r, dt = _check_z3_cli_model_raw(smt2, timeout_s)
    if r == "sat":
        t0 = time.time()
        r = _validated(smt2, r)
        dt += time.time() - t0
    return r, dt


def _check_z3_cli_model_raw(smt2, timeout_s):
    """z3 5.1 command line with e-matching off: the configuration that finds finite models fastest."""
    with tempfile.NamedTemporaryFile("w", suffix=".smt2", delete=False, dir=os.environ.get("PYVC_TMP", None)) as f:
        f.write(smt2)
        path = f.name
    t0 = time.time()
    try:
        p = subprocess.run(["z3-new", f"-T:{timeout_s}", "smt.ematching=false", path], capture_output=True, text=True, timeout=timeout_s + 5)
        out = p.stdout.strip().splitlines()
        r = out[0] if out else "unknown"
        if r not in ("sat", "unsat"):
            r = "unknown"
    except (subprocess.TimeoutExpired, FileNotFoundError):
        r = "unknown"
    finally:
        os.unlink(path)
    return r, time.time() - t0


def _check_z3_old(smt2, timeout_s):
    with tempfile.NamedTemporaryFile("w", suffix=".smt2", delete=False, dir=os.environ.get("PYVC_TMP", None)) as f:
        f.write(smt2)
        path = f.name
    t0 = time.time()
    try:
        p = subprocess.run([Z3_OLD_BIN, f"-T:{timeout_s}", path], capture_output=True, text=True, timeout=timeout_s + 5)
        out = p.stdout.strip().splitlines()
        r = out[0] if out else "unknown"
        if r not in ("sat", "unsat"):
            r = "unknown"
    except subprocess.TimeoutExpired:
        r = "unknown"
    finally:
        os.unlink(path)
    return r, time.time() - t0


def _model_text(smt2, timeout_s=15):
    """Model (sexpr) of a satisfiable query, for the replay of the counterexample on the real code."""
    with tempfile.NamedTemporaryFile("w", suffix=".smt2", delete=False, dir=os.environ.get("PYVC_TMP", None)) as f:
        f.write(smt2 + "\n(get-model)\n")
        path = f.name
    try:
        p = subprocess.run(["z3-new", f"-T:{timeout_s}", "smt.ematching=false", path], capture_output=True, text=True, timeout=timeout_s + 5)
        return p.stdout[p.stdout.index("\n") + 1:] if p.stdout.startswith("sat") else None
    except (subprocess.TimeoutExpired, FileNotFoundError, ValueError):
        return None
    finally:
        os.unlink(path)


def _race(smt2, z3_timeout_s, cvc5_timeout_s):
    """Run z3 (CLI, e-matching off) and cvc5 concurrently on the same SMT-LIB text; first sat/unsat wins."""
    tmpdir = os.environ.get("PYVC_TMP", None)
    with tempfile.NamedTemporaryFile("w", suffix=".smt2", delete=False, dir=tmpdir) as f:
        f.write(smt2)
        p_z3 = f.name
    with tempfile.NamedTemporaryFile("w", suffix=".smt2", delete=False, dir=tmpdir) as f:
        f.write("(set-logic ALL)\n" + smt2.replace("(check-sat)", "") + "\n(check-sat)\n")
        p_cvc = f.name
    t0 = time.time()
    procs = {}
    try:
        procs["z3-5.1-cli-noematch"] = subprocess.Popen(["z3-new", f"-T:{z3_timeout_s}", "smt.ematching=false", p_z3], stdout=subprocess.PIPE, stderr=subprocess.DEVNULL, text=True)
        procs["cvc5-1.0.3"] = subprocess.Popen([CVC5_BIN, "--strings-exp", f"--tlimit={cvc5_timeout_s * 1000}", p_cvc], stdout=subprocess.PIPE, stderr=subprocess.DEVNULL, text=True)
        if "String" in smt2:
            procs["z3-4.8.12"] = subprocess.Popen([Z3_OLD_BIN, f"-T:{cvc5_timeout_s}", p_z3], stdout=subprocess.PIPE, stderr=subprocess.DEVNULL, text=True)
            # enumerative instantiation: decides string queries whose proof needs an instance built from a term that does not occur yet (cvc5's default gives up at once)
            procs["cvc5-1.0.3-enum-inst"] = subprocess.Popen([CVC5_BIN, "--strings-exp", "--enum-inst", f"--tlimit={cvc5_timeout_s * 1000}", p_cvc], stdout=subprocess.PIPE, stderr=subprocess.DEVNULL, text=True)
    except FileNotFoundError:
        pass
    detail, final = {}, "unknown"
    deadline = t0 + max(z3_timeout_s, cvc5_timeout_s) + 5
    pending = dict(procs)
    while pending and time.time() < deadline and final == "unknown":
        for name, p in list(pending.items()):
            if p.poll() is not None:
                out = (p.stdout.read() or "").strip().splitlines()
                r = out[0] if out and out[0] in ("sat", "unsat") else "unknown"
                if r == "sat" and name.startswith("z3-4"):
                    r = "unknown"   # models of the old z3 on string queries are not validated: only its 'unsat' is used
                if r == "sat" and name.startswith("z3"):
                    r = _validated(smt2, r)
                detail[name] = dict(result=r, seconds=round(time.time() - t0, 3))
                del pending[name]
                if r in ("sat", "unsat"):
                    final = r
        if pending and final == "unknown":
            time.sleep(0.02)
    for name, p in pending.items():
        p.kill()
        p.wait()
        detail[name] = dict(result="unknown", seconds=round(time.time() - t0, 3), note="stopped: the other back end answered" if final != "unknown" else "timeout")
    for pth in (p_z3, p_cvc):
        try:
            os.unlink(pth)
        except OSError:
            pass
    return final, detail


def solve_retry(job):
    """Second chance for an obligation the first portfolio pass left undecided (run with few processes, long budgets,
    several seeds): verdicts must not flip to 'undecided' merely because the machine was busy."""
    name, smt2, cover, seed, thorough, scoped = job
    res = dict(name=name, cover=cover, backends={}, model=None)
    final = "unknown"
    for label, fn in (("retry-z3-cli-noematch", lambda: _check_z3_cli_model(smt2, 60)),
                      ("retry-z3-5.1-seed1", lambda: _check_z3(smt2, 30000, seed + 11)[:2]),
                      ("retry-cvc5", lambda: _check_cvc5(smt2, 60)),
                      ("retry-z3-5.1-seed2", lambda: _check_z3(smt2, 60000, seed + 23)[:2]),
                      ("retry-z3-4.8.12", lambda: _check_z3_old(smt2, 60))):
        r, dt = fn()
        res["backends"][label] = dict(result=r, seconds=round(dt, 3))
        if r in ("sat", "unsat"):
            final = r
            break
    if final == "sat":
        r, dt, model, reason = _check_z3(smt2, 20000, seed)
        if r == "sat":
            res["model"] = model
    res["verdict"] = {"unsat": "proved", "sat": "refuted", "unknown": "unknown"}[final]
    return res


def solve_one(job):
    """job = (name, smt2, cover, seed, thorough) -> result dict. Runs in a worker process."""
    name, smt2, cover, seed, thorough, scoped = job
    res = dict(name=name, cover=cover, backends={}, model=None)
    if cover:
        r, dt, model, reason = _check_z3(smt2, 2000, seed)
        res["backends"]["z3-5.1"] = dict(result=r, seconds=round(dt, 3), reason=reason)
        if r == "unknown":
            r, dt = _check_cvc5(smt2, CVC5_TIMEOUT_S, fmf=True)
            res["backends"]["cvc5-1.0.3-fmf"] = dict(result=r, seconds=round(dt, 3))
        if r == "unknown":
            r, dt = _check_z3_cli_model(smt2, 10)
            res["backends"]["z3-5.1-cli-noematch"] = dict(result=r, seconds=round(dt, 3))
        # sat: reachable; unsat: VACUOUS (contradictory assumptions); unknown: not shown contradictory within budget
        res["verdict"] = {"sat": "proved", "unsat": "refuted", "unknown": "cover-unknown"}[r]
        return res
    # portfolio, cheapest first; every back end sees the same SMT-LIB text
    def note(name, r, dt, **kw):
        res["backends"][name] = dict(result=r, seconds=round(dt, 3), **kw)

    r, dt, model, reason = _check_z3(smt2, 3000, seed)
    if r == "sat" and "String" in smt2:
        r = _validated(smt2, r)   # string + quantifier models are only believed after validation
    note("z3-5.1", r, dt, reason=reason)
    final = r
    if r == "sat":
        res["model"] = model
    if final == "unknown" and "String" not in smt2:
        # a second short attempt with another seed BEFORE the 60 s race: set / relation queries that one e-matching order misses are typically
        # decided at once by another one (observed: 'unknown' after 3 s, 'unsat' in 0.2 s with seed + 1; the same query is 'unsat' in 0.1 s for
        # every seed in a fresh process) -- without this such an obligation waits for the whole race to time out
        r1, dt1, model1, reason1 = _check_z3(smt2, 3000, seed + 1)
        note("z3-5.1-seed2", r1, dt1, reason=reason1)
        final = r1
        if r1 == "sat":
            res["model"] = model1
    if final == "unknown":
        # race pure MBQI (z3, e-matching off: decides the set/relation queries on which e-matching loops) against cvc5
        # (decides most string queries); the first definite answer wins
        rr, detail = _race(smt2, 60, 20 if not thorough else CVC5_TIMEOUT_S)
        for k, v in detail.items():
            res["backends"][k] = v
        final = rr
    elif thorough and final == "unsat":
        r2, dt2 = _check_cvc5(smt2, CVC5_TIMEOUT_S)
        note("cvc5-1.0.3", r2, dt2)
        if r2 not in ("unknown", final):
            final = "conflict"
    if final == "unknown":
        r6, dt6, model, reason = _check_z3(smt2, Z3_TIMEOUT_MS * (3 if thorough else 2), seed + 1)
        note("z3-5.1-long", r6, dt6, reason=reason)
        final = r6
        if r6 == "sat":
            res["model"] = model
    if final == "unknown":
        # counter-model search in finite scopes: the scope axioms only ADD constraints, so sat here is sat there
        for n, sm in scoped:
            r4, dt4 = _check_cvc5(sm, 10, fmf=True)
            note(f"cvc5-fmf-scope{n}", r4, dt4)
            if r4 != "sat":
                r4, dt4 = _check_z3_cli_model(sm, 10)
                note(f"z3-cli-noematch-scope{n}", r4, dt4)
            if r4 == "sat":
                final = "sat"
                res["scope"] = n
                break
    if final == "unknown":
        r3, dt3 = _check_z3_old(smt2, 20)
        note("z3-4.8.12", r3, dt3)
        final = r3
    if final == "sat" and not res.get("model"):
        res["model"] = _model_text(smt2)
    if cover:
        res["verdict"] = {"sat": "proved", "unsat": "refuted", "unknown": "unknown", "conflict": "unknown"}[final]
    else:
        res["verdict"] = {"unsat": "proved", "sat": "refuted", "unknown": "unknown", "conflict": "unknown"}[final]
    return res


def discharge(obls, seed=0, thorough=False, procs=None):
    jobs = [(o.name, to_smt2(o.hyps, o.goal, o.cover, scope=(5 if o.cover else None)), o.cover, seed, thorough,
             [] if o.cover else [(n, to_smt2(relevant_hyps(o), o.goal, False, scope=n)) for n in (3, 5)]) for o in obls]
    if not jobs:
        return []
    procs = procs or min(16, max(1, len(jobs)))
    if procs == 1 or len(jobs) == 1:
        return [solve_one(j) for j in jobs]
    ctx = mp.get_context("fork")
    with ctx.Pool(procs) as pool:
        return pool.map(solve_one, jobs, chunksize=1)
