"""Verdict, VIOLATION / KNOWN-FINDING lines, replay files and the evidence file of one property check."""
from __future__ import annotations

import hashlib
import json
import os
import re

ROOT = os.path.dirname(os.path.dirname(os.path.abspath(__file__)))
OUT = os.environ.get("PYVC_OUT", ROOT)   # where evidence/ and replays/ are written (scratch runs of tools/run_seeds.py)


def _known_findings():
    p = os.path.join(ROOT, "known_findings.json")
    if not os.path.exists(p):
        return []
    with open(p) as f:
        return json.load(f).get("findings", [])


def _matches_finding(finding, pid, obl_name):
    if finding.get("status") != "open" or finding.get("property") != pid:
        return False
    return re.search(finding["obligation"], obl_name) is not None


def _slug(name):
    return re.sub(r"[^A-Za-z0-9_.-]+", "_", name)[:90] + "_" + hashlib.sha1(name.encode()).hexdigest()[:8]


def conclude(pid, tier, seed, reg, spec, keys, fn_infos, problems, jobs, results, bounded, wall):
    from . import replay
    contracts = reg.contracts
    n_obl = sum(1 for r in results if not r["cover"])
    proved = [r for r in results if not r["cover"] and r["verdict"] == "proved"]
    refuted = [r for r in results if not r["cover"] and r["verdict"] == "refuted"]
    unknown = [r for r in results if not r["cover"] and r["verdict"] not in ("proved", "refuted")]
    covers = [r for r in results if r["cover"]]
    vacuous = [r for r in covers if r["verdict"] == "refuted"]
    cover_unknown = [r for r in covers if r["verdict"] == "cover-unknown"]
    lines, violations, known_hits = [], [], []
    findings = _known_findings()
    os.makedirs(os.path.join(OUT, "replays", pid), exist_ok=True)

    # ---- refuted obligations: replay, then VIOLATION or KNOWN-FINDING
    by_name = {j["name"]: j for j in jobs}
    for r in refuted:
        f = next((f for f in findings if _matches_finding(f, pid, r["name"])), None)
        if f is not None:
            known_hits.append((f, r))
            continue
        path = os.path.join("replays", pid, _slug(r["name"]) + ".json")
        rep = replay.make_replay(pid, r, by_name.get(r["name"]), reg)
        with open(os.path.join(OUT, path), "w") as fh:
            json.dump(rep, fh, indent=1)
        confirmed = rep.get("native", {}).get("confirmed", False)
        violations.append((r, path, confirmed))
    for b in bounded:
        for v in b.get("violations", []):
            f = next((f for f in findings if f.get("status") == "open" and f.get("property") == pid and f.get("bounded_case") and re.search(f["bounded_case"], v.get("case", ""))), None)
            if f is not None:
                known_hits.append((f, dict(name=b["name"] + ":" + v.get("case", ""))))
                continue
            path = os.path.join("replays", pid, _slug(b["name"] + "_" + v.get("case", "case") + "_" + json.dumps(v.get("input"), sort_keys=True, default=str)) + ".json")
            with open(os.path.join(OUT, path), "w") as fh:
                json.dump(dict(property=pid, kind="bounded", check=b["name"], **v), fh, indent=1)
            violations.append((dict(name=b["name"] + ":" + v.get("case", "")), path, True))

    seen_f = set()
    for f, r in known_hits:
        if f["id"] in seen_f:
            continue
        seen_f.add(f["id"])
        lines.append(f"KNOWN-FINDING: property={pid} {f['what']}")
    for r, path, confirmed in violations:
        tail = "" if confirmed else " no-failing-input-found"
        lines.append(f"VIOLATION property={pid} replay={path} obligation={r['name']}{tail}")

    # ---- exit code
    crashed = [p for p in problems if p["status"] == "crash"] + [b for b in bounded if b.get("status") == "crash"]
    undecided = list(unknown) + [p for p in problems if p["status"] in ("out-of-subset", "contract-drift")] + [b for b in bounded if b.get("status") == "undecided"]
    strict = os.environ.get("PYVC_STRICT") == "1"
    bounded_ok = bool(bounded) and all(b.get("status") == "ok" for b in bounded)
    if violations:
        code = 1
    elif crashed or vacuous:
        code = 3
    elif undecided and (strict or not bounded_ok):
        code = 2
    elif undecided:
        # nothing was refuted and no failing input exists in the bounded exploration, but part of the PROOF did not go through (a contract no
        # longer binds to edited code, a construct outside the subset, a solver timeout). That is not evidence of a violation: the property held on
        # everything explored (exit 0), the proof is reported as incomplete below and in the evidence (discharged < obligations). PYVC_STRICT=1 -> exit 2.
        code = 0
        lines.append(f"PROOF-INCOMPLETE property={pid}: {len(undecided)} obligation(s)/function(s) undecided; no obligation refuted, bounded stand-ins found no failing input")
    elif n_obl == 0 and not bounded:
        code = 3  # fail closed: a property that generates no obligation proves nothing
        lines.append(f"CHECKER-ERROR property={pid} zero obligations generated")
    else:
        code = 0
    for p in problems:
        lines.append(f"{p['status'].upper()} function={p['key']} {p.get('error', '')}")
        if p.get("tb"):
            lines.append(p["tb"])
    for r in unknown:
        lines.append(f"UNDECIDED obligation={r['name']} backends={ {k: v['result'] for k, v in r['backends'].items()} }")
    for r in vacuous:
        lines.append(f"VACUOUS cover={r['name']} (contradictory assumptions: checker error)")
    for b in bounded:
        if b.get("status") in ("crash", "undecided"):
            lines.append(f"BOUNDED-{b['status'].upper()} {b.get('name')} {b.get('error', '')}")
            if b.get("tb"):
                lines.append(b["tb"])

    # ---- evidence
    backend_counts, solver_s = {}, 0.0
    for r in results:
        for k, v in r["backends"].items():
            solver_s += v.get("seconds", 0)
        if r["verdict"] in ("proved", "refuted"):
            last = list(r["backends"].keys())[-1]
            backend_counts[last] = backend_counts.get(last, 0) + 1
    fns = []
    for info in fn_infos:
        c = contracts[info["key"]]
        mine = [r for r in results if r.get("fn") == info["key"] and not r["cover"]]
        fns.append(dict(contract=info["key"], function=f"{c.module}:{c.qualname}" if c.module else "(lemma)",
                        source_sha=info["hash"], view=("string" if info.get("string_view_fallback") or c.view == "string" else "names-uninterpreted"),
                        status=("lemma-" if c.is_lemma else "") + ("proved" if mine and all(r["verdict"] == "proved" for r in mine) else "not-proved"),
                        paths=info["paths"], inlined_helpers=info["inlined"], axiom_schemas_used=info["used_schemas"],
                        obligations=sum(1 for j in jobs if j["fn"] == info["key"] and not j["cover"])))
    # assumed / abstract / bounded contracts that THIS property's proofs actually apply at some call site (its verification cone)
    cone = set()
    for info in fn_infos:
        cone.update(info.get("callees", []))
    assumed = []
    for k, c in sorted(contracts.items()):
        if k in cone and c.status != "verify" and not c.is_lemma:
            assumed.append(f"{c.status}: {k}" + (f" -- {c.note}" if c.note else ""))
    schemas = sorted({u.split("(")[0] for info in fn_infos for u in info.get("used_schemas", []) if u.split("(")[0] in reg.schemas})
    assumed += [f"axiom schema: {sname} -- {(reg.specfuns[sname].__doc__ or '').strip().splitlines()[0] if reg.specfuns.get(sname) and reg.specfuns[sname].__doc__ else ''}" for sname in schemas]
    samples = []
    for r in (proved[:2] + refuted[:2] + unknown[:1]):
        j = by_name.get(r["name"], {})
        samples.append(dict(obligation=r["name"], kind=r.get("kind"), verdict=r["verdict"], backends=r["backends"],
                            smt2_head=(j.get("smt2", "")[-700:])))
    ev = dict(
        property_id=pid, tier=tier, seed=seed, level=spec.get("level", "proof"), wall_s=round(wall, 2),
        violations=len(violations),
        coverage=dict(
            # a function whose contract could not be bound / executed counts as one undischarged obligation, so discharged == obligations
            # only when the whole proof went through on this run
            obligations=n_obl + len(problems), discharged=len(proved), refuted=len(refuted), undecided=len(unknown) + len(problems),
            proof_complete=(not problems and not unknown and not refuted),
            checker_cmd=f"./check {pid} --tier {tier}",
            trusted_base=spec.get("trusted_base", []) + sorted(set(assumed)),
            functions_under_contract=fns, functions=len(fns),
            out_of_subset=[dict(function=p["key"], reason=p.get("error")) for p in problems],
            cover_checks=dict(total=len(covers), reachable=len(covers) - len(vacuous) - len(cover_unknown),
                              not_decided=len(cover_unknown), vacuous=len(vacuous)),
            obligations_by_kind=_count(results, "kind"), decided_by_backend=backend_counts, solver_seconds=round(solver_s, 1),
            bounded_parts=[{k: v for k, v in b.items() if k not in ("violations", "tb")} for b in bounded],
            known_findings=[f["id"] for f, _ in known_hits],
            samples=samples,
            explanation=spec.get("explanation", ""),
        ),
        assumptions=spec.get("assumptions", []) + [
            "pyvc (the VC generator in /verif/pyvc) and its models of CPython builtins are trusted; partial correctness only",
            "extraction drops docstrings, annotations, decorators (modelled by contract kind) -- see DESIGN.md 2.1",
        ],
    )
    if bounded:
        # exploration-style keys for the bounded stand-ins (measured on this run; never added to 'discharged')
        ev["coverage"]["evaluations"] = sum(b.get("cases", 0) for b in bounded)
        ev["coverage"]["distinct_nontrivial"] = sum(b.get("distinct_nontrivial", 0) for b in bounded)
        ev["coverage"]["rule"] = " || ".join(f"{b.get('name')}: {b.get('bound', '')}" for b in bounded)
        ev["coverage"]["samples"] = samples + [dict(bounded_check=b.get("name"), case=s_) for b in bounded for s_ in b.get("samples", [])[:2]]
    os.makedirs(os.path.join(OUT, "evidence"), exist_ok=True)
    with open(os.path.join(OUT, "evidence", f"{pid}.json"), "w") as fh:
        json.dump(ev, fh, indent=1, default=str)
    for ln in lines:
        print(ln)
    print(f"[{pid}] tier={tier} functions={len(fns)} obligations={n_obl} proved={len(proved)} refuted={len(refuted)} "
          f"undecided={len(unknown)} covers={len(covers)} (not decided {len(cover_unknown)}) bounded={len(bounded)} "
          f"wall={wall:.1f}s exit={code}")
    return code


def _used_by(keys, c):
    return True


def _count(results, field):
    out = {}
    for r in results:
        out[r.get(field, "?")] = out.get(r.get(field, "?"), 0) + 1
    return out
