"""Execution state, obligations and the exceptions pyvc itself raises."""
from __future__ import annotations

import z3
from .vals import V, deep_copy


class OutOfSubset(Exception):
    """The function uses a construct the engine refuses to model (never silently approximated)."""


class UnknownName(OutOfSubset):
    """A name that is neither a local, a parameter, a known global nor a specification symbol (at run time: NameError)."""


class ContractDrift(Exception):
    """A contract no longer binds to the source (loop signature / variable gone)."""


class Obligation:
    __slots__ = ("name", "kind", "hyps", "goal", "lineno", "note", "cover", "n_pc", "ax_defs")

    def __init__(self, name, kind, hyps, goal, lineno=0, note="", cover=False):
        self.name = name
        self.kind = kind
        self.hyps = list(hyps)
        self.goal = goal
        self.lineno = lineno
        self.note = note
        self.cover = cover  # True: expected SAT (vacuity guard) instead of valid
        self.n_pc = len(self.hyps)   # hyps[:n_pc] = path condition / assumptions; hyps[n_pc:] = definitional axioms (conservative extensions)
        self.ax_defs = []            # for each definitional axiom: the name of the symbol it defines (None: unknown -> always kept)


class State:
    def __init__(self):
        self.vars = {}
        self.pc = []          # assumptions: path condition, contracts' postconditions, axioms
        self.flow = "normal"  # normal | return | raise | continue | break
        self.ret = None
        self.exc = None       # (exception class name, payload V or None)
        self.trace = []       # human-readable branch decisions
        self.old = {}         # entry snapshot for old(...)
        self.ghost = {}       # engine-level ghosts (seen sets)
        self.stack = []       # caller frames while an inlined helper runs

    def fork(self):
        s = State()
        s.vars = {k: deep_copy(v) for k, v in self.vars.items()}
        s.pc = list(self.pc)
        s.flow = self.flow
        s.ret = self.ret
        s.exc = self.exc
        s.trace = list(self.trace)
        s.old = self.old
        s.ghost = dict(self.ghost)
        s.stack = [{k: deep_copy(v) for k, v in fr.items()} for fr in self.stack]
        return s

    def assume(self, b):
        if z3.is_true(b):
            return
        self.pc.append(b)


_feas_solver_timeout_ms = 300


def feasible(st: State, extra=None) -> bool:
    """Cheap pruning of infeasible paths; 'unknown' keeps the path (sound)."""
    s = z3.Solver()
    s.set("timeout", _feas_solver_timeout_ms)
    for a in st.pc:
        s.add(a)
    if extra is not None:
        s.add(extra)
    return s.check() != z3.unsat
