"""Bounded stand-ins that scan real temporary project trees with the real entry points (C02, C04, C08, C09, C10)."""
from __future__ import annotations

import ast
import itertools
import os
import random
import re
import sys

from .common import Bounded, arch_snapshot, pmap, scan, temp_project, make_rule, outcome, parents

ROOT = "proj"

# ---------------------------------------------------------------------------------------------- C02: statement-list positions
# every (node class, field) of the running interpreter's grammar that holds a statement list, with a source template;
# {B} is the nested block (indented by the template's own indentation + 4)
TEMPLATES = {
    ("FunctionDef", "body"): "def f{n}():\n{B}",
    ("AsyncFunctionDef", "body"): "async def f{n}():\n{B}",
    ("ClassDef", "body"): "class C{n}:\n{B}",
    ("For", "body"): "for i{n} in []:\n{B}",
    ("For", "orelse"): "for i{n} in []:\n    pass\nelse:\n{B}",
    ("AsyncFor", "body"): "async def g{n}():\n    async for i in x:\n    {B4}",
    ("AsyncFor", "orelse"): "async def g{n}():\n    async for i in x:\n        pass\n    else:\n    {B4}",
    ("While", "body"): "while False:\n{B}",
    ("While", "orelse"): "while False:\n    pass\nelse:\n{B}",
    ("If", "body"): "if 1:\n{B}",
    ("If", "orelse"): "if 1:\n    pass\nelse:\n{B}",
    ("With", "body"): "with open('x') as f{n}:\n{B}",
    ("AsyncWith", "body"): "async def g{n}():\n    async with x as y:\n    {B4}",
    ("Try", "body"): "try:\n{B}\nexcept Exception:\n    pass",
    ("ExceptHandler", "body"): "try:\n    pass\nexcept Exception:\n{B}",
    ("Try", "orelse"): "try:\n    pass\nexcept Exception:\n    pass\nelse:\n{B}",
    ("Try", "finalbody"): "try:\n    pass\nfinally:\n{B}",
    ("TryStar", "body"): "try:\n{B}\nexcept* Exception:\n    pass",
    ("TryStar", "orelse"): "try:\n    pass\nexcept* Exception:\n    pass\nelse:\n{B}",
    ("TryStar", "finalbody"): "try:\n    pass\nexcept* Exception:\n    pass\nfinally:\n{B}",
    ("TryStar", "handlers"): "try:\n    pass\nexcept* Exception:\n{B}",
    ("match_case", "body"): "match 1:\n    case 1:\n    {B4}",
}


def grammar_positions():
    """(class, field) pairs with a statement-list field, read from the running interpreter (ASDL signature in __doc__)."""
    out = set()
    for name in dir(ast):
        cls = getattr(ast, name)
        if isinstance(cls, type) and issubclass(cls, ast.AST) and cls.__doc__:
            m = re.match(r"\w+\((.*)\)", cls.__doc__.replace("\n", " "))
            if not m:
                continue
            for part in m.group(1).split(","):
                part = part.strip()
                if part.startswith("stmt* "):
                    out.add((name, part.split()[1]))
    out.discard(("Module", "body"))
    out.discard(("Interactive", "body"))
    return out


def _indent(text, n=4):
    return "\n".join((" " * n + l) if l else l for l in text.split("\n"))


def nest(path, stmt, counter=[0]):
    """Source text: stmt placed at the nested position path = [(class, field), ...] (outermost first)."""
    text = stmt
    for pos in reversed(path):
        counter[0] += 1
        t = TEMPLATES[pos].replace("{n}", str(counter[0]))
        if "{B4}" in t:
            text = t.replace("    {B4}", _indent(text, 8))
        else:
            text = t.replace("{B}", _indent(text, 4))
    return text + "\n"


# project used by C02: package tree with modules to import
C02_FILES = {
    "__init__.py": "", "a/__init__.py": "", "a/m.py": "X = 1\nfrom . import n\nfrom ..b import k\n", "a/n.py": "", "a/sub/__init__.py": "from . import deep\n",
    "a/sub/deep.py": "def fn(): pass\nfrom .. import m\n",
    "b/__init__.py": "", "b/k.py": "", "c.py": "", "pkg/__init__.py": "", "pkg/inner/__init__.py": "", "pkg/inner/leaf.py": "", "pkg/side.py": "from .inner import leaf\n",
    "ns/plain.py": "", "ns/deeper/mod.py": "",     # namespace packages: directories without __init__.py
    "grp/part/leafmod.py": "",                      # a directory that only groups sub directories (no python file directly inside) is a module all the same
}
# edges the fixed files contribute themselves (independent of the generated user file)
C02_FIXED_EDGES = {("proj.a.m", "proj.a.n"), ("proj.a.m", "proj.b.k"), ("proj.a.sub.__init__", "proj.a.sub.deep"), ("proj.a.sub.deep", "proj.a.m"),
                   ("proj.pkg.side", "proj.pkg.inner.leaf")}
# import forms: (statement in file proj/pkg/inner/user.py (or __init__), expected importees as dotted names; None entries: claim-free)
IMPORT_FORMS = [
    ("import proj.a.m", ["proj.a.m"]),
    ("import proj.a.m as alias", ["proj.a.m"]),
    ("import proj.a.m, proj.b.k", ["proj.a.m", "proj.b.k"]),
    ("import proj.a.sub.deep as d, proj.c", ["proj.a.sub.deep", "proj.c"]),
    ("from proj.a import m", ["proj.a.m"]),                 # from P import n, n a scanned module -> P.n
    ("from proj.a import m as mm, n", ["proj.a.m", "proj.a.n"]),
    ("from proj.a.m import X", ["proj.a.m"]),               # n not a module -> P
    ("from proj.a.sub.deep import fn as g", ["proj.a.sub.deep"]),
    ("from proj.b import *", ["proj.b"]),
    ("from proj.a.sub import deep", ["proj.a.sub.deep"]),
    ("from . import leaf", ["proj.pkg.inner.leaf"]),
    ("from .leaf import something", ["proj.pkg.inner.leaf"]),
    ("from .. import side", ["proj.pkg.side"]),
    ("from ..side import thing", ["proj.pkg.side"]),
    ("from ... import c", ["proj.c"]),
    ("from ...a import m", ["proj.a.m"]),
    ("from ...a.sub import deep", ["proj.a.sub.deep"]),
    ("from ...b.k import y", ["proj.b.k"]),
    ("from .leaf import *", ["proj.pkg.inner.leaf"]),
    ("from proj import ns", ["proj.ns"]),                        # a namespace package is a scanned module too
    ("from proj.ns import plain", ["proj.ns.plain"]),
    ("from proj.ns import deeper", ["proj.ns.deeper"]),
    ("from ...ns.deeper import mod", ["proj.ns.deeper.mod"]),
    ("import proj.ns.deeper.mod", ["proj.ns.deeper.mod"]),
    ("from proj import grp", ["proj.grp"]),
    ("from proj.grp import part", ["proj.grp.part"]),
    ("from ...grp import part", ["proj.grp.part"]),
    ("from proj.grp.part import leafmod", ["proj.grp.part.leafmod"]),
    # one statement naming scanned sub modules AND objects of the package: each name stands for its own edge (P.n for a module n, P otherwise)
    ("from proj.a import m, Obj", ["proj.a.m", "proj.a"]),
    ("from proj.a import Obj, n", ["proj.a", "proj.a.n"]),
    ("from proj.a import m, Obj, n, Other", ["proj.a.m", "proj.a.n", "proj.a"]),
    ("from ...a import Obj as o, m", ["proj.a", "proj.a.m"]),
    ("from proj.a.sub import deep, helper", ["proj.a.sub.deep", "proj.a.sub"]),
]


def _internal_imports(arch, importer):
    mods, imps, _ = arch_snapshot(arch)
    own_ancestors = set(parents(importer))
    return {b for (a, b) in imps if a == importer and b not in own_ancestors}


_C02_SCANS = [0]


def _c02_case(args):
    path, stmt, expected, in_init = args
    _C02_SCANS[0] += 1
    user = "pkg/inner/__init__.py" if in_init else "pkg/inner/user.py"
    importer = "proj.pkg.inner.__init__" if in_init else "proj.pkg.inner.user"
    files = dict(C02_FILES)
    files[user] = nest(path, stmt)
    try:
        ast.parse(files[user])
    except SyntaxError as e:
        return dict(skip=True)
    with temp_project(files, ROOT) as root:
        arch = scan(root)
        got = _internal_imports(arch, importer)
        all_edges = {(a, b) for a, b in arch_snapshot(arch)[1] if a != importer and b not in parents(a)}
    want = {e for e in expected if e not in set(parents(importer))}
    if all_edges != C02_FIXED_EDGES:
        return dict(violation=dict(case="import-edges", detail=f"edges of the fixed project files differ (scan #{_C02_SCANS[0]} in this process): missing {sorted(C02_FIXED_EDGES - all_edges)}, "
                                   f"unaccounted {sorted(all_edges - C02_FIXED_EDGES)}", input=dict(kind="c02", path=[list(p) for p in path], stmt=stmt, expected=expected, in_init=in_init)))
    if got == want:
        # the same statement with external libraries included and an external exclusion pattern that textually matches internal names: the internal edges are the same
        with temp_project(files, ROOT) as root2:
            inc = _internal_imports(scan(root2, exclude_external_libraries=False, external_exclusions=("*a*",)), importer)
        inc = {m for m in inc if m.startswith(ROOT + ".") or m == ROOT}
        if inc != want:
            return dict(violation=dict(case="import-edges", detail=f"statement {stmt!r}: with externals included and external_exclusions=('*a*',) the edges from {importer} to internal modules are {sorted(inc)}, "
                                       f"the statement names {sorted(want)}", input=dict(kind="c02", path=[list(p) for p in path], stmt=stmt, expected=expected, in_init=in_init)))
    if got != want:
        return dict(violation=dict(case="import-edges", detail=f"statement {stmt!r} at position {['.'.join(p) for p in path] or 'module level'} in {user}: edges from {importer} to {sorted(got)}, "
                                   f"the statement names {sorted(want)} (missing {sorted(want - got)}, unaccounted {sorted(got - want)})",
                                   input=dict(kind="c02", path=[list(p) for p in path], stmt=stmt, expected=expected, in_init=in_init)))
    return dict(ok=True)


# one-line forms: the import statement is NOT the first token of its physical line (seed C02q: a textual pre-filter for lines starting with import / from)
INLINE_WRAPPERS = ["if True: {S}", "X = 1; {S}", "class K: {S}", "def f(): {S}", "\x0c{S}", "for _ in (1,): {S}", "with open(__file__) as _f: {S}", "if False: pass\nelse: {S}",
                   "try: {S}\nexcept ImportError: pass", "try: pass\nfinally: {S}"]


def _c02_inline_case(args):
    wrapper, stmt, expected = args
    importer = "proj.pkg.inner.user"
    files = dict(C02_FILES)
    files["pkg/inner/user.py"] = wrapper.replace("{S}", stmt) + "\n"
    try:
        ast.parse(files["pkg/inner/user.py"])
    except SyntaxError:
        return dict(skip=True)
    with temp_project(files, ROOT) as root:
        got = _internal_imports(scan(root), importer)
    want = {e for e in expected if e not in set(parents(importer))}
    if got != want:
        return dict(violation=dict(case="import-edges-inline", detail=f"file consisting of the one line {wrapper.replace('{S}', stmt)!r}: edges from {importer} to {sorted(got)}, the statement names {sorted(want)}",
                                   input=dict(kind="c02-inline", wrapper=wrapper, stmt=stmt, expected=expected)))
    return dict(ok=True)


def _c02_history_case(seed):
    """Several project trees with the SAME root name scanned one after the other in ONE process, module_path one level below root_path (absolute imports are then
    written relative to module_path's parent and need the root prefix): every scan's edges are those of ITS OWN tree (seed C02p: a process-wide memo of adjusted names)."""
    rng = random.Random(seed)
    out = []
    cands = ["util", "core", "helpers", "extra"]
    history = []
    for step in range(3):
        present = set(rng.sample(cands, rng.randint(1, 3)))
        files = {"__init__.py": "", "app/__init__.py": "", "app/user.py": "".join(f"import app.{c}\n" for c in cands)}
        for c in present:
            files[f"app/{c}.py"] = ""
        with temp_project(files, ROOT) as root:
            arch = scan(root, os.path.join(root, "app"))
            got = {b for b in _internal_imports(arch, "proj.app.user")}
        want = {f"proj.app.{c}" for c in present}
        history.append(sorted(present))
        if got != want:
            out.append(dict(case="import-edges-history", detail=f"scan {step + 1} of trees {history} (same root name, module_path=proj/app, file app/user.py imports app.<each candidate>): "
                            f"edges from proj.app.user to {sorted(got)}, this tree's modules make it {sorted(want)}", input=dict(kind="c02-history", seed=seed)))
            break
    return out


def bounded_import_edges(tier, seed):
    b = Bounded("C02.import-statements-vs-edges", "every statement-list position of the running interpreter's grammar (read from the ast node classes; fails closed on an unknown one), nested to depth "
                "1 (all) and depth 2 (all pairs in thorough, 60 random pairs in quick) x 33 import forms (plain, aliased, multi-name, from-name, from-submodule, mixed module/object names, star, relative levels 1-3, namespace packages), in a "
                "regular file and inside an __init__ file, in a fixed 14-file project; 10 one-line compound-statement wrappers x the import forms (90 sampled in quick); 40/2000 histories of three same-named trees scanned in one process with module_path below root_path")
    pos = grammar_positions()
    unknown = sorted(p for p in pos if p not in TEMPLATES)
    if ("Try", "handlers") in unknown:
        unknown.remove(("Try", "handlers"))
    known = sorted(p for p in TEMPLATES if p in pos or p in (("ExceptHandler", "body"), ("match_case", "body"), ("TryStar", "handlers")))
    if hasattr(ast, "TryStar") is False:
        known = [p for p in known if p[0] != "TryStar"]
    if unknown:
        raise RuntimeError(f"statement-list positions without a template: {unknown}")
    rng = random.Random(seed)
    paths = [[]] + [[p] for p in known]
    pairs = [[p, q] for p in known for q in known]
    paths += pairs if tier != "quick" else rng.sample(pairs, 60)
    if tier != "quick":
        paths += [rng.sample(known, 3) for _ in range(200)]
    jobs = []
    for path in paths:
        forms = IMPORT_FORMS if len(path) <= 1 else rng.sample(IMPORT_FORMS, 4 if tier == "quick" else 8)
        for stmt, expected in forms:
            for in_init in ((False, True) if len(path) <= 1 else (rng.random() < 0.2,)):
                if in_init and stmt.startswith("from ") and stmt.split()[1].startswith("."):
                    # inside pkg/inner/__init__.py the importing module is proj.pkg.inner.__init__, relative level 1 = proj.pkg.inner
                    pass
                jobs.append((path, stmt, expected, in_init))
    res = pmap(_c02_case, jobs)
    for j, r in zip(jobs, res):
        if r.get("skip"):
            continue
        b.case(sample=dict(position=[".".join(p) for p in j[0]], stmt=j[1]) if j[0] else None)
        if "violation" in r:
            v = r["violation"]
            b.violation(v["case"], v["detail"], v["input"])
    inline_jobs = [(w, st_, ex_) for w in INLINE_WRAPPERS for st_, ex_ in IMPORT_FORMS if not st_.endswith("*") or w.startswith(("if", "X", "\x0c", "for", "with", "try"))]
    if tier == "quick":
        inline_jobs = rng.sample(inline_jobs, 90)
    for j, r in zip(inline_jobs, pmap(_c02_inline_case, inline_jobs)):
        if r.get("skip"):
            continue
        b.case()
        if "violation" in r:
            b.violation(r["violation"]["case"], r["violation"]["detail"], r["violation"]["input"])
    for res in pmap(_c02_history_case, [seed * 977 + i for i in range(40 if tier == "quick" else 2000)]):
        b.case()
        for v in res:
            b.violation(v["case"], v["detail"], v["input"])
    return b.result()


def rerun_c02(inp):
    if inp.get("kind") == "c02-inline":
        r = _c02_inline_case((inp["wrapper"], inp["stmt"], inp["expected"]))
        return ("violation" not in r), (r["violation"]["detail"] if "violation" in r else "edges equal the importees the statement names")
    if inp.get("kind") == "c02-history":
        res = _c02_history_case(inp["seed"])
        return (not res), ("; ".join(v["detail"] for v in res) or "every scan's edges are those of its own tree")
    r = _c02_case(([tuple(p) for p in inp["path"]], inp["stmt"], inp["expected"], inp["in_init"]))
    if "violation" in r:
        return False, r["violation"]["detail"]
    return True, "edges equal the importees the statement names"


# ---------------------------------------------------------------------------------------------- random project trees
NAMES = ["a", "ab", "b", "a_b", "core", "core_utils", "x", "xy", "pyx"]   # ("pyx": a name that begins like the file suffix)


def random_tree(rng, depth=3, with_init=0.7):
    """-> {relative path: source} ; directories as packages (mostly with __init__), names that are string prefixes of siblings."""
    files = {}

    def fill(prefix, d):
        names = rng.sample(NAMES, rng.randint(2, 4))
        for nm in names:
            if rng.random() < 0.06:
                files[prefix + nm + "/"] = ""      # an EMPTY directory is a module too (git does not track one, a working tree may well contain one)
                continue
            if d < depth and rng.random() < 0.45:
                sub = prefix + nm + "/"
                if rng.random() < with_init:
                    files[sub + "__init__.py"] = ""
                else:
                    files[sub + "placeholder.txt"] = "not python\n"
                fill(sub, d + 1)
            else:
                files[prefix + nm + ".py"] = ""
    if rng.random() < 0.8:
        files["__init__.py"] = ""
    fill("", 1)
    return files


def drop_shadowed(files):
    """Stated input validity (C04/C09): no x.py next to a directory x."""
    dirs = {f.rsplit("/", 1)[0] for f in files if "/" in f}
    alld = set()
    for d in dirs:
        parts = d.split("/")
        for i in range(1, len(parts) + 1):
            alld.add("/".join(parts[:i]))
    for f in [f for f in files if f.endswith(".py") and f[:-3] in alld]:
        del files[f]
    return files


def modname(rel, root=ROOT):
    rel = rel[:-3] if rel.endswith(".py") else rel.rstrip("/")
    return root + ("." + rel.replace("/", ".") if rel else "")


def spelled(importer_rel, target, rng, k):
    """One of the import statements that name the internal module `target` from the file importer_rel: plain, aliased, from-import, aliased from-import,
    relative (when the target lies in the importer's package tree)."""
    P, n = target.rsplit(".", 1)
    forms = [f"import {target}", f"import {target} as al{k}", f"from {P} import {n}", f"from {P} import {n} as al{k}", f"from {P} import {n} as {n}x, {n}"]
    pkg = modname(importer_rel.rsplit("/", 1)[0] + "/") if "/" in importer_rel else ROOT
    parts = pkg.split(".")
    for up in range(0, len(parts)):
        base = ".".join(parts[:len(parts) - up])
        if target.startswith(base + "."):
            rest = target[len(base) + 1:]
            dots = "." * (up + 1)
            if "." in rest:
                forms.append(f"from {dots}{rest.rsplit('.', 1)[0]} import {rest.rsplit('.', 1)[1]}")
                forms.append(f"from {dots}{rest.rsplit('.', 1)[0]} import {rest.rsplit('.', 1)[1]} as al{k}")
            else:
                forms.append(f"from {dots} import {rest}")
                forms.append(f"from {dots} import {rest} as al{k}")
            break
    return rng.choice(forms)


def add_imports(files, rng, n, externals=(), forms=False):
    """Add import statements (absolute, fully qualified from the root directory name; with forms=True in any equivalent spelling) between random .py files."""
    drop_shadowed(files)
    pyfiles = sorted(f for f in files if f.endswith(".py") and re.match(r"^[A-Za-z_0-9/]+\.py$", f))
    edges = set()
    if not pyfiles:
        return edges
    for _ in range(n):
        a = rng.choice(pyfiles)
        if externals and rng.random() < 0.4:
            e = rng.choice(externals)
            files[a] += f"import {e}\n"
            edges.add((modname(a), e))
            continue
        b = rng.choice(pyfiles)
        if a == b:
            continue
        files[a] += (spelled(a, modname(b), rng, len(edges)) if forms else f"import {modname(b)}") + "\n"
        edges.add((modname(a), modname(b)))
    return edges


def edges_of(files, root=ROOT):
    """(importer, importee) for every 'import X' line of the generated files."""
    out = set()
    for f, src in files.items():
        if f.endswith(".py"):
            for line in src.split("\n"):
                if line.startswith("import "):
                    out.add((modname(f, root), line.split()[1]))
    return out


def expected_modules(files, root=ROOT):
    """One module per .py file and per directory (incl. the root)."""
    mods = {root}
    for f in files:
        parts = f.split("/")
        for i in range(1, len(parts)):
            mods.add(root + "." + ".".join(parts[:i]))
        if f.endswith(".py"):
            mods.add(modname(f, root))
    return mods


# ---------------------------------------------------------------------------------------------- C04
def _c04_case(seed):
    rng = random.Random(seed)
    files = random_tree(rng, depth=rng.randint(2, 4))
    edges = add_imports(files, rng, rng.randint(2, 8))
    out = []
    with temp_project(files, ROOT) as root:
        arch = scan(root)
        mods, imps, hier = arch_snapshot(arch)
        want = expected_modules(files)
        inp = dict(kind="c04", seed=seed)
        if mods != want:
            out.append(dict(case="modules", detail=f"modules differ from the directory tree: missing {sorted(want - mods)}, unexpected {sorted(mods - want)}", input=inp))
        want_h = {(".".join(m.split(".")[:-1]), m) for m in want if "." in m}
        if hier != want_h:
            out.append(dict(case="hierarchy", detail=f"hierarchy edges differ: missing {sorted(want_h - hier)[:4]}, unexpected {sorted(hier - want_h)[:4]}", input=inp))
        want_i = {(a, c) for a, c in edges if a != c and c not in parents(a) }
        got_i = {(a, c) for a, c in imps if c not in parents(a)}
        if got_i != want_i:
            out.append(dict(case="imports", detail=f"imports differ: missing {sorted(want_i - got_i)[:4]}, unaccounted {sorted(got_i - want_i)[:4]}", input=inp))
        # sub-directory scans = restriction of the whole-root scan
        dirs = sorted({f.rsplit("/", 1)[0] for f in files if "/" in f})
        for d in rng.sample(dirs, min(2, len(dirs))):
            sub = scan(root, os.path.join(root, d))
            smods, simps, shier = arch_snapshot(sub)
            dn = modname(d)
            restr = {m for m in mods if m == dn or m.startswith(dn + ".")} | set(parents(dn))
            if smods != restr:
                out.append(dict(case="subdir-modules", detail=f"module_path={d}: modules {sorted(smods ^ restr)} differ from the restriction of the whole-root scan", input=dict(inp, subdir=d)))
            ri = {(a, c) for a, c in imps if a in restr and c in restr and (a == dn or a.startswith(dn + "."))}
            si = {(a, c) for a, c in simps}
            if si != ri:
                out.append(dict(case="subdir-imports", detail=f"module_path={d}: imports differ from the restriction: missing {sorted(ri - si)[:4]}, extra {sorted(si - ri)[:4]}", input=dict(inp, subdir=d)))
    return out


def _c04_relative_spelling(seed):
    """Absolute imports written relative to module_path's parent directory resolve like the fully qualified spelling."""
    rng = random.Random(seed)
    out = []
    top = rng.choice(["app", "proj" + "core", "core", "a"])
    files = {"__init__.py": "", f"{top}/__init__.py": "", f"{top}/m.py": "", f"{top}/n.py": f"import {top}.m\nfrom {top}.sub import deep\n", f"{top}/sub/__init__.py": "", f"{top}/sub/deep.py": f"import {ROOT}.{top}.m\n",
             f"{top}/k.py": f"from {top} import m\nimport {top}\n", "other/__init__.py": "", "other/o.py": ""}
    with temp_project(files, ROOT) as root:
        sub = scan(root, os.path.join(root, top))
        smods, simps, _ = arch_snapshot(sub)
        P = f"{ROOT}.{top}"
        want = {(f"{P}.n", f"{P}.m"), (f"{P}.sub.deep", f"{P}.m"), (f"{P}.k", f"{P}")}
        # 'from top.sub import deep' names top.sub.deep when that is a scanned module; 'from top import m' names top.m
        want |= {(f"{P}.n", f"{P}.sub.deep"), (f"{P}.k", f"{P}.m")}
        got = {(a, c) for a, c in simps if c not in parents(a)}
        want = {(a, c) for a, c in want if c not in parents(a)}
        if got != want:
            out.append(dict(case="relative-spelling", detail=f"module_path={top} below root: imports {sorted(got)} ; expected {sorted(want)} (missing {sorted(want - got)}, extra {sorted(got - want)})",
                            input=dict(kind="c04-rel", seed=seed)))
    return out


def _c04_sibling_scans(arg):
    """Sibling sub-directories scanned one after the other in ONE fresh process (one order per process), each containing the
    same prefix-less absolute import: every scan must equal the restriction of the whole-root scan."""
    seed, order_idx, root_first = arg
    rng = random.Random(seed)
    files = {"__init__.py": "", "app/__init__.py": "", "app/main.py": "import app.util\nimport proj.app.helpers\nimport tools.cli\n", "app/util.py": "", "app/helpers.py": "import app.deep.leaf\n",
             "app/deep/__init__.py": "", "app/deep/leaf.py": "",
             "tools/__init__.py": "", "tools/cli.py": "import app.util\nimport tools.helpers\n", "tools/helpers.py": "import app.main\n",
             "core/__init__.py": "import core.engine\n", "core/engine.py": "from proj.core import VERSION\nimport app.util\nfrom core import engine2\n", "core/engine2.py": ""}
    out = []
    with temp_project(files, ROOT) as root:
        subs = ["app", "tools", "core"]
        order = list(itertools.permutations(subs))[order_idx]
        if root_first:
            whole = arch_snapshot(scan(root))
        else:
            whole = (expected_modules(files), None, None)
        if True:
            for d in order + order[:1]:
                sm, si, _ = arch_snapshot(scan(root, os.path.join(root, d)))
                dn = modname(d)
                inside = lambda m: m == dn or m.startswith(dn + ".")
                want_m = {m for m in whole[0] if inside(m)} | set(parents(dn))
                # imports written relative to module_path's parent ('app.util' inside proj/app) resolve like the fully qualified spelling
                want_i = set()
                for f, src in files.items():
                    if f.endswith(".py") and inside(modname(f)):
                        for line in src.split("\n"):
                            tgt = None
                            if line.startswith("import "):
                                tgt = line.split()[1]
                            elif line.startswith("from ") and " import " in line:
                                base, name = line.split()[1], line.split()[3]
                                for cand in (f"{base}.{name}", base):
                                    full = cand if cand.startswith(ROOT + ".") else f"{ROOT}.{cand}"
                                    if full in whole[0]:
                                        tgt = cand
                                        break
                            if tgt is None:
                                continue
                            full = tgt if tgt.startswith(ROOT + ".") or tgt == ROOT else f"{ROOT}.{tgt}"
                            if inside(full) and full in whole[0] and full != modname(f) and full not in parents(modname(f)):
                                want_i.add((modname(f), full))
                got_i = {(a, c) for a, c in si if c not in parents(a)}
                if sm != want_m or got_i != want_i:
                    out.append(dict(case="sibling-scans", detail=f"scan order {order}, module_path={d}: modules differ by {sorted(sm ^ want_m)}, imports missing {sorted(want_i - got_i)} extra {sorted(got_i - want_i)}",
                                    input=dict(kind="c04-sib", seed=seed, order_idx=order_idx, root_first=root_first)))
                    return out
    return out


def _c04_module_objects(seed):
    """The module-object entry point builds the same architecture as the path entry point."""
    import importlib
    from pytestarch import get_evaluable_architecture_for_module_objects
    rng = random.Random(seed)
    rootname = f"pkgobj{seed}"
    files = {"__init__.py": "", "a/__init__.py": "", "a/m.py": f"import {rootname}.b.k\n", "b/__init__.py": "", "b/k.py": "import os.path\n", "b/tests/__init__.py": "", "b/tests/t.py": f"import {rootname}.a.m\n",
             "a/__pycache__/m.py": ""}      # (removed by the DEFAULT exclusions only: an explicit empty tuple keeps it)
    out = []
    with temp_project(files, rootname) as root:
        base = os.path.dirname(root)
        sys.path.insert(0, base)
        try:
            rm = importlib.import_module(rootname)
            sm = importlib.import_module(rootname + ".b")
            for kw in (dict(), dict(exclusions=()), dict(exclusions=("*tests*",)), dict(exclude_external_libraries=False), dict(level_limit=1), dict(regex_exclusions=(".*tests.*",), exclusions=()),
                       dict(exclude_external_libraries=False, external_exclusions=("os*",)), dict(exclude_external_libraries=False, regex_external_exclusions=("os.*",))):
                for (ro, mo, rp, mp_) in ((rm, rm, root, root), (rm, sm, root, os.path.join(root, "b"))):
                    try:
                        a1 = arch_snapshot(get_evaluable_architecture_for_module_objects(ro, mo, **kw))
                    except Exception as e:
                        a1 = ("error", type(e).__name__)
                    try:
                        a2 = arch_snapshot(scan(rp, mp_, **kw))
                    except Exception as e:
                        a2 = ("error", type(e).__name__)
                    if a1 != a2:
                        out.append(dict(case="module-objects", detail=f"options {kw}: module-object entry point builds a different architecture than the path entry point", input=dict(kind="c04-obj", seed=seed)))
        finally:
            sys.path.remove(base)
            for k in [k for k in sys.modules if k == rootname or k.startswith(rootname + ".")]:
                del sys.modules[k]
    return out


def _run_cases(b, fn, seeds):
    for res in pmap(fn, seeds):
        b.case()
        for v in res:
            b.violation(v["case"], v["detail"], v["input"])


def _c04_single_module(seed):
    """module_path = a directory whose scan yields ONE module, 2-4 levels below root_path (an empty directory, or one whose content is excluded): the architecture is the chain
    root .. module_path, and 'the sub modules of a module are exactly the modules whose dotted name extends it' (defect F04a: the chain stayed unlinked above the direct parent)."""
    rng = random.Random(seed)
    depth = 2 + seed % 3
    comps = rng.sample(["a", "ab", "b", "core", "x", "pyx"], depth)
    rel = "/".join(comps)
    files = {"__init__.py": "", "other.py": ""}
    variant = seed % 2
    if variant == 0:
        files[rel + "/"] = ""                       # an empty directory
        kw = {}
    else:
        files[rel + "/only.py"] = ""
        kw = dict(exclusions=("*only.py",))         # its one file is excluded
    out = []
    with temp_project(files, ROOT) as root:
        arch = scan(root, os.path.join(root, rel), **kw)
        mods, imps, hier = arch_snapshot(arch)
        chain = [ROOT] + [ROOT + "." + ".".join(comps[:i]) for i in range(1, depth + 1)]
        from pytestarch.eval_structure.breadth_first_searches import get_all_submodules_of
        from pytestarch.eval_structure.evaluable_architecture import ModuleNameFilter
        if set(mods) != set(chain):
            out.append(dict(case="single-module-scan", detail=f"module_path={rel} ({'empty directory' if variant == 0 else 'only file excluded'}): modules {sorted(mods)}, expected the chain {chain}",
                            input=dict(kind="c04-single", seed=seed)))
            return out
        for m in chain:
            subs = set(get_all_submodules_of(arch._graph, ModuleNameFilter(name=m)))
            want = {x for x in chain if x == m or x.startswith(m + ".")}
            if subs != want:
                out.append(dict(case="single-module-scan", detail=f"module_path={rel} ({'empty directory' if variant == 0 else 'only file excluded'}): {m} and its sub modules are {sorted(subs)}, the names extending it are {sorted(want)} "
                                f"(hierarchy edges {sorted(hier)})", input=dict(kind="c04-single", seed=seed)))
                return out
    return out


def bounded_tree_mirror(tier, seed):
    b = Bounded("C04.modules-mirror-directory-tree", "random directory trees (depth 2-4, 2-4 entries per directory from 8 names incl. string prefixes of siblings, packages with and without __init__.py, "
                "non-python files), 2-8 absolute imports; 400 (quick) / 15000 trees; per tree 2 sub-directory scans compared with the restriction of the whole-root scan; both import spellings below a "
                "sub-directory module_path; module-object entry point vs path entry point under 7 option sets; 12/120 scans whose only module lies 2-4 levels below root_path (empty directory / only file excluded): chain of modules and sub-module relation")
    n = 400 if tier == "quick" else 15000
    _run_cases(b, _c04_case, [seed * 100003 + i for i in range(n)])
    _run_cases(b, _c04_relative_spelling, [seed * 7 + i for i in range(4)])
    for res in pmap(_c04_sibling_scans, [(seed, i, rf) for i in range(6) for rf in (True, False)], fresh=True):
        b.case()
        for v in res:
            b.violation(v["case"], v["detail"], v["input"])
    _run_cases(b, _c04_module_objects, [seed % 1000])
    _run_cases(b, _c04_single_module, [seed * 31 + i for i in range(12 if tier == "quick" else 120)])
    b.samples.append(dict(tree=sorted(random_tree(random.Random(seed)))[:8]))
    return b.result()


def rerun_c04(inp):
    if inp["kind"] == "c04-sib":
        res = pmap(_c04_sibling_scans, [(inp["seed"], inp.get("order_idx", 0), inp.get("root_first", False))], fresh=True)[0]
        return (not res), ("; ".join(v["detail"] for v in res) or "every sub-directory scan equals the restriction of the whole-root scan")
    fn = {"c04": _c04_case, "c04-rel": _c04_relative_spelling, "c04-obj": _c04_module_objects, "c04-single": _c04_single_module}[inp["kind"]]
    res = fn(inp["seed"])
    return (not res), ("; ".join(v["detail"] for v in res) or "scan mirrors the tree")


# ---------------------------------------------------------------------------------------------- C08
def glob_matches(pattern, text):
    """Reference semantics of a glob-style exclusion (property C08): literal text in full, leading * any prefix, trailing * any suffix."""
    s = pattern.startswith("*")
    e = pattern.endswith("*")
    mid = pattern[(1 if s else 0):(len(pattern) - 1 if e else len(pattern))]
    if s and e:
        return mid in text
    if s:
        return text.endswith(mid)
    if e:
        return text.startswith(mid)
    return text == mid


def _glob_chunk(patterns):
    from pytestarch.utils.partial_match_to_regex_converter import convert_partial_match_to_regex
    alphabet = "a.*+"
    texts = [""] + ["".join(t) for n in range(1, 5) for t in itertools.product(alphabet, repeat=n)]
    bad, n = [], 0
    for p in patterns:
        rx = convert_partial_match_to_regex(p)
        for t in texts:
            n += 1
            if (re.match(rx, t) is not None) != glob_matches(p, t):
                if len(bad) < 3:
                    bad.append(dict(case="glob-conversion", detail=f"pattern {p!r} -> regex {rx!r}: re.match on {t!r} gives {re.match(rx, t) is not None}, glob semantics say {glob_matches(p, t)}",
                                    input=dict(kind="glob", pattern=p, text=t)))
    return n, bad


def _c08_case(seed):
    rng = random.Random(seed)
    files = random_tree(rng, depth=3)
    special = rng.choice(["gen", "c+d", "x(1)", "a$b"])
    files[f"{special}/__init__.py"] = ""
    files[f"{special}/inner/__init__.py"] = ""
    files[f"{special}/inner/deep.py"] = ""
    files[f"{special}x.py"] = ""       # sibling whose path starts with the same text
    files[f"pre{special}/__init__.py"] = ""
    files[f"pre{special}/m.py"] = ""
    # the same names in another letter case: patterns are case-sensitive
    files[f"{special.upper()}/__init__.py"] = ""
    files[f"{special.upper()}/Inner.py"] = ""
    files[f"{special.capitalize()}x.py"] = ""
    add_imports(files, rng, rng.randint(4, 10))
    out = []
    with temp_project(files, ROOT) as root:
        full = arch_snapshot(scan(root, exclusions=("*__pycache__*",)))
        allpaths = {root}
        for f in files:
            parts = [x for x in f.split("/") if x]      # (an empty directory is written as "dir/")
            for i in range(1, len(parts) + 1):
                allpaths.add(os.path.join(root, *parts[:i]))
        # the empty exclusion tuple excludes nothing (defect F08a: it crashed); same for an empty regex tuple, alone and together
        for kw in (dict(exclusions=()), dict(exclusions=(), regex_exclusions=()), dict(regex_exclusions=())):
            try:
                got = arch_snapshot(scan(root, **kw))
                if got != full:
                    out.append(dict(case="exclusion", detail=f"{kw}: differs from the scan without patterns: modules {sorted(got[0] ^ full[0])[:5]}, imports {sorted(got[1] ^ full[1])[:5]}", input=dict(kind="c08", seed=seed)))
            except Exception as ex:
                out.append(dict(case="exclusion", detail=f"{kw}: scan raised {type(ex).__name__}: {ex}", input=dict(kind="c08", seed=seed)))
        target = rng.choice(sorted(p for p in allpaths if p != root))
        name = os.path.basename(target)
        shapes = [target, "*" + name, target + "*", "*" + name + "*", "*/" + name, os.path.dirname(target) + "/" + name[:2] + "*",
                  "*/" + name + "/*", target + "/", "*" + name + "/"]        # (literal text ending in the path separator)
        for pat in rng.sample(shapes, 3) + ["<prefix-regex>"]:
            for mode in ("glob", "regex"):
                if pat == "<prefix-regex>":
                    # a regular expression is anchored at the START of the path only: one that matches a proper prefix of a path excludes it
                    if mode == "glob":
                        continue
                    rx = re.escape(os.path.dirname(target) + "/" + name[:max(1, len(name) - 1)])
                    kw = dict(exclusions=(), regex_exclusions=(rx,))
                    match = lambda p, rx=rx: re.match(rx, p) is not None
                elif mode == "glob":
                    kw = dict(exclusions=(pat,))
                    match = lambda p: glob_matches(pat, p)
                else:
                    s, e = pat.startswith("*"), pat.endswith("*")
                    mid = pat[(1 if s else 0):(len(pat) - 1 if e else len(pat))]
                    rx = (".*" if s else "") + re.escape(mid) + (".*" if e else "$")
                    kw = dict(exclusions=(), regex_exclusions=(rx,))
                    match = lambda p: re.match(rx, p) is not None
                try:
                    got = arch_snapshot(scan(root, **kw))
                except Exception as ex:
                    out.append(dict(case="exclusion", detail=f"{kw}: scan raised {type(ex).__name__}: {ex}", input=dict(kind="c08", seed=seed)))
                    continue
                removed = set()
                for p in sorted(allpaths):
                    if any(match(q) for q in [p] + [os.path.join(root, *os.path.relpath(p, root).split(os.sep)[:i]) for i in range(1, len(os.path.relpath(p, root).split(os.sep)))]) or match(root):
                        rel = os.path.relpath(p, root)
                        removed.add(modname(rel if rel != "." else ""))
                if match(root):
                    removed.add(ROOT)
                mods, imps, hier = full
                want_m = {m for m in mods if m not in removed}
                # a module whose file/dir is gone but which is still an ancestor of a remaining one stays as a package node
                want_m |= {p for m in want_m for p in parents(m)}
                want_i = {(a, c) for a, c in imps if a not in removed and c in want_m}
                if got[0] != want_m or got[1] != want_i:
                    out.append(dict(case="exclusion", detail=f"{kw} (matches {sorted(removed)[:6]}): modules differ by {sorted(got[0] ^ want_m)[:6]}, imports differ by {sorted(got[1] ^ want_i)[:6]}",
                                    input=dict(kind="c08", seed=seed)))
    return out


def _c08_entry_patterns(seed):
    """Patterns with doubled / inner markers through the public entry point: same result as the reference regex of the glob semantics."""
    files = {"__init__.py": "", "gen/__init__.py": "", "gen/a.py": "", "codegen/__init__.py": "", "codegen/b.py": "", "*gen/__init__.py": "", "*gen/c.py": "",
             "util/__init__.py": "", "utility.py": "", "util*/__init__.py": "", "util*/d.py": "", "x.py": "import proj.gen.a\nimport proj.codegen.b\n"}
    out = []
    with temp_project(files, ROOT) as root:
        for pat in ("**gen", "*gen", "*util**", "*util*", "**", "*", "*/gen", "*/*gen", "*/util*", "*/util**", root + "/*gen", root + "/**gen", root + "/util*", root + "/util**", "*/x.py", "*x.py*"):
            s_, e_ = pat.startswith("*"), pat.endswith("*")
            mid = pat[(1 if s_ else 0):(len(pat) - 1 if e_ else len(pat))]
            rx = (".*" if s_ else "") + re.escape(mid) + (".*" if e_ else "$")
            try:
                a = arch_snapshot(scan(root, exclusions=(pat,)))
            except Exception as ex:
                a = ("error", type(ex).__name__)
            try:
                b_ = arch_snapshot(scan(root, exclusions=(), regex_exclusions=(rx,)))
            except Exception as ex:
                b_ = ("error", type(ex).__name__)
            if a != b_:
                diff = sorted(a[0] ^ b_[0])[:6] if a[0] != "error" and b_[0] != "error" else (a[:2], b_[:2])
                out.append(dict(case="entry-glob", detail=f"exclusions=({pat!r},) differs from the regex of its glob meaning {rx!r}: {diff}", input=dict(kind="c08-entry", seed=seed)))
    return out[:3]


def bounded_exclusions(tier, seed):
    b = Bounded("C08.exclusions-remove-exactly-matching-paths", "glob->regex conversion: ALL patterns over the alphabet {a . * +} up to length 4 (quick) / 5 (thorough) x all texts up to length 4 "
                "(exhaustive); 200/6000 random project trees with names containing regex metacharacters and siblings sharing a prefix, per tree 3 patterns from the four glob shapes built from the "
                "tree's own paths, as glob and as the equivalent regex")
    alphabet = "a.*+"
    pats = [""] + ["".join(t) for n in range(1, 5 if tier == "quick" else 6) for t in itertools.product(alphabet, repeat=n)]
    pats = [p for p in pats if p]
    size = max(1, len(pats) // 16)
    for n, bad in pmap(_glob_chunk, [pats[i:i + size] for i in range(0, len(pats), size)]):
        b.cases += n
        b.nontrivial += n
        for v in bad:
            b.violation(v["case"], v["detail"], v["input"])
    b.samples.append(dict(pattern="*a.+", text="xa.+"))
    _run_cases(b, _c08_case, [seed * 100003 + i for i in range(200 if tier == "quick" else 6000)])
    _run_cases(b, _c08_entry_patterns, [seed])
    return b.result()


def rerun_c08(inp):
    if inp["kind"] == "c08-entry":
        res = _c08_entry_patterns(inp["seed"])
        return (not res), ("; ".join(v["detail"] for v in res) or "glob exclusions equal their regex meaning")
    if inp["kind"] == "glob":
        from pytestarch.utils.partial_match_to_regex_converter import convert_partial_match_to_regex
        rx = convert_partial_match_to_regex(inp["pattern"])
        got, want = re.match(rx, inp["text"]) is not None, glob_matches(inp["pattern"], inp["text"])
        return got == want, f"regex {rx!r}; re.match -> {got}; glob semantics -> {want}"
    res = _c08_case(inp["seed"])
    return (not res), ("; ".join(v["detail"] for v in res) or "exclusions remove exactly the matching paths")


# ---------------------------------------------------------------------------------------------- C09
def trunc(name, k, base_depth):
    parts = name.split(".")
    return ".".join(parts[:base_depth + k])


def _c09_case(seed):
    rng = random.Random(seed)
    files = random_tree(rng, depth=4, with_init=1.0)
    files["core/__init__.py"] = ""
    files["core/api/__init__.py"] = ""
    files["core/api/v1/__init__.py"] = ""
    files["core/api/v1/h.py"] = "from core.services.db import conn\n"
    files["core/api/v1/g.py"] = "import core.util.text.fmt\n"
    # imports of the importing module's own ancestor packages (an object defined in a package's __init__): edges like any other in the full graph and in the quotient
    files["core/api/v1/h.py"] += f"from {ROOT}.core import SETTINGS\nimport {ROOT}.core.api\n"
    files["core/services/db/conn.py"] = f"from {ROOT}.core.services import registry\n"
    files["core/util/__init__.py"] = ""
    files["core/util/text/__init__.py"] = ""
    files["core/util/text/fmt.py"] = "import core.api\n"
    files["core/services/__init__.py"] = ""
    files["core/API/__init__.py"] = ""
    files["core/API/w.py"] = f"import {ROOT}.core.api.v1.g\n"       # 'core.API' and 'core.api' are different modules at every level limit
    files["core/services/db/__init__.py"] = ""
    files["core/services/db/conn.py"] += f"import {ROOT}.core.api.v1\n"
    # shallow modules whose NAMES are longer than the dotted name of every deep module (depth is a number of components, not of characters: seed C09o)
    files["core/application_configuration_defaults_for_every_environment_and_region.py"] = f"import {ROOT}.core.api.v1.g\n"
    files["core/api/versioned_application_programming_interface_compatibility_shims.py"] = f"import {ROOT}.core.util.text.fmt\n"
    files["an_unusually_long_top_level_module_name_that_beats_every_dotted_path_below.py"] = f"import {ROOT}.core.services.db.conn\n"
    add_imports(files, rng, rng.randint(4, 12))
    out = []
    with temp_project(files, ROOT) as root:
        for sub in ("", "core", "core/api"):
            mp = os.path.join(root, sub) if sub else root
            base = modname(sub)
            base_depth = len(base.split("."))
            full = arch_snapshot(scan(root, mp))
            maxd = max(len(m.split(".")) for m in full[0]) - base_depth
            for k in range(1, max(2, maxd + 1)):
                got = arch_snapshot(scan(root, mp, level_limit=k))
                T = lambda m: trunc(m, k, base_depth)
                want_m = {T(m) for m in full[0]}
                want_i = {(T(a), T(c)) for a, c in full[1] if T(a) != T(c)}
                # an import that collapses onto a hierarchy edge stays a hierarchy edge in the single-edge graph
                want_i = {(a, c) for a, c in want_i}
                got_i = set(got[1]) | {(a, c) for (a, c) in got[2] if (a, c) in want_i}
                if got[0] != want_m or got_i != want_i:
                    out.append(dict(case="quotient", detail=f"module_path={sub or '.'} level_limit={k}: modules differ by {sorted(got[0] ^ want_m)[:5]}, imports differ by {sorted(got_i ^ want_i)[:5]}",
                                    input=dict(kind="c09", seed=seed)))
                    continue
                # verdict preservation for rules on names at or above the limit
                flat = scan(root, mp, level_limit=k)
                fullarch = scan(root, mp)
                names = sorted(m for m in want_m if m.startswith(base + "."))
                for _ in range(6):
                    if len(names) < 2:
                        break
                    s, o = rng.sample(names, 2)
                    if s.startswith(o + ".") or o.startswith(s + "."):
                        continue
                    for verb in ("should", "should_not", "should_only"):
                        for imp in (True, False):
                            for exc in (False, True):
                                r1 = outcome(make_rule([("name", s)], verb, imp, exc, [("name", o)]), flat)[0]
                                r2 = outcome(make_rule([("name", s)], verb, imp, exc, [("name", o)]), fullarch)[0]
                                if r1 != r2:
                                    out.append(dict(case="verdict-preservation", detail=f"module_path={sub or '.'} level_limit={k}: '{s} {verb} {'import' if imp else 'be imported by'}{' except' if exc else ''} {o}': "
                                                    f"flattened {r1}, full {r2}", input=dict(kind="c09", seed=seed)))
    return out[:3]


def bounded_level_limit(tier, seed):
    b = Bounded("C09.level-limit-is-the-quotient-graph", "150 (quick) / 5000 random project trees of depth <=4 plus a fixed 3-level package with src-layout absolute imports; module_path = root, one and two levels "
                "below; every k from 1 to the depth; flattened architecture compared with the truncation of the full one, and 6 random two-module rules x 12 shapes for verdict preservation")
    _run_cases(b, _c09_case, [seed * 100003 + i for i in range(150 if tier == "quick" else 5000)])
    b.samples.append(dict(module_path="core/api", level_limit=1))
    return b.result()


def rerun_c09(inp):
    res = _c09_case(inp["seed"])
    return (not res), ("; ".join(v["detail"] for v in res) or "flattened architecture is the quotient of the full one")


# ---------------------------------------------------------------------------------------------- C10
EXTERNALS = ["ro", "pro.j", "os", "os.path", "vendorlib.core.api", "vendorlib.extras", "vendorlib", "projx.util", "proj_tools", "ab.cd", "a", "corelib.handlers", "shopify.resources.order"]


def _c10_case(seed):
    rng = random.Random(seed)
    files = random_tree(rng, depth=3, with_init=1.0)
    files["handlers.py"] = ""
    files["core/__init__.py"] = ""
    files["core/handlers.py"] = "import proj.handlers\n"
    files["core/m.py"] = "import proj.core.handlers\nimport proj.core_plugins.builtin.x\nfrom . import handlers\n"
    files["core_plugins/__init__.py"] = ""
    files["core_plugins/builtin/__init__.py"] = ""
    files["core_plugins/builtin/x.py"] = "from .. import builtin\n"
    # relative imports with a dotted module part (defect F10b: their 'parent modules' were taken from the text as written and showed up as external modules)
    files["core/sub/__init__.py"] = ""
    files["core/sub/deep.py"] = "from ..handlers import h\nfrom .. import m\n"
    files["core/m.py"] += "from .sub.deep import thing\nfrom .sub import deep\n"
    # an OBJECT imported relatively from the package, and the root package imported by name (defect F10c: both showed up as additional internal nodes / imports
    # when externals were included)
    files["core/__init__.py"] = "CONST = 1\n"
    files["core/handlers.py"] += f"from . import CONST\nimport {ROOT}\n"
    files["core/sub/deep.py"] += "from .. import CONST\n"
    ext_edges = set()
    add_imports(files, rng, rng.randint(6, 14), externals=EXTERNALS)
    edges = edges_of(files)
    out = []
    with temp_project(files, ROOT) as root:
        for sub in ("", "core"):
            mp = os.path.join(root, sub) if sub else root
            base = modname(sub)
            internal = lambda m: m == base or m.startswith(base + ".")
            ref = arch_snapshot(scan(root, mp))
            inp = dict(kind="c10", seed=seed)
            bad_mods = {m for m in ref[0] if not internal(m) and m not in parents(base)}
            if bad_mods or any(not internal(c) and c not in parents(base) for a, c in ref[1]):
                out.append(dict(case="excluded", detail=f"module_path={sub or '.'}: externals excluded but architecture has modules {sorted(bad_mods)[:5]} outside module_path", input=inp))
            int_mods = {m for m in ref[0] if internal(m)}
            int_imps = {(a, c) for a, c in ref[1] if internal(a) and internal(c)}
            configs = [dict(exclude_external_libraries=False)]
            for pat in rng.sample(["os*", "vendorlib.core", "vendorlib.core*", "*handlers", "*handlers*", "vendorlib", "proj*", "*core*", "a", "*.util", "ab*"], 4):
                # (an EMPTY tuple for the other spelling is no pattern at all and must not disturb the one that is given)
                configs.append(dict(exclude_external_libraries=False, external_exclusions=(pat,), **(dict(regex_external_exclusions=()) if rng.random() < 0.4 else {})))
                s, e = pat.startswith("*"), pat.endswith("*")
                mid = pat[(1 if s else 0):(len(pat) - 1 if e else len(pat))]
                configs.append(dict(exclude_external_libraries=False, regex_external_exclusions=((".*" if s else "") + re.escape(mid) + (".*" if e else "$"),),
                                    **(dict(external_exclusions=()) if rng.random() < 0.4 else {})))
            for kw in configs + [dict()]:
                got = arch_snapshot(scan(root, mp, **kw))
                if not kw:
                    # the default scan repeated after the include-mode scans in the same process
                    if got != ref:
                        out.append(dict(case="repeat", detail=f"module_path={sub or '.'}: the default scan repeated after include-mode scans differs: modules {sorted(got[0] ^ ref[0])[:5]} imports {sorted(got[1] ^ ref[1])[:5]}", input=inp))
                    continue
                g_int_mods = {m for m in got[0] if internal(m)}
                g_int_imps = {(a, c) for a, c in got[1] if internal(a) and internal(c)}
                if g_int_mods != int_mods or g_int_imps != int_imps:
                    out.append(dict(case="internal-frame", detail=f"module_path={sub or '.'} {kw}: internal modules/imports changed: modules {sorted(g_int_mods ^ int_mods)[:5]} imports {sorted(g_int_imps ^ int_imps)[:5]}", input=inp))
                    continue
                pats = kw.get("external_exclusions") or kw.get("regex_external_exclusions") or ()
                if kw.get("external_exclusions"):
                    m_ = lambda x: any(glob_matches(p, x) for p in pats)
                else:
                    m_ = lambda x: any(re.match(p, x) for p in pats)
                ext_imports = {(a, c) for a, c in edges if internal(a) and not internal(c) and c not in parents(base)}
                kept = {(a, c) for a, c in ext_imports if not (m_(c) or any(m_(p) for p in parents(c)))}
                want_ext_mods = {c for a, c in kept} | {p for a, c in kept for p in parents(c)}
                want_ext_mods = {m for m in want_ext_mods if not m_(m) and m not in parents(base)}
                got_ext_mods = {m for m in got[0] if not internal(m) and m not in parents(base)}
                got_ext_imps = {(a, c) for a, c in got[1] if internal(a) and not internal(c) and c not in parents(base)}
                want_ext_imps = {(a, c) for a, c in kept if c in want_ext_mods}
                if got_ext_mods != want_ext_mods or got_ext_imps != want_ext_imps:
                    out.append(dict(case="externals", detail=f"module_path={sub or '.'} {kw}: external modules differ by {sorted(got_ext_mods ^ want_ext_mods)[:5]}, external imports differ by {sorted(got_ext_imps ^ want_ext_imps)[:5]}", input=inp))
    return out[:3]


def bounded_externals(tier, seed):
    b = Bounded("C10.external-options-touch-only-externals", "200 (quick) / 8000 random project trees with 6-14 imports, 40% of them to 11 external names (nested packages, names sharing prefixes/suffixes with "
                "internal modules); module_path = root and one level below; externals excluded, included, and included with 4 glob patterns (and the equivalent regexes) out of 11, some of which "
                "textually match internal module names")
    _run_cases(b, _c10_case, [seed * 100003 + i for i in range(200 if tier == "quick" else 8000)])
    b.samples.append(dict(external_exclusions=["*handlers"], internal_module="proj.core.handlers"))
    return b.result()


def rerun_c10(inp):
    res = _c10_case(inp["seed"])
    return (not res), ("; ".join(v["detail"] for v in res) or "external options affect only external modules")
