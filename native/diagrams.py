"""Bounded stand-ins for C06 (PlantUML parsing) and C07 (DiagramRule verdict = conformance)."""
from __future__ import annotations

import itertools
import os
import random
import tempfile

from .common import Bounded, build_arch, pmap, outcome

DECLS = ["[{n}]", "component {n}", "component [{n}]", "[{n}] as {a}", "component [{n}] as {a}", "component {n} as {a}", None]
ARROWS_R = ["-->", "->", "-uses->", "-up->"]
ARROWS_L = ["<--", "<-", "<-uses-", "<-down-"]
NOISE = ["This text is ignored", "' a comment", "title Demo [x] --> [y]",
         # lines that would be perfectly good diagram lines INSIDE the tags (seed C06n: arrows outside the tags were parsed)
         "legacy --> removed", "[old] -> [gone]", "ghost <-- phantom", "stale -uses-> nothing", "component zombie", "[zombie2] as z", "component [undead] as u"]


def gen_diagram(rng, names, relation, dotted=False):
    """-> (text, expected components, expected dependencies) for a random rendering of the component relation."""
    decl = {}
    alias = {}
    lines = []
    for i, n in enumerate(names):
        form = rng.choice(DECLS)
        if form is None:
            continue
        a = f"al{i}"
        if "{a}" in form:
            alias[n] = a
        lines.append(form.format(n=n, a=a))
        decl[n] = form
    referenced = set()
    for (x, y) in relation:
        def ref(n):
            referenced.add(n)
            forms = [f"[{n}]"]
            if n in alias:
                forms.append(alias[n])
            if n in decl and "." not in n:
                forms.append(n) if False else None
            return rng.choice(forms)
        if rng.random() < 0.5:
            lines.append(f"{ref(x)} {rng.choice(ARROWS_R)} {ref(y)}")
        else:
            lines.append(f"{ref(y)} {rng.choice(ARROWS_L)} {ref(x)}")
    rng.shuffle(lines)
    pre = [rng.choice(NOISE) for _ in range(rng.randint(0, 2))]
    post = [rng.choice(NOISE) for _ in range(rng.randint(0, 2))]
    text = "\n".join(pre + ["@startuml"] + lines + ["@enduml"] + post) + "\n"
    comps = set(decl) | referenced
    deps = {}
    for x, y in relation:
        deps.setdefault(x, set()).add(y)
    return text, comps, deps


def parse_text(text):
    from pytestarch.diagram_extension.diagram_parser import PumlParser
    fd, path = tempfile.mkstemp(suffix=".puml", dir=os.environ.get("PYVC_TMP"))
    try:
        with os.fdopen(fd, "w") as f:
            f.write(text)
        from pathlib import Path
        pd = PumlParser().parse(Path(path))
        return set(pd.all_modules), {k: set(v) for k, v in pd.dependencies.items()}
    finally:
        os.unlink(path)


def _c06_case(seed):
    rng = random.Random(seed)
    dotted = rng.random() < 0.3
    pool = ["core", "api", "db", "util", "ui", "domain"] if not dotted else ["src.core", "src.api", "src.db.models", "pkg.util", "ui"]
    names = rng.sample(pool, rng.randint(2, len(pool)))
    pairs = [(a, b) for a in names for b in names if a != b]
    relation = rng.sample(pairs, rng.randint(1, min(5, len(pairs))))
    text, comps, deps = gen_diagram(rng, names, relation, dotted)
    try:
        got_c, got_d = parse_text(text)
    except Exception as e:
        return [dict(case="parse", detail=f"diagram {text!r} raised {type(e).__name__}: {e}", input=dict(kind="c06", seed=seed))]
    got_d = {k: v for k, v in got_d.items() if v}
    if got_c != comps or got_d != deps:
        return [dict(case="parse", detail=f"diagram {text!r}: components {sorted(got_c)} (expected {sorted(comps)}), dependencies { {k: sorted(v) for k, v in got_d.items()} } "
                     f"(expected { {k: sorted(v) for k, v in deps.items()} })", input=dict(kind="c06", seed=seed))]
    return []


def _c06_same_path(seed):
    """One .puml path rewritten in place with different diagrams (some of identical byte length) and parsed again in the same process."""
    from pytestarch.diagram_extension.diagram_parser import PumlParser
    from pathlib import Path
    texts = ["@startuml\n[aa] --> [bb]\n[cc]\n@enduml\n", "@startuml\n[aa] <-- [bb]\n[cc]\n@enduml\n", "@startuml\n[bb] --> [aa]\n[dd]\n@enduml\n",
             "@startuml\n[aa] --> [bb]\n[aa] --> [cc]\n@enduml\n", "@startuml\n[aa] --> [bb]\n[cc]\n@enduml\n"]
    want = [({"aa", "bb", "cc"}, {"aa": {"bb"}}), ({"aa", "bb", "cc"}, {"bb": {"aa"}}), ({"aa", "bb", "dd"}, {"bb": {"aa"}}),
            ({"aa", "bb", "cc"}, {"aa": {"bb", "cc"}}), ({"aa", "bb", "cc"}, {"aa": {"bb"}})]
    out = []
    fd, path = tempfile.mkstemp(suffix=".puml", dir=os.environ.get("PYVC_TMP"))
    os.close(fd)
    try:
        parser = PumlParser()
        for i, (t, w) in enumerate(zip(texts, want)):
            with open(path, "w") as f:
                f.write(t)
            st = os.stat(path)
            os.utime(path, (st.st_atime, st.st_mtime))
            for prs in (parser, PumlParser()):
                pd = prs.parse(Path(path))
                got = (set(pd.all_modules), {k: set(v) for k, v in pd.dependencies.items() if v})
                if got != w:
                    out.append(dict(case="same-path", detail=f"diagram #{i} written to the same path: parsed {got}, file says {w}", input=dict(kind="c06-path", seed=seed)))
                    return out
    finally:
        os.unlink(path)
    return out


def bounded_puml(tier, seed):
    from pytestarch.diagram_extension.exceptions import PumlParsingError
    b = Bounded("C06.puml-parse-vs-generated-relation", "random component relations over 2-6 components (30% with dotted fully qualified names), per component one of 6 declaration forms or undeclared, "
                "per arrow one of 8 arrow forms and a bracketed-name or alias reference, shuffled line order, 0-2 noise lines before @startuml and after @enduml; 10000 (quick) / 400000 diagrams; "
                "files without tags must raise PumlParsingError")
    for res in pmap(_c06_case, [seed * 100003 + i for i in range(10000 if tier == "quick" else 400000)]):
        b.case()
        for v in res:
            b.violation(v["case"], v["detail"], v["input"])
    for v in _c06_same_path(seed):
        b.violation(v["case"], v["detail"], v["input"])
    b.case()
    for text in ("[a] --> [b]\n", "@startuml\n[a] --> [b]\n", "[a] --> [b]\n@enduml\n", ""):
        b.case()
        try:
            parse_text(text)
            b.violation("tags", f"file without start/end tags was accepted: {text!r}", dict(kind="c06-tags", text=text))
        except PumlParsingError:
            pass
        except Exception as e:
            b.violation("tags", f"file without tags raised {type(e).__name__}, not PumlParsingError", dict(kind="c06-tags", text=text))
    b.samples.append(dict(diagram=gen_diagram(random.Random(seed), ["core", "api", "db"], [("core", "api"), ("api", "db")])[0]))
    return b.result()


def rerun_c06(inp):
    if inp["kind"] == "c06-path":
        res = _c06_same_path(inp["seed"])
        return (not res), ("; ".join(v["detail"] for v in res) or "each parse reflects the file's current content")
    if inp["kind"] == "c06-tags":
        from pytestarch.diagram_extension.exceptions import PumlParsingError
        try:
            parse_text(inp["text"])
            return False, "accepted"
        except PumlParsingError:
            return True, "PumlParsingError"
        except Exception as e:
            return False, type(e).__name__
    res = _c06_case(inp["seed"])
    return (not res), ("; ".join(v["detail"] for v in res) or "parse result equals the generated relation")


# ---------------------------------------------------------------------------------------------- C07
def conforms(mods, imports, comps, relation, should_only):
    """Reference (property C07). Component c stands for the module c and everything below it."""
    def inside(m, c):
        return m == c or m.startswith(c + ".")
    I = set(imports)

    def imp(a, b):
        return any(inside(x, a) and inside(y, b) for x, y in I)
    for a in comps:
        for b in comps:
            if a == b:
                continue
            if (a, b) in relation:
                if not imp(a, b):
                    return False
            elif imp(a, b):
                return False
    if should_only:
        for a in {x for x, _ in relation}:
            targets = {y for x, y in relation if x == a}
            for x, y in I:
                if inside(x, a) and not inside(y, a) and not any(inside(y, t) for t in targets):
                    return False
    return True


def _c07_case(seed):
    from pytestarch import DiagramRule
    from pathlib import Path
    rng = random.Random(seed)
    comps = rng.sample(["core", "api", "db", "util", "ui", "shop", "größe"], rng.randint(2, 5))
    pairs = [(a, b) for a in comps for b in comps if a != b]
    relation = set(rng.sample(pairs, rng.randint(0, min(5, len(pairs)))))
    base = rng.choice(["app", "shop", "r"])
    mods = [base] + [f"{base}.{c}" for c in comps] + [f"{base}.{c}.sub" for c in comps[:2]] + [f"{base}.bystander", f"{base}.{comps[0]}x"]
    cand = [m for m in mods if m != base]
    # imports: mostly conforming, then perturbed
    imports = set()
    for a, b in relation:
        imports.add((rng.choice([f"{base}.{a}"] + ([f"{base}.{a}.sub"] if a in comps[:2] else [])), f"{base}.{b}"))
    for _ in range(rng.randint(0, 2)):
        x, y = rng.sample(cand, 2)
        if not x.startswith(y + ".") and not y.startswith(x + "."):
            imports.add((x, y))
    if imports and rng.random() < 0.3:
        imports.discard(rng.choice(sorted(imports)))
    if rng.random() < 0.25:
        # a module importing the base package, i.e. one of its own ancestors: that is 'something outside the drawn targets and the component itself'
        imports.add((rng.choice(cand), base))
    arch = build_arch(mods, sorted(imports))
    # some components are declared with an alias, which the arrows then use on either side
    aliased = {c: f"AL{i}" for i, c in enumerate(comps) if rng.random() < 0.3}
    ref = lambda c: aliased[c] if c in aliased and rng.random() < 0.7 else f"[{c}]"
    lines = [f"[{c}] as {aliased[c]}" for c in comps if c in aliased] + \
            [f"[{c}]" for c in comps if c not in aliased and (rng.random() < 0.7 or not any(c in p for p in relation))] + [f"{ref(a)} --> {ref(b)}" for a, b in sorted(relation)]
    out = []
    for naming in ("with_base", "included"):
        names = (lambda c: c) if naming == "with_base" else (lambda c: f"{base}.{c}")
        if naming == "included":
            continue  # component names cannot contain dots in the documented single-identifier form; covered by C06's dotted-name cases
        text = "@startuml\n" + "\n".join(lines) + "\n@enduml\n"
        fd, path = tempfile.mkstemp(suffix=".puml", dir=os.environ.get("PYVC_TMP"))
        with os.fdopen(fd, "w") as f:
            f.write(text)
        try:
            for should_only in (True, False):
                rule = DiagramRule(should_only_rule=should_only).from_file(Path(path)).with_base_module(base)
                if rng.random() < 0.5:
                    # the same rule object was applied before: to a violating and to a conforming architecture
                    bad_arch = build_arch(mods, sorted(imports) + [(f"{base}.{comps[-1]}", f"{base}.{comps[0]}"), (f"{base}.{comps[0]}", f"{base}.{comps[-1]}")])
                    outcome(rule, bad_arch)
                    outcome(rule, arch)
                    outcome(rule, bad_arch)
                kind, msg = outcome(rule, arch)
                full = [f"{base}.{c}" for c in comps]
                want = conforms(mods, imports, full, {(f"{base}.{a}", f"{base}.{b}") for a, b in relation}, should_only)
                if kind == "error" or (kind == "pass") != want:
                    out.append(dict(case="conformance", detail=f"diagram {text!r} base {base} should_only={should_only} imports {sorted(imports)}: real outcome {kind} ({msg}); conformance says {'pass' if want else 'fail'}",
                                    input=dict(kind="c07", seed=seed)))
                elif kind == "fail":
                    # aggregated message: every violated forbidden pair shows up
                    for a in comps:
                        for b_ in comps:
                            if a != b_ and (a, b_) not in relation:
                                for x, y in imports:
                                    if (x == f"{base}.{a}" or x.startswith(f"{base}.{a}.")) and (y == f"{base}.{b_}" or y.startswith(f"{base}.{b_}.")):
                                        if f'"{x}" imports "{y}"' not in msg:
                                            out.append(dict(case="aggregation", detail=f"violated pair {x} -> {y} missing from the aggregated message {msg!r}", input=dict(kind="c07", seed=seed)))
        finally:
            os.unlink(path)
    return out[:3]


def bounded_diagram_rule(tier, seed):
    b = Bounded("C07.diagram-rule-vs-conformance", "random component relations over 2-5 components (incl. isolated declared components, a component named like the base module), import graphs over the "
                "components, their sub modules, a bystander and a prefix-named sibling: conforming imports randomly perturbed; both modes (should-only / should); with_base_module naming; "
                "6000 (quick) / 250000 cases; on failure every violated forbidden pair must appear in the aggregated message")
    for res in pmap(_c07_case, [seed * 100003 + i for i in range(6000 if tier == "quick" else 250000)]):
        b.case()
        for v in res:
            b.violation(v["case"], v["detail"], v["input"])
    b.samples.append(dict(diagram="@startuml\n[core]\n[api] --> [core]\n@enduml", base="app", mode="should_only"))
    return b.result()


def rerun_c07(inp):
    res = _c07_case(inp["seed"])
    return (not res), ("; ".join(v["detail"] for v in res) or "DiagramRule outcome equals conformance")
