"""Bounded stand-ins over the rule-evaluation pipeline (C01, C03, C11, C12, C13 unknown names, C14 renaming, C15)."""
from __future__ import annotations

import itertools
import random
import re

from .common import (TREES, Bounded, all_pairs, build_arch, arch_snapshot, desc_set, doc_verdict, fset, import_relations, make_rule,
                     no_parent_self_import, outcome, pmap, unrelated, batch_as)

SHAPES = [(v, i, e) for v in ("should", "should_only", "should_not") for i in (True, False) for e in (False, True)]


def rule_space(mods, rng, n, max_side=2, kinds=("name", "sub")):
    """Random (subjects, objects) with pairwise unrelated identifiers; filters of one kind per side (public API)."""
    cand = [m for m in mods if "." in m]
    out = []
    tries = 0
    while len(out) < n and tries < n * 30:
        tries += 1
        ns, no = rng.randint(1, max_side), rng.randint(1, max_side)
        names = rng.sample(cand, min(len(cand), ns + no))
        if len(names) < ns + no or not unrelated(names):
            continue
        ks, ko = rng.choice(kinds), rng.choice(kinds)
        out.append(([(ks, x) for x in names[:ns]], [(ko, x) for x in names[ns:]]))
    return out


# ---------------------------------------------------------------------------------------------- message parsing (C03)
_ITEM = r'(?:a sub module of )?"([^"]+)"'
_CONCRETE = re.compile(r'^"([^"]+)" (imports|is imported by) "([^"]+)"\.$')
_MISSING = re.compile(r'^((?:a sub module of |[Ss]ub modules of )?"[^"]+") (does not import|is not imported by|do not import|are not imported by) (any module that is not )?(.*)\.$')


def parse_message(msg):
    """-> (concrete pairs {(subject-side, other)}, missing {(subject name): frozenset(object names)}, unparsed lines)"""
    concrete, missing, bad = set(), {}, []
    for line in msg.split("\n"):
        m = _CONCRETE.match(line)
        if m:
            concrete.add((m.group(1), m.group(3)))
            continue
        m = _MISSING.match(line)
        if m:
            subj = re.findall(r'"([^"]+)"', m.group(1))[0]
            objs = frozenset(re.findall(_ITEM, m.group(4)))
            if subj in missing:
                bad.append(line)
            missing[subj] = objs
            continue
        bad.append(line)
    return concrete, missing, bad


def reference_report(mods, imports, S, verb, imp, exc, O):
    """Reference violating set (property C03), in the orientation of the message lines: subject side first."""
    I = set(imports) if imp else {(b, a) for a, b in imports}

    def edges(s, o):
        return {(n, c) for (n, c) in I if n in fset(mods, s) and c in fset(mods, o)}

    def others(s):
        objs = set().union(*[fset(mods, o) for o in O])
        inside = desc_set(mods, s[1])
        return {(n, c) for (n, c) in I if n in fset(mods, s) and c not in inside and c not in objs}

    concrete, missing = set(), {}
    if not exc:
        if verb == "should_not":
            for s in S:
                for o in O:
                    concrete |= edges(s, o)
        if verb in ("should", "should_only"):
            for s in S:
                miss = frozenset(o[1] for o in O if not edges(s, o))
                if miss:
                    missing[s[1]] = miss
        if verb == "should_only":
            for s in S:
                concrete |= others(s)
    else:
        if verb in ("should_not", ):
            for s in S:
                concrete |= others(s)
        if verb in ("should", "should_only"):
            for s in S:
                if not others(s):
                    missing[s[1]] = frozenset(o[1] for o in O)
        if verb == "should_only":
            for s in S:
                for o in O:
                    concrete |= edges(s, o)
    return concrete, missing


# ---------------------------------------------------------------------------------------------- C01 + C03 worker
def _verdict_chunk(args):
    tree, rels, seed, n_rules, check_report, max_side = args
    mods = TREES[tree]
    rng = random.Random(seed)
    out = dict(cases=0, nontrivial=0, violations=[], samples=[])
    for listed in rels:
        arch = build_arch(mods, listed)
        # the oracle judges the ARCHITECTURE's import relation (property C01): what the built graph holds. For import lists
        # between unrelated modules that is the list itself; an import from a package node to its own direct sub module cannot
        # be represented next to the hierarchy edge (single edge per pair) and is not part of the architecture.
        imports = tuple(sorted(arch_snapshot(arch)[1]))
        for S, O in rule_space(mods, rng, n_rules, max_side):
            if not no_parent_self_import(imports, S + O):
                continue
            for verb, imp, exc in SHAPES:
                # batches are passed as a list, every third batched case as a tuple (both are Sequence[str])
                as_tuple = (len(S) > 1 or len(O) > 1) and out["cases"] % 3 == 2
                with batch_as(tuple if as_tuple else list):
                    kind, msg = outcome(make_rule(S, verb, imp, exc, O), arch)
                want = doc_verdict(mods, imports, S, verb, imp, exc, O)
                out["cases"] += 1
                out["nontrivial"] += bool(imports)
                inp = dict(tree=tree, imports=[list(p) for p in listed], subjects=S, verb=verb, import_=imp, except_=exc, objects=O, batch="tuple" if as_tuple else "list")
                if len(out["samples"]) < 1 and imports:
                    out["samples"].append(dict(inp, verdict=kind))
                if kind == "error" or (kind == "pass") != want:
                    if len(out["violations"]) < 3:
                        out["violations"].append(dict(case="verdict", detail=f"real outcome {kind} ({msg}); documented semantics say {'pass' if want else 'fail'}", input=inp))
                    continue
                if check_report and kind == "fail":
                    got_c, got_m, bad = parse_message(msg)
                    ref_c, ref_m = reference_report(mods, imports, S, verb, imp, exc, O)
                    if bad or got_c != ref_c or got_m != ref_m:
                        if len(out["violations"]) < 3:
                            out["violations"].append(dict(case="report", detail=f"message {msg!r}: reported pairs {sorted(got_c)} / missing { {k: sorted(v) for k, v in got_m.items()} }, "
                                                          f"reference {sorted(ref_c)} / { {k: sorted(v) for k, v in ref_m.items()} }, unparsed {bad}", input=inp))
            # a regex subject / object stands for the modules whose names it matches FROM THE START (re.match): a pattern with an alternative that occurs
            # only further right in other modules' names selects nothing more; verdict and reported pairs are those of the rule naming the matched module
            cand = [m for m in mods if m.count(".") >= 1]
            for _ in range(2):
                a = rng.choice(cand)
                tails = sorted({m.rsplit(".", 1)[1] for m in mods if "." in m and m != a and not m.startswith(a + ".") and not a.startswith(m + ".")})
                if not tails:
                    continue
                t = rng.choice(tails)
                rx = re.escape(a) + "$|" + re.escape(t) + "$|\\." + re.escape(t) + "$"
                if [m for m in mods if re.match(rx, m)] != [a]:
                    continue
                others_ = [m for m in cand if unrelated([a, m])]
                if not others_:
                    continue
                o = rng.choice(others_)
                for side in ("subject", "object"):
                  for rverb in ("should_not", "should"):
                    for imp in (True, False):
                        for exc in (False, True):
                            S_rx, O_rx = ([("regex", rx)], [("name", o)]) if side == "subject" else ([("name", o)], [("regex", rx)])
                            S_nm, O_nm = ([("name", a)], [("name", o)]) if side == "subject" else ([("name", o)], [("name", a)])
                            if not no_parent_self_import(imports, S_nm + O_nm):
                                continue
                            kind, msg = outcome(make_rule(S_rx, rverb, imp, exc, O_rx), arch)
                            want = doc_verdict(mods, imports, S_nm, rverb, imp, exc, O_nm)
                            out["cases"] += 1
                            inp = dict(tree=tree, imports=[list(p) for p in listed], regex=rx, regex_side=side, matched=a, other=o, verb=rverb, import_=imp, except_=exc)
                            if kind == "error" or (kind == "pass") != want:
                                if len(out["violations"]) < 3:
                                    out["violations"].append(dict(case="verdict-regex", detail=f"regex {rx!r} ({side}) matches only {a!r} from the start; real outcome {kind} ({msg}); "
                                                                  f"the rule naming {a!r} is documented to {'pass' if want else 'fail'}", input=inp))
                            elif check_report and kind == "fail":
                                # the message names the MODULES the regex stands for (pairs and, for a missing import, the subject with the objects it lacks)
                                got_c, got_m, bad = parse_message(msg)
                                ref_c, ref_m = reference_report(mods, imports, S_nm, rverb, imp, exc, O_nm)
                                if got_c != ref_c or got_m != ref_m:
                                    if len(out["violations"]) < 3:
                                        out["violations"].append(dict(case="report-regex", detail=f"regex {rx!r} ({side}) matches only {a!r} from the start; message {msg!r} reports {sorted(got_c)} / "
                                                                      f"{ {k: sorted(v) for k, v in got_m.items()} }, reference {sorted(ref_c)} / { {k: sorted(v) for k, v in ref_m.items()} }", input=inp))
            # a partial name '*text' stands for the modules whose names END with text (glob semantics, C08/C11): text occurring further left in other names selects nothing more
            for _ in range(2):
                a = rng.choice(cand)
                tail = a.rsplit(".", 1)[1]
                if [m for m in mods if m.endswith(tail)] != [a] or not any(tail in m and not m.endswith(tail) for m in mods):
                    continue
                others_ = [m for m in cand if unrelated([a, m])]
                if not others_:
                    continue
                o = rng.choice(others_)
                for side in ("subject", "object"):
                    for verb in ("should", "should_not"):
                        for imp in (True, False):
                            S_p, O_p = ([("partial", "*" + tail)], [("name", o)]) if side == "subject" else ([("name", o)], [("partial", "*" + tail)])
                            S_nm, O_nm = ([("name", a)], [("name", o)]) if side == "subject" else ([("name", o)], [("name", a)])
                            kind, msg = outcome(make_rule(S_p, verb, imp, False, O_p), arch)
                            want = doc_verdict(mods, imports, S_nm, verb, imp, False, O_nm)
                            out["cases"] += 1
                            inp = dict(tree=tree, imports=[list(p) for p in listed], partial="*" + tail, partial_side=side, matched=a, other=o, verb=verb, import_=imp, except_=False)
                            if kind == "error" or (kind == "pass") != want:
                                if len(out["violations"]) < 3:
                                    out["violations"].append(dict(case="verdict-partial-name", detail=f"partial name {'*' + tail!r} ({side}) matches only {a!r}; real outcome {kind} ({msg}); "
                                                                  f"the rule naming {a!r} is documented to {'pass' if want else 'fail'}", input=inp))
                            elif check_report and kind == "fail":
                                got_c, got_m, bad = parse_message(msg)
                                ref_c, ref_m = reference_report(mods, imports, S_nm, verb, imp, False, O_nm)
                                if got_c != ref_c or (side == "subject" and set(got_m) != set(ref_m)):
                                    if len(out["violations"]) < 3:
                                        out["violations"].append(dict(case="report-partial-name", detail=f"partial name {'*' + tail!r} ({side}) matches only {a!r}; message {msg!r} reports {sorted(got_c)} / subjects {sorted(got_m)}, "
                                                                      f"reference {sorted(ref_c)} / {sorted(ref_m)}", input=inp))
            # 'anything' with a subject AND one of its descendants listed: every import leaving all listed sub trees is a violation under every reading
            # ('a rule per subject' / 'sub modules of a listed subject are dropped'); nothing that stays inside its own subject's sub tree is one
            nested = [(a, d) for a in cand for d in cand if d.startswith(a + ".")]
            for _ in range(2 if nested else 0):
                a, d = rng.choice(nested)
                S = [("name", a), ("name", d)]
                extra = [m for m in cand if unrelated([a, m])]
                if extra and rng.random() < 0.5:
                    S.append(("name", rng.choice(extra)))
                rng.shuffle(S)
                for imp in (True, False):
                    kind, msg = outcome(make_rule(S, "should_not", imp, False, None, anything=True), arch)
                    I = set(imports) if imp else {(b, a_) for a_, b in imports}
                    inside = set().union(*[desc_set(mods, s[1]) for s in S])
                    certain = {(n, c) for (n, c) in I if n in inside and c not in inside}
                    possible = {(n, c) for (n, c) in I if any(n in desc_set(mods, s[1]) and c not in desc_set(mods, s[1]) for s in S)}
                    out["cases"] += 1
                    inp = dict(tree=tree, imports=[list(p) for p in listed], subjects=S, verb="should_not", import_=imp, anything=True, nested=True)
                    problem = None
                    if kind == "error" or (certain and kind != "fail") or (not possible and kind != "pass"):
                        problem = f"real outcome {kind} ({msg}); imports that leave every listed sub tree: {sorted(certain)}; imports that leave their own subject's sub tree: {sorted(possible)}"
                    elif check_report and kind == "fail":
                        got_c, _, bad = parse_message(msg)
                        if not (certain <= got_c <= possible):
                            problem = f"message {msg!r} reports {sorted(got_c)}; must contain {sorted(certain)} and stay within {sorted(possible)}"
                    if problem and len(out["violations"]) < 3:
                        out["violations"].append(dict(case="anything-nested-subjects", detail=problem, input=inp))
            # 'sub modules of X should not import / be imported by anything': whether X's OWN imports count is left open by the documentation, so only the two
            # certain cases are judged: an import from a strict sub module of X that leaves X's sub tree is a violation; no import leaving the sub tree at all is a pass
            for imp in (True, False):
                for x in rng.sample(cand, min(2, len(cand))):
                    if not any(m.startswith(x + ".") for m in mods):
                        continue
                    kind, msg = outcome(make_rule([("sub", x)], "should_not", imp, False, None, anything=True), arch)
                    I = set(imports) if imp else {(b, a_) for a_, b in imports}
                    inside = desc_set(mods, x)
                    certain = {(n, c) for (n, c) in I if n in inside and n != x and c not in inside}
                    possible = {(n, c) for (n, c) in I if n in inside and c not in inside}
                    if any((a_ == x and b.startswith(x + ".")) or (b == x and a_.startswith(x + ".")) for a_, b in imports):
                        continue
                    out["cases"] += 1
                    if kind == "error" or (certain and kind != "fail") or (not possible and kind != "pass"):
                        if len(out["violations"]) < 3:
                            out["violations"].append(dict(case="verdict-anything-sub-modules", detail=f"sub modules of {x!r} should not {'import' if imp else 'be imported by'} anything: real outcome {kind} ({msg}); "
                                                          f"imports of strict sub modules leaving the sub tree: {sorted(certain)}; of the sub tree as a whole: {sorted(possible)}",
                                                          input=dict(tree=tree, imports=[list(p) for p in listed], subjects=[("sub", x)], verb="should_not", import_=imp, anything=True, sub_anything=True)))
            # the two 'anything' aliases (single and batched unrelated subjects)
            for imp in (True, False):
                # ('sub modules of X ... anything' also judges X's own imports: documentation ambiguous, not claimed here;
                #  the alias law itself is checked for both filter kinds under C12)
                for S, _ in rule_space(mods, rng, 2, max_side, kinds=("name",)):
                    kind, msg = outcome(make_rule(S, "should_not", imp, False, None, anything=True), arch)
                    I = set(imports) if imp else {(b, a) for a, b in imports}
                    subj_names = [x for _, x in S]
                    # the alias is 'should not import modules except' the subjects themselves, and 'something else' is judged per subject against all objects
                    # JOINTLY (C01 / C12): an import from one listed subject into another listed subject is not 'something else'
                    if not no_parent_self_import(imports, S):
                        continue
                    all_s = set().union(*[desc_set(mods, s[1]) for s in S])
                    want = not any(n in fset(mods, s) and c not in all_s for (n, c) in I for s in S)
                    out["cases"] += 1
                    if kind == "error" or (kind == "pass") != want:
                        if len(out["violations"]) < 3:
                            out["violations"].append(dict(case="verdict-anything", detail=f"real outcome {kind} ({msg}); documented semantics say {'pass' if want else 'fail'}",
                                                          input=dict(tree=tree, imports=[list(p) for p in listed], subjects=S, verb="should_not", import_=imp, anything=True)))
    return out


def _merge(b, parts):
    for p in parts:
        b.cases += p["cases"]
        b.nontrivial += p["nontrivial"]
        for v in p["violations"]:
            b.violation(v["case"], v["detail"], v["input"])
        for s in p["samples"]:
            if len(b.samples) < 3:
                b.samples.append(s)


def _chunks(tier, seed, trees):
    rng = random.Random(seed)
    jobs = []
    for tree in trees:
        mods = TREES[tree]
        rels = import_relations(mods, rng, n_random=(40 if tier == "quick" else 400), exhaustive_upto=(1 if tier == "quick" else 2))
        # ... and graphs that also contain imports between RELATED modules (a package importing its own sub module and vice versa),
        # some of them listed twice / after another import with the same importee (order of the import list matters to the builder)
        rel_pairs = [(a, b) for a in mods for b in mods if a != b and "." in a and (b.startswith(a + ".") or a.startswith(b + "."))]
        for _ in range(30 if tier == "quick" else 300):
            base = list(rng.choice(rels[1:])) if len(rels) > 1 else []
            extra = rng.sample(rel_pairs, min(len(rel_pairs), rng.randint(1, 3)))
            mixed = base + extra
            if rng.random() < 0.5 and extra:
                q = rng.choice([m for m in mods if "." in m])
                mixed = [(q, extra[0][1])] + mixed + [extra[0]]
            rng.shuffle(mixed) if rng.random() < 0.5 else None
            rels.append(tuple((a, b) for a, b in mixed if a != b))
        rng.shuffle(rels)
        if tier == "quick":
            rels = rels[:120]
        size = max(1, len(rels) // 16)
        for i in range(0, len(rels), size):
            jobs.append((tree, rels[i:i + size], rng.randrange(1 << 30)))
    return jobs


def _e2e_case(args):
    """Verdict and report on a SCANNED project: random directory tree, imports written in any equivalent spelling (plain / aliased / from / relative);
    the reference judges the import relation the source text states."""
    seed, check_report = args
    from .projects import random_tree, add_imports, expected_modules, ROOT
    from .common import temp_project, scan
    rng = random.Random(seed)
    files = random_tree(rng, depth=rng.randint(2, 3), with_init=1.0)
    edges = add_imports(files, rng, rng.randint(3, 9), forms=True)
    mods = sorted(expected_modules(files))
    imports = tuple(sorted(edges))
    out = []
    with temp_project(files, ROOT) as root:
        arch = scan(root)
        for S, O in rule_space(mods, rng, 4, 2):
            if not no_parent_self_import(imports, S + O):
                continue
            for verb, imp, exc in SHAPES:
                kind, msg = outcome(make_rule(S, verb, imp, exc, O), arch)
                want = doc_verdict(mods, imports, S, verb, imp, exc, O)
                inp = dict(e2e=True, seed=seed, subjects=S, verb=verb, import_=imp, except_=exc, objects=O)
                if kind == "error" or (kind == "pass") != want:
                    out.append(dict(case="verdict-scanned-project", detail=f"scanned project (seed {seed}): real outcome {kind} ({msg}); the imports written in the files {list(imports)} "
                                    f"make the rule {'pass' if want else 'fail'}", input=inp))
                elif check_report and kind == "fail":
                    got_c, got_m, bad = parse_message(msg)
                    ref_c, ref_m = reference_report(mods, imports, S, verb, imp, exc, O)
                    if bad or got_c != ref_c or got_m != ref_m:
                        out.append(dict(case="report-scanned-project", detail=f"scanned project (seed {seed}): message {msg!r} reports {sorted(got_c)} / { {k: sorted(v) for k, v in got_m.items()} }, "
                                        f"reference {sorted(ref_c)} / { {k: sorted(v) for k, v in ref_m.items()} }", input=inp))
                if len(out) >= 2:
                    return out
    return out


def bounded_verdicts(tier, seed, check_report=False, name="C01.verdict-vs-documented-semantics"):
    b = Bounded(name, "module trees flat/deep/prefix/deeper (4-11 modules); import relations: all with <=1 (quick) / <=2 (thorough) imports between unrelated "
                "modules plus 40/400 random larger ones per tree; per graph 6 (quick) / 12 random subject/object choices (1-2 per side, name or "
                "sub-module filters, pairwise unrelated) x 12 shapes, plus the two 'anything' aliases (also with nested subjects), regex / partial-name filters that match one module, "
                "and 60 (quick) / 3000 scanned random projects whose imports are written in every equivalent spelling")
    jobs = [(t, r, s, 6 if tier == "quick" else 12, check_report, 2) for (t, r, s) in _chunks(tier, seed, ["flat", "deep", "prefix", "nestedprefix"] + (["deeper"] if tier != "quick" else []))]
    _merge(b, pmap(_verdict_chunk, jobs))
    # the same question asked of projects that are SCANNED from files (import statements in every equivalent spelling)
    n_e2e = 60 if tier == "quick" else 3000
    for res in pmap(_e2e_case, [(seed * 100003 + i, check_report) for i in range(n_e2e)]):
        b.cases += 1
        for v in res:
            b.violation(v["case"], v["detail"], v["input"])
    return b.result()


def bounded_reports(tier, seed):
    return bounded_verdicts(tier, seed, check_report=True, name="C03.reported-violations-vs-reference-set")


def rerun_verdict(inp):
    """Replay of a recorded case: real outcome vs documented verdict (and report when the rule fails)."""
    if inp.get("e2e"):
        res = [v for v in _e2e_case((inp["seed"], True)) ]
        return (not res), ("; ".join(v["detail"] for v in res) or "verdicts and reports on the scanned project agree with the imports written in its files")
    mods = TREES[inp["tree"]]
    listed = [tuple(p) for p in inp["imports"]]
    arch = build_arch(mods, listed)
    imports = sorted(arch_snapshot(arch)[1])
    if inp.get("sub_anything"):
        x = inp["subjects"][0][1]
        kind, msg = outcome(make_rule([("sub", x)], "should_not", inp["import_"], False, None, anything=True), arch)
        I = set(imports) if inp["import_"] else {(b, a) for a, b in imports}
        inside = desc_set(mods, x)
        certain = {(n, c) for (n, c) in I if n in inside and n != x and c not in inside}
        possible = {(n, c) for (n, c) in I if n in inside and c not in inside}
        ok = kind != "error" and not (certain and kind != "fail") and not (not possible and kind != "pass")
        return ok, f"real outcome {kind} {msg!r}; certain violations {sorted(certain)}, possible {sorted(possible)}"
    if inp.get("nested"):
        S = [tuple(x) for x in inp["subjects"]]
        kind, msg = outcome(make_rule(S, "should_not", inp["import_"], False, None, anything=True), arch)
        I = set(imports) if inp["import_"] else {(b, a) for a, b in imports}
        inside = set().union(*[desc_set(mods, s[1]) for s in S])
        certain = {(n, c) for (n, c) in I if n in inside and c not in inside}
        possible = {(n, c) for (n, c) in I if any(n in desc_set(mods, s[1]) and c not in desc_set(mods, s[1]) for s in S)}
        ok = kind != "error" and not (certain and kind != "fail") and not (not possible and kind != "pass")
        text = f"real outcome {kind} {msg!r}; certain violations {sorted(certain)}, possible {sorted(possible)}"
        if ok and kind == "fail":
            got_c, _, _ = parse_message(msg)
            ok = certain <= got_c <= possible
            text += f"; reported {sorted(got_c)}"
        return ok, text
    if inp.get("partial"):
        a, o, side = inp["matched"], inp["other"], inp["partial_side"]
        S_p, O_p = ([("partial", inp["partial"])], [("name", o)]) if side == "subject" else ([("name", o)], [("partial", inp["partial"])])
        S_nm, O_nm = ([("name", a)], [("name", o)]) if side == "subject" else ([("name", o)], [("name", a)])
        kind, msg = outcome(make_rule(S_p, inp["verb"], inp["import_"], False, O_p), arch)
        want = doc_verdict(mods, imports, S_nm, inp["verb"], inp["import_"], False, O_nm)
        ok = kind != "error" and (kind == "pass") == want
        text = f"partial-name rule: real outcome {kind} {msg!r}; the rule naming {a!r} is documented to {'pass' if want else 'fail'}"
        if ok and kind == "fail":
            got_c, got_m, _ = parse_message(msg)
            ref_c, ref_m = reference_report(mods, imports, S_nm, inp["verb"], inp["import_"], False, O_nm)
            ok = got_c == ref_c and (side != "subject" or set(got_m) == set(ref_m))
            text += f"; reported {sorted(got_c)} / {sorted(got_m)}, reference {sorted(ref_c)} / {sorted(ref_m)}"
        return ok, text
    if inp.get("regex"):
        a, o, side = inp["matched"], inp["other"], inp["regex_side"]
        S_rx, O_rx = ([("regex", inp["regex"])], [("name", o)]) if side == "subject" else ([("name", o)], [("regex", inp["regex"])])
        S_nm, O_nm = ([("name", a)], [("name", o)]) if side == "subject" else ([("name", o)], [("name", a)])
        rverb = inp.get("verb", "should_not")
        kind, msg = outcome(make_rule(S_rx, rverb, inp["import_"], inp["except_"], O_rx), arch)
        want = doc_verdict(mods, imports, S_nm, rverb, inp["import_"], inp["except_"], O_nm)
        ok = kind != "error" and (kind == "pass") == want
        text = f"regex rule: real outcome {kind} {msg!r}; the rule naming {a!r} is documented to {'pass' if want else 'fail'}"
        if ok and kind == "fail":
            got_c, got_m, _ = parse_message(msg)
            ref_c, ref_m = reference_report(mods, imports, S_nm, rverb, inp["import_"], inp["except_"], O_nm)
            ok = got_c == ref_c and got_m == ref_m
            text += f"; reported {sorted(got_c)} / {got_m}, reference {sorted(ref_c)} / {ref_m}"
        return ok, text
    S = [tuple(x) for x in inp["subjects"]]
    if inp.get("anything"):
        kind, msg = outcome(make_rule(S, "should_not", inp["import_"], False, None, anything=True), arch)
        I = set(imports) if inp["import_"] else {(b, a) for a, b in imports}
        all_s = set().union(*[desc_set(mods, s[1]) for s in S])
        want = not any(n in fset(mods, s) and c not in all_s for (n, c) in I for s in S)
        ok = kind != "error" and (kind == "pass") == want
        return ok, f"real outcome: {kind} {msg!r}; documented semantics: {'pass' if want else 'fail'}"
    O = [tuple(x) for x in inp["objects"]]
    with batch_as(inp.get("batch", "list")):
        kind, msg = outcome(make_rule(S, inp["verb"], inp["import_"], inp["except_"], O), arch)
    want = doc_verdict(mods, imports, S, inp["verb"], inp["import_"], inp["except_"], O)
    ok = kind != "error" and (kind == "pass") == want
    text = f"real outcome: {kind} {msg!r}; documented semantics: {'pass' if want else 'fail'}"
    if ok and kind == "fail":
        got_c, got_m, bad = parse_message(msg)
        ref_c, ref_m = reference_report(mods, imports, S, inp["verb"], inp["import_"], inp["except_"], O)
        ok = not bad and got_c == ref_c and got_m == ref_m
        text += f"; reported {sorted(got_c)} / { {k: sorted(v) for k, v in got_m.items()} } reference {sorted(ref_c)} / { {k: sorted(v) for k, v in ref_m.items()} }"
    return ok, text


# ---------------------------------------------------------------------------------------------- C12: algebra laws
def _kind(rule, arch):
    return outcome(rule, arch)[0]


def _any_filters(mods, rng, n, max_side=2):
    """Subjects/objects that may be related (ancestors / descendants of one another): no reference model needed."""
    cand = [m for m in mods if "." in m]
    out = []
    for _ in range(n):
        ns, no = rng.randint(1, max_side), rng.randint(1, max_side)
        ks, ko = rng.choice(("name", "sub")), rng.choice(("name", "sub"))
        out.append(([(ks, x) for x in rng.sample(cand, ns)], [(ko, x) for x in rng.sample(cand, no)]))
    return out


def _algebra_chunk(args):
    tree, rels, seed, n_rules = args
    mods = TREES[tree]
    rng = random.Random(seed)
    out = dict(cases=0, nontrivial=0, violations=[], samples=[])

    def bad(law, detail, inp):
        if len(out["violations"]) < 3:
            out["violations"].append(dict(case=law, detail=detail, input=inp))

    for imports in rels:
        arch = build_arch(mods, imports)
        base = dict(tree=tree, imports=[list(p) for p in imports])
        for S, O in _any_filters(mods, rng, n_rules):
            out["cases"] += 1
            out["nontrivial"] += bool(imports)
            # (a) duality
            for verb in ("should", "should_not"):
                k1 = _kind(make_rule(S, verb, True, False, O), arch)
                k2 = _kind(make_rule(O, verb, False, False, S), arch)
                if k1 != k2:
                    bad("duality", f"{verb}: 'A import B' -> {k1}, 'B be imported by A' -> {k2}", dict(base, law="duality", verb=verb, A=S, B=O))
            # (c) decomposition
            for imp in (True, False):
                so = _kind(make_rule(S, "should_only", imp, False, O), arch)
                s_ = _kind(make_rule(S, "should", imp, False, O), arch)
                sne = _kind(make_rule(S, "should_not", imp, True, O), arch)
                if "error" not in (so, s_, sne) and (so == "pass") != (s_ == "pass" and sne == "pass"):
                    bad("decomposition", f"should_only={so} should={s_} should_not-except={sne}", dict(base, law="decomposition", import_=imp, except_=False, S=S, O=O))
                soe = _kind(make_rule(S, "should_only", imp, True, O), arch)
                se = _kind(make_rule(S, "should", imp, True, O), arch)
                sn = _kind(make_rule(S, "should_not", imp, False, O), arch)
                if "error" not in (soe, se, sn) and (soe == "pass") != (se == "pass" and sn == "pass"):
                    bad("decomposition", f"should_only-except={soe} should-except={se} should_not={sn}", dict(base, law="decomposition", import_=imp, except_=True, S=S, O=O))
            # (b) negation, (d) alias: one subject, one object
            s1, o1 = [S[0]], [O[0]]
            for imp in (True, False):
                for exc in (False, True):
                    a = _kind(make_rule(s1, "should", imp, exc, o1), arch)
                    b = _kind(make_rule(s1, "should_not", imp, exc, o1), arch)
                    if "error" not in (a, b) and (a == "pass") != (b == "fail"):
                        bad("negation", f"should={a} should_not={b}", dict(base, law="negation", import_=imp, except_=exc, S=s1, O=o1))
                x = _kind(make_rule(s1, "should_not", imp, False, None, anything=True), arch)
                y = _kind(make_rule(s1, "should_not", imp, True, s1), arch)
                if x != y:
                    bad("alias", f"anything={x} except-itself={y}", dict(base, law="alias", import_=imp, S=s1))
            # (d') alias law for a batch of pairwise unrelated subjects (prefix-named siblings included)
            for Sb, _ in rule_space(mods, rng, 1, max_side=3):
                if len(Sb) < 2:
                    continue
                for imp in (True, False):
                    x = _kind(make_rule(Sb, "should_not", imp, False, None, anything=True), arch)
                    y = _kind(make_rule(Sb, "should_not", imp, True, Sb), arch)
                    if x != y:
                        bad("alias", f"batch {Sb}: anything={x} except-themselves={y}", dict(base, law="alias", import_=imp, S=Sb))
            # (e) monotonicity: one more import between unrelated modules
            extra = rng.choice(all_pairs(mods))
            if extra not in imports:
                arch2 = build_arch(mods, list(imports) + [extra])
                for imp in (True, False):
                    for exc in (False, True):
                        a1, a2 = _kind(make_rule(S, "should", imp, exc, O), arch), _kind(make_rule(S, "should", imp, exc, O), arch2)
                        if a1 == "pass" and a2 != "pass":
                            bad("monotone", f"should passes, fails after adding {extra}", dict(base, law="monotone", verb="should", import_=imp, except_=exc, S=S, O=O, extra=list(extra)))
                        b1, b2 = _kind(make_rule(S, "should_not", imp, exc, O), arch), _kind(make_rule(S, "should_not", imp, exc, O), arch2)
                        if b1 == "fail" and b2 != "fail":
                            bad("monotone", f"should_not fails, passes after adding {extra}", dict(base, law="monotone", verb="should_not", import_=imp, except_=exc, S=S, O=O, extra=list(extra)))
    return out


def bounded_algebra(tier, seed):
    b = Bounded("C12.algebra-laws-on-real-outcomes", "trees flat/deep/prefix(/deeper); import relations incl. imports between related modules: all with <=1 import + 40/400 random; "
                "per graph 4 (quick) / 10 random subject/object choices, related ones included; laws: duality, negation, decomposition, anything-alias, monotonicity under one added import")
    rng = random.Random(seed)
    jobs = []
    for tree in ["flat", "deep", "prefix", "nestedprefix"] + (["deeper"] if tier != "quick" else []):
        mods = TREES[tree]
        rels = import_relations(mods, rng, n_random=(40 if tier == "quick" else 3000), exhaustive_upto=1, include_related=True)
        rng.shuffle(rels)
        if tier == "quick":
            rels = rels[:240]
        size = max(1, len(rels) // 16)
        for i in range(0, len(rels), size):
            jobs.append((tree, rels[i:i + size], rng.randrange(1 << 30), 6 if tier == "quick" else 10))
    _merge(b, pmap(_algebra_chunk, jobs))
    return b.result()


def rerun_algebra(inp):
    mods = TREES[inp["tree"]]
    imports = [tuple(p) for p in inp["imports"]]
    arch = build_arch(mods, imports)
    T = lambda fs: [tuple(f) for f in fs]
    law = inp["law"]
    if law == "duality":
        k1 = _kind(make_rule(T(inp["A"]), inp["verb"], True, False, T(inp["B"])), arch)
        k2 = _kind(make_rule(T(inp["B"]), inp["verb"], False, False, T(inp["A"])), arch)
        return k1 == k2, f"'A {inp['verb']} import B' -> {k1}; 'B {inp['verb']} be imported by A' -> {k2}"
    if law == "alias":
        S = T(inp["S"])
        x = _kind(make_rule(S, "should_not", inp["import_"], False, None, anything=True), arch)
        y = _kind(make_rule(S, "should_not", inp["import_"], True, S), arch)
        return x == y, f"should_not ... anything -> {x}; should_not ... except itself -> {y}"
    if law == "negation":
        a = _kind(make_rule(T(inp["S"]), "should", inp["import_"], inp["except_"], T(inp["O"])), arch)
        b = _kind(make_rule(T(inp["S"]), "should_not", inp["import_"], inp["except_"], T(inp["O"])), arch)
        return "error" in (a, b) or (a == "pass") == (b == "fail"), f"should -> {a}; should_not -> {b}"
    if law == "decomposition":
        S, O, imp, e = T(inp["S"]), T(inp["O"]), inp["import_"], inp["except_"]
        so = _kind(make_rule(S, "should_only", imp, e, O), arch)
        s_ = _kind(make_rule(S, "should", imp, e, O), arch)
        sn = _kind(make_rule(S, "should_not", imp, not e, O), arch)
        return "error" in (so, s_, sn) or (so == "pass") == (s_ == "pass" and sn == "pass"), f"should_only -> {so}; should -> {s_}; should_not{'' if e else ' ... except'} -> {sn}"
    if law == "monotone":
        S, O = T(inp["S"]), T(inp["O"])
        arch2 = build_arch(mods, imports + [tuple(inp["extra"])])
        a1 = _kind(make_rule(S, inp["verb"], inp["import_"], inp["except_"], O), arch)
        a2 = _kind(make_rule(S, inp["verb"], inp["import_"], inp["except_"], O), arch2)
        ok = not (a1 == "pass" and a2 != "pass") if inp["verb"] == "should" else not (a1 == "fail" and a2 != "fail")
        return ok, f"before -> {a1}; after adding {inp['extra']} -> {a2}"
    return False, "unknown law"


# ---------------------------------------------------------------------------------------------- C11: regex / batch = expansion
def _regexes(mods, rng):
    names = [m for m in mods if "." in m]
    esc = lambda s: s.replace(".", r"\.")
    a, b = rng.sample(names, 2)
    return [esc(a) + "$", esc(a), a, "r", "(" + esc(a) + "|" + esc(b) + ")$", r".*x$", r"r\.[ab]$", r"r\.a.*", r".*\.[xy]$", r"r\.zzz",
            # patterns that occur only further right in module names: a regex filter matches from the START of the name, so these select nothing
            esc(a.split(".", 1)[1]) + "$", r"\." + esc(b.rsplit(".", 1)[1]) + "$"]


def _expand(mods, rx):
    return [m for m in mods if re.match(rx, m)]


def _c11_chunk(args):
    tree, rels, seed, n_rules = args
    mods = TREES[tree]
    rng = random.Random(seed)
    out = dict(cases=0, nontrivial=0, violations=[], samples=[])

    def bad(case, detail, inp):
        if len(out["violations"]) < 3:
            out["violations"].append(dict(case=case, detail=detail, input=inp))

    for imports in rels:
        arch = build_arch(mods, imports)
        base = dict(tree=tree, imports=[list(p) for p in imports])
        for rx in _regexes(mods, rng):
            exp = _expand(mods, rx)
            other = [("name", rng.choice([m for m in mods if "." in m]))]
            for verb, imp, exc in SHAPES:
                for side in ("subject", "object"):
                    out["cases"] += 1
                    out["nontrivial"] += bool(imports and exp)
                    if side == "subject":
                        k1 = outcome(make_rule([("regex", rx)], verb, imp, exc, other), arch)
                        k2 = outcome(make_rule([("name", m) for m in exp], verb, imp, exc, other), arch) if exp else ("error", "ImpossibleMatch")
                    else:
                        k1 = outcome(make_rule(other, verb, imp, exc, [("regex", rx)]), arch)
                        k2 = outcome(make_rule(other, verb, imp, exc, [("name", m) for m in exp]), arch) if exp else ("error", "ImpossibleMatch")
                    if k1[0] != k2[0] or (not exp and k1 != ("error", "ImpossibleMatch")):
                        bad("regex-expansion", f"regex {rx!r} on the {side} side -> {k1[0]} {k1[1]!r}; naming its matches {exp} -> {k2[0]} {k2[1]!r}",
                            dict(base, case="regex", regex=rx, side=side, verb=verb, import_=imp, except_=exc, other=other))
        # batches (related modules included): several subjects = conjunction; plain should/should_not: several objects too
        for S, O in _any_filters(mods, rng, n_rules, max_side=3):
            for verb, imp, exc in SHAPES:
                out["cases"] += 1
                whole = _kind(make_rule(S, verb, imp, exc, O), arch)
                singles = [_kind(make_rule([s], verb, imp, exc, O), arch) for s in S]
                if "error" not in singles + [whole] and (whole == "pass") != all(k == "pass" for k in singles):
                    bad("batch-subjects", f"batch -> {whole}; single-subject rules -> {singles}", dict(base, case="batch-subjects", verb=verb, import_=imp, except_=exc, S=S, O=O))
                if not exc and verb != "should_only":
                    singles = [_kind(make_rule(S, verb, imp, exc, [o]), arch) for o in O]
                    if "error" not in singles + [whole] and (whole == "pass") != all(k == "pass" for k in singles):
                        bad("batch-objects", f"batch -> {whole}; single-object rules -> {singles}", dict(base, case="batch-objects", verb=verb, import_=imp, except_=exc, S=S, O=O))
    return out


def _c11_systematic(imports):
    """Deterministic family: ONE import, every ordered pair of subjects (related or not), every single object, all shapes: batch = conjunction."""
    mods = TREES["nestedprefix"]
    cand = [m for m in mods if "." in m]
    arch = build_arch(mods, [imports])
    out = dict(cases=0, nontrivial=0, violations=[], samples=[])
    for s1 in cand:
        for s2 in cand:
            if s1 == s2:
                continue
            S = [("name", s1), ("name", s2)]
            for o in cand:
                O = [("name", o)]
                for verb, imp, exc in SHAPES:
                    whole = _kind(make_rule(S, verb, imp, exc, O), arch)
                    singles = [_kind(make_rule([s], verb, imp, exc, O), arch) for s in S]
                    out["cases"] += 1
                    out["nontrivial"] += 1
                    if "error" not in singles + [whole] and (whole == "pass") != all(k == "pass" for k in singles):
                        if len(out["violations"]) < 2:
                            out["violations"].append(dict(case="batch-subjects", detail=f"single import {imports}: batch -> {whole}; single-subject rules -> {singles}",
                                                          input=dict(tree="nestedprefix", imports=[list(imports)], case="batch-subjects", verb=verb, import_=imp, except_=exc, S=S, O=O)))
    return out


def bounded_expansion(tier, seed):
    b = Bounded("C11.regex-and-batch-equal-expansion", "trees flat/deep/prefix; import relations (related endpoints included) all with <=1 import + 30/300 random; 8 regex forms "
                "(anchored name, prefix, alternation, character class, suffix, unmatched) on either side x 12 shapes; batches of 1-3 subjects/objects incl. related modules")
    rng = random.Random(seed)
    jobs = []
    for tree in ["flat", "deep", "prefix", "nestedprefix"]:
        mods = TREES[tree]
        rels = import_relations(mods, rng, n_random=(30 if tier == "quick" else 1500), exhaustive_upto=1, include_related=True)
        rng.shuffle(rels)
        if tier == "quick":
            rels = rels[:48]
        size = max(1, len(rels) // 16)
        for i in range(0, len(rels), size):
            jobs.append((tree, rels[i:i + size], rng.randrange(1 << 30), 3 if tier == "quick" else 8))
    _merge(b, pmap(_c11_chunk, jobs))
    mods_np = TREES["nestedprefix"]
    singles = [(a, c) for a in mods_np for c in mods_np if a != c and "." in a and "." in c]
    _merge(b, pmap(_c11_systematic, singles))
    # the deprecated partial-name form equals its regex translation
    from pytestarch import Rule
    from pytestarch.utils.partial_match_to_regex_converter import convert_partial_match_to_regex
    import warnings
    mods = TREES["prefix"]
    arch = build_arch(mods, [("r.a.x", "r.b"), ("r.ab", "r.b")])
    for glob in ("r.a", "*a", "r.a*", "*.x", "*b*", "r.a.x"):
        for verb in ("should", "should_not"):
            with warnings.catch_warnings():
                warnings.filterwarnings("ignore")
                r1 = getattr(Rule().modules_that().have_name_containing(glob), verb)().import_modules_that().are_named("r.b")
            r2 = getattr(Rule().modules_that().have_name_matching(convert_partial_match_to_regex(glob)), verb)().import_modules_that().are_named("r.b")
            k1, k2 = outcome(r1, arch), outcome(r2, arch)
            b.case()
            if k1 != k2:
                b.violation("partial-name", f"have_name_containing({glob!r}) -> {k1}; its regex translation -> {k2}", dict(case="partial", glob=glob, verb=verb))
    # ... and equals the rule that NAMES the modules the partial name denotes (literal text, '*' at either end only); look-alike siblings (r.a_x next to r.a.x) included
    from .projects import glob_matches
    mods2 = ["r", "r.a", "r.a.x", "r.a_x", "r.ab", "r.ab.x", "r.b", "r.c"]
    for imports2 in ([("r.a_x", "r.b")], [("r.a.x", "r.b")], [("r.ab.x", "r.b"), ("r.c", "r.a_x")], [("r.b", "r.a.x"), ("r.b", "r.ab")]):
        arch2 = build_arch(mods2, imports2)
        for glob in ("r.a.x", "r.a", "*a.x", "*.x", "r.a*", "*a*", "*a_x", "r.a.*", "*b", "r.zz", "*zz*"):
            exp = [m for m in mods2 if glob_matches(glob, m)]
            for side in ("subject", "object"):
                for verb, imp, exc in SHAPES:
                    other = [("name", "r.b" if side == "subject" else "r.c")]
                    with warnings.catch_warnings():
                        warnings.filterwarnings("ignore")
                        S1, O1 = ([("partial", glob)], other) if side == "subject" else (other, [("partial", glob)])
                        k1 = outcome(make_rule(S1, verb, imp, exc, O1), arch2)
                    if exp:
                        S2, O2 = ([("name", m) for m in exp], other) if side == "subject" else (other, [("name", m) for m in exp])
                        k2 = outcome(make_rule(S2, verb, imp, exc, O2), arch2)
                    else:
                        k2 = ("error", "ImpossibleMatch")
                    b.case()
                    if k1[0] != k2[0] or (not exp and k1 != k2):
                        b.violation("partial-name", f"imports {imports2}: have_name_containing({glob!r}) on the {side} side ({verb}, import={imp}, except={exc}) -> {k1}; naming the modules it denotes {exp} -> {k2}",
                                    dict(case="partial", glob=glob, verb=verb))
        # a batch of partial names one of which denotes no module: ImpossibleMatch, never a verdict
        for side in ("subject", "object"):
            with warnings.catch_warnings():
                warnings.filterwarnings("ignore")
                dead = [("partial", "r.a*"), ("partial", "zz*")]
                S1, O1 = (dead, [("name", "r.b")]) if side == "subject" else ([("name", "r.b")], dead)
                k1 = outcome(make_rule(S1, "should_not", True, False, O1), arch2)
            b.case()
            if k1 != ("error", "ImpossibleMatch"):
                b.violation("partial-name", f"batch of partial names ['r.a*', 'zz*'] ({side}; the second denotes no module) -> {k1}, not ImpossibleMatch", dict(case="partial", glob="zz*", verb="should_not"))
    return b.result()


def rerun_expansion(inp):
    if inp.get("case") == "partial":
        return False, "re-run ./check C11 (deterministic)"
    mods = TREES[inp["tree"]]
    imports = [tuple(p) for p in inp["imports"]]
    arch = build_arch(mods, imports)
    T = lambda fs: [tuple(f) for f in fs]
    if inp["case"] == "regex":
        rx, other = inp["regex"], T(inp["other"])
        exp = _expand(mods, rx)
        if inp["side"] == "subject":
            k1 = outcome(make_rule([("regex", rx)], inp["verb"], inp["import_"], inp["except_"], other), arch)
            k2 = outcome(make_rule([("name", m) for m in exp], inp["verb"], inp["import_"], inp["except_"], other), arch) if exp else ("error", "ImpossibleMatch")
        else:
            k1 = outcome(make_rule(other, inp["verb"], inp["import_"], inp["except_"], [("regex", rx)]), arch)
            k2 = outcome(make_rule(other, inp["verb"], inp["import_"], inp["except_"], [("name", m) for m in exp]), arch) if exp else ("error", "ImpossibleMatch")
        return k1[0] == k2[0], f"regex rule -> {k1}; rule naming {exp} -> {k2}"
    S, O = T(inp["S"]), T(inp["O"])
    whole = _kind(make_rule(S, inp["verb"], inp["import_"], inp["except_"], O), arch)
    if inp["case"] == "batch-subjects":
        singles = [_kind(make_rule([s], inp["verb"], inp["import_"], inp["except_"], O), arch) for s in S]
    else:
        singles = [_kind(make_rule(S, inp["verb"], inp["import_"], inp["except_"], [o]), arch) for o in O]
    return "error" in singles + [whole] or (whole == "pass") == all(k == "pass" for k in singles), f"batch -> {whole}; singles -> {singles}"
