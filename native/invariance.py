"""Bounded stand-ins for C14 (renaming invariance of verdicts and messages) and C15 (purity; independence of order,
history, re-application and hash seed)."""
from __future__ import annotations

import json
import os
import random
import re
import subprocess
import sys

from .common import TREES, Bounded, arch_snapshot, build_arch, make_rule, outcome, pmap, temp_project, scan, REPO_SRC
from .rules import SHAPES, _any_filters, _merge, parse_message


def _norm(kind, msg, rho, mods):
    """Outcome mapped back to canonical names; lists inside a message line are compared as sets (their order follows name order)."""
    if kind != "fail":
        return (kind, msg)
    c, m, bad = parse_message(unrename_text(msg, rho, mods))
    return (kind, sorted(c), sorted((k, sorted(v)) for k, v in m.items()), sorted(bad))

RHO_FREE = {"r": "root", "a": "alpha", "b": "beta", "c": "gamma", "d": "delta", "x": "xi", "y": "ypsilon", "p": "pi", "xy": "chi", "ab": "omega", "bc": "kappa"}
RHO_ADV = {"r": "r", "a": "a", "b": "ab", "c": "a_b", "d": "aa", "x": "x", "y": "xx", "p": "x_", "xy": "xxx", "ab": "abb", "bc": "ab_"}
RHO_ADV2 = {"r": "p", "a": "pa", "b": "p", "c": "pp", "d": "a", "x": "a", "y": "ab", "p": "abc", "xy": "a_", "ab": "pab", "bc": "papa"}


def rename(name, rho):
    return ".".join(rho[c] for c in name.split("."))


def unrename_text(text, rho, mods):
    inv = {rename(m, rho): m for m in mods}
    return re.sub(r'"([^"]+)"', lambda m: '"' + inv.get(m.group(1), m.group(1)) + '"', text or "")


def _c14_chunk(args):
    tree, rels, seed, n_rules = args
    mods = TREES[tree]
    rng = random.Random(seed)
    out = dict(cases=0, nontrivial=0, violations=[], samples=[])
    for imports in rels:
        archs = {}
        for nm, rho in (("free", RHO_FREE), ("adv", RHO_ADV), ("adv2", RHO_ADV2)):
            archs[nm] = (rho, build_arch([rename(m, rho) for m in mods], [(rename(a, rho), rename(b, rho)) for a, b in imports]))
        for S, O in _any_filters(mods, rng, n_rules):
            for verb, imp, exc in SHAPES + [("should_not", True, "any"), ("should_not", False, "any")]:
                res = {}
                for nm, (rho, arch) in archs.items():
                    rs = [(k, rename(x, rho)) for k, x in S]
                    ro = [(k, rename(x, rho)) for k, x in O]
                    if exc == "any":
                        kind, msg = outcome(make_rule(rs, verb, imp, False, None, anything=True), arch)
                    else:
                        kind, msg = outcome(make_rule(rs, verb, imp, exc, ro), arch)
                    res[nm] = _norm(kind, msg, rho, mods)
                out["cases"] += 1
                out["nontrivial"] += bool(imports)
                if not (res["free"] == res["adv"] == res["adv2"]):
                    if len(out["violations"]) < 3:
                        out["violations"].append(dict(case="renaming", detail=f"outcomes differ under injective component renamings: {res}",
                                                      input=dict(tree=tree, imports=[list(p) for p in imports], S=S, O=O, verb=verb, import_=imp, except_=exc)))
    return out


def _c14_limit_case(seed):
    """Level-limited architectures built from the same tree under the three renamings: module sets and verdicts agree up to the renaming."""
    rng = random.Random(seed)
    mods = ["r", "r.a", "r.a.x", "r.a.x.p", "r.a.y", "r.ab", "r.ab.y", "r.ab.y.p", "r.b", "r.b.x", "r.c", "r.c.x", "r.d"]
    cand = [m for m in mods if "." in m]
    imports = [tuple(rng.sample(cand, 2)) for _ in range(rng.randint(2, 7))]
    imports = [(a, c) for a, c in imports if not a.startswith(c + ".") and not c.startswith(a + ".")]
    order = list(mods)
    rng.shuffle(order)
    res = {}
    for nm, rho0 in (("free", RHO_FREE), ("adv", RHO_ADV), ("adv2", RHO_ADV2)):
        rho = dict(rho0)
        arch = build_arch([rename(m, rho) for m in order], [(rename(a, rho), rename(c, rho)) for a, c in imports], level_limit=1)
        inv = {rename(m, rho): m for m in mods}
        got_mods = sorted(inv.get(m, "?" + m) for m in arch.modules)
        verdicts = []
        top = [m for m in mods if m.count(".") == 1]
        for s_ in top:
            for o_ in top:
                if s_ != o_:
                    for verb in ("should", "should_not"):
                        k, msg = outcome(make_rule([("name", rename(s_, rho))], verb, True, False, [("name", rename(o_, rho))]), arch)
                        verdicts.append(_norm(k, msg, rho, mods))
        res[nm] = (got_mods, verdicts)
    if not (res["free"] == res["adv"] == res["adv2"]):
        d = [n for n in ("adv", "adv2") if res[n] != res["free"]]
        return [dict(case="renaming-level-limit", detail=f"level_limit=1: modules / verdicts differ under renaming {d}: modules free={res['free'][0]} vs {res[d[0]][0]}",
                     input=dict(kind="c14-limit", seed=seed))]
    return []


# scanned projects: the same directory tree under two renamings of its path components (identity follows component boundaries from the FILE SYSTEM on)
SCAN_RHO_FREE = {"proj": "proj", "a": "alpha", "ab": "beta", "b": "gamma", "a_b": "delta", "core": "kern", "core_utils": "kern_tools", "x": "xi", "xy": "chi", "pyx": "omega"}
SCAN_RHO_ADV = {"proj": "pyr", "a": "py", "ab": "pya", "b": "p", "a_b": "py_a", "core": "pyc", "core_utils": "pycx", "x": "apy", "xy": "pyi", "pyx": "pyx"}
SCAN_RHO_ADV2 = {"proj": "init", "a": "__init__x", "ab": "ini", "b": "i", "a_b": "init_", "core": "txt", "core_utils": "placeholderx", "x": "proj", "xy": "projx", "pyx": "pyproj"}


def _c14_scan_case(seed):
    from .projects import random_tree, drop_shadowed
    from .common import temp_project, scan
    rng = random.Random(seed)
    files = drop_shadowed(random_tree(rng, depth=3, with_init=0.8))
    pyfiles = sorted(f for f in files if f.endswith(".py"))
    pairs = [tuple(rng.sample(pyfiles, 2)) for _ in range(rng.randint(2, 6))] if len(pyfiles) >= 2 else []

    def rn(component, rho):
        stem, dot, ext = component.partition(".")
        return component if stem in ("__init__", "placeholder") else rho[stem] + dot + ext

    def build(rho):
        def path(f):
            return "/".join(rn(c, rho) if c else c for c in f.split("/"))

        def mod(f):
            rel = f[:-3]
            return ".".join([rho["proj"]] + [rn(c, rho) for c in rel.split("/")])
        out = {path(f): "" for f in files}
        for a, b in pairs:
            out[path(a)] += f"import {mod(b)}\n"
        return out
    res = {}
    for nm, rho in (("free", SCAN_RHO_FREE), ("adv", SCAN_RHO_ADV), ("adv2", SCAN_RHO_ADV2)):
        inv_c = {v: k for k, v in rho.items()}
        with temp_project(build(rho), rho["proj"]) as root:
            try:
                mods, imps, hier = arch_snapshot(scan(root))
            except Exception as e:
                res[nm] = f"scan raised {type(e).__name__}: {e}"
                continue
        back = lambda m: ".".join(inv_c.get(c, "?" + c) if c != "__init__" else c for c in m.split("."))
        res[nm] = (sorted(back(m) for m in mods), sorted((back(a), back(b)) for a, b in imps))
    if not (res["free"] == res["adv"] == res["adv2"]):
        d = {k: (v if isinstance(v, str) else [sorted(set(v[0]) ^ set(res["free"][0]))[:6], sorted(set(v[1]) ^ set(res["free"][1]))[:6]]) for k, v in res.items() if not isinstance(res["free"], str)}
        return [dict(case="renaming-scanned-project", detail=f"modules / imports of the same directory tree differ under injective renamings of its path components (difference to the collision-free naming): {d or res}",
                     input=dict(kind="c14-scan", seed=seed))]
    return []


def _c14_partial_cases():
    """Partial-name filters ('*text') under renamings in which the text with its dot replaced by another character is the tail of a SIBLING's name:
    the dot in a partial name is a literal dot."""
    mods = ["r", "r.a", "r.a.x", "r.c", "r.d", "r.e"]
    out = []
    for imports in ([("r.c", "r.d")], [("r.a.x", "r.d")], [("r.c", "r.d"), ("r.a.x", "r.e")], [("r.d", "r.c")]):
        res = {}
        for nm, rho in (("free", {"r": "root", "a": "alpha", "x": "xi", "c": "gamma", "d": "delta", "e": "eps"}),
                        ("adv", {"r": "r", "a": "a", "x": "x", "c": "a_x", "d": "d", "e": "ax"}),
                        ("adv2", {"r": "p", "a": "pa", "x": "b", "c": "paXb", "d": "pa", "e": "b"})):
            R = lambda m: rename(m, rho)
            arch = build_arch([R(m) for m in mods], [(R(a), R(b)) for a, b in imports])
            r_ = []
            for verb in ("should", "should_not"):
                for imp in (True, False):
                    for side in ("subject", "object"):
                        part, other = [("partial", "*" + rho["a"] + "." + rho["x"])], [("name", R("r.d"))]
                        S, O = (part, other) if side == "subject" else (other, part)
                        k, m = outcome(make_rule(S, verb, imp, False, O), arch)
                        r_.append((k, sorted(unrename_text(m, rho, mods).split("\n")) if k == "fail" else m))
            res[nm] = r_
        if not (res["free"] == res["adv"] == res["adv2"]):
            i = next(i for i in range(len(res["free"])) if not (res["free"][i] == res["adv"][i] == res["adv2"][i]))
            out.append(dict(case="renaming-partial-name", detail=f"imports {imports}: rule #{i} with the partial name '*a.x' differs under injective renamings: "
                            f"free {res['free'][i]}, adv {res['adv'][i]}, adv2 {res['adv2'][i]}", input=dict(kind="c14-partial")))
    return out


def bounded_renaming(tier, seed):
    from .common import import_relations
    b = Bounded("C14.verdicts-and-messages-invariant-under-component-renaming",
                "trees flat/deep/prefix/nestedprefix; import relations (related endpoints included): all with <=1 import + 30/300 random; 3 (quick) / 8 random subject/object choices x 12 shapes + 2 "
                "'anything' aliases; one collision-free and two adversarial injective component renamings (a, ab, a_b, aa, x, xx, x_, names that are prefixes/substrings of siblings)")
    rng = random.Random(seed)
    jobs = []
    for tree in ["flat", "deep", "prefix", "nestedprefix"]:
        mods = TREES[tree]
        rels = import_relations(mods, rng, n_random=(30 if tier == "quick" else 2000), exhaustive_upto=1, include_related=True)
        rng.shuffle(rels)
        if tier == "quick":
            rels = rels[:64]
        size = max(1, len(rels) // 16)
        for i in range(0, len(rels), size):
            jobs.append((tree, rels[i:i + size], rng.randrange(1 << 30), 3 if tier == "quick" else 8))
    _merge(b, pmap(_c14_chunk, jobs))
    for res in pmap(_c14_limit_case, [seed * 1009 + i for i in range(60 if tier == "quick" else 6000)]):
        b.case()
        for v in res:
            b.violation(v["case"], v["detail"], v["input"])
    for v in _c14_partial_cases():
        b.violation(v["case"], v["detail"], v["input"])
    b.case()
    # directory trees on disk, scanned under three namings of the path components (names beginning with 'py', equal to 'init', 'proj', ...)
    for res in pmap(_c14_scan_case, [seed * 1013 + i for i in range(60 if tier == "quick" else 4000)]):
        b.case()
        for v in res:
            b.violation(v["case"], v["detail"], v["input"])
    return b.result()


def rerun_renaming(inp):
    if inp.get("kind") == "c14-partial":
        res = _c14_partial_cases()
        return (not res), ("; ".join(v["detail"] for v in res) or "invariant under the renamings")
    if inp.get("kind") == "c14-scan":
        res = _c14_scan_case(inp["seed"])
        return (not res), ("; ".join(v["detail"] for v in res) or "invariant under the renamings")
    if inp.get("kind") == "c14-limit":
        res = _c14_limit_case(inp["seed"])
        return (not res), ("; ".join(v["detail"] for v in res) or "invariant under the renamings")
    mods = TREES[inp["tree"]]
    imports = [tuple(p) for p in inp["imports"]]
    S, O = [tuple(x) for x in inp["S"]], [tuple(x) for x in inp["O"]]
    res = {}
    for nm, rho in (("free", RHO_FREE), ("adv", RHO_ADV), ("adv2", RHO_ADV2)):
        arch = build_arch([rename(m, rho) for m in mods], [(rename(a, rho), rename(b, rho)) for a, b in imports])
        rs = [(k, rename(x, rho)) for k, x in S]
        ro = [(k, rename(x, rho)) for k, x in O]
        if inp["except_"] == "any":
            kind, msg = outcome(make_rule(rs, inp["verb"], inp["import_"], False, None, anything=True), arch)
        else:
            kind, msg = outcome(make_rule(rs, inp["verb"], inp["import_"], inp["except_"], ro), arch)
        res[nm] = _norm(kind, msg, rho, mods)
    return res["free"] == res["adv"] == res["adv2"], f"outcomes (mapped back to canonical names): {res}"


# ---------------------------------------------------------------------------------------------- C15
def _c15_chunk(args):
    tree, rels, seed, n_rules = args
    mods = TREES[tree]
    rng = random.Random(seed)
    out = dict(cases=0, nontrivial=0, violations=[], samples=[])

    def bad(case, detail, inp):
        if len(out["violations"]) < 3:
            out["violations"].append(dict(case=case, detail=detail, input=inp))

    for imports in rels:
        arch = build_arch(mods, imports)
        other_imports = list(imports)[:-1] + [rng.choice([(a, c) for a in mods for c in mods if a != c and "." in a and "." in c])]
        arch2 = build_arch(mods, other_imports)
        before = arch_snapshot(arch)
        base = dict(tree=tree, imports=[list(p) for p in imports], imports2=[list(p) for p in other_imports])
        history = []
        for S, O in _any_filters(mods, rng, n_rules, max_side=3):
            for verb, imp, exc in rng.sample(SHAPES + [("should_not", True, "any"), ("should_not", False, "any")], 5):
                def mk(S_=S, O_=O):
                    if exc == "any":
                        return make_rule(S_, verb, imp, False, None, anything=True)
                    return make_rule(S_, verb, imp, exc, O_)
                fresh1 = outcome(mk(), build_arch(mods, imports))      # reference: fresh rule, fresh architecture
                fresh2 = outcome(mk(), build_arch(mods, other_imports))
                r = mk()
                seq = [outcome(r, arch), outcome(r, arch), outcome(r, arch2), outcome(r, arch)]
                out["cases"] += 1
                out["nontrivial"] += bool(imports)
                inp = dict(base, S=S, O=O, verb=verb, import_=imp, except_=exc)
                if seq != [fresh1, fresh1, fresh2, fresh1]:
                    bad("reapplication-or-history", f"one rule object applied to [A, A, B, A] after {len(history)} other evaluations on the shared architecture gave {seq}; fresh rule on fresh "
                        f"architectures gives A: {fresh1}, B: {fresh2}", inp)
                # permutation of list-valued arguments
                Sp, Op = list(reversed(S)), list(reversed(O))
                if outcome(mk(Sp, Op), arch) != fresh1:
                    bad("permutation", f"reversing the subject/object lists changes the outcome: {outcome(mk(Sp, Op), arch)} vs {fresh1}", inp)
                history.append((S, O, verb, imp, exc))
        if arch_snapshot(arch) != before:
            bad("purity", "evaluating rules changed the architecture's modules/imports", base)
    return out


_SEED_SCRIPT = r'''
import sys, json
sys.path.insert(0, %(verif)r)
from native.common import TREES, build_arch, make_rule, outcome
from native.rules import SHAPES
import random
rng = random.Random(%(seed)d)
res = []
for tree in ("deep", "nestedprefix"):
    mods = TREES[tree]
    cand = [m for m in mods if "." in m]
    for _ in range(%(n)d):
        pairs = [(a, c) for a in cand for c in cand if a != c]
        imports = rng.sample(pairs, rng.randint(1, 6))
        arch = build_arch(mods, imports)
        for _ in range(4):
            ks, ko = rng.choice(("name", "sub")), rng.choice(("name", "sub"))
            S = [(ks, x) for x in rng.sample(cand, rng.randint(1, 3))]
            O = [(ko, x) for x in rng.sample(cand, rng.randint(1, 3))]
            for verb, imp, exc in SHAPES:
                res.append(outcome(make_rule(S, verb, imp, exc, O), arch))
            # the two 'anything' aliases with several subjects that may import each other
            Sn = [("name", x) for x in rng.sample(cand, rng.randint(2, 4))]
            for imp in (True, False):
                k, m = outcome(make_rule(Sn, "should_not", imp, False, None, anything=True), arch)
                res.append((k, sorted((m or "").split("\n"))))
        res.append(sorted(arch.modules))
# deterministic family: nested 'sub modules of' objects [p, p.c], a subject that imports the inner package itself
for tree in ("deep", "nestedprefix", "deeper"):
    mods = TREES[tree]
    for p in mods:
        for c in mods:
            if "." in p and c.startswith(p + "."):
                for s in mods:
                    if "." in s and not s.startswith(p + ".") and s != p and not p.startswith(s + "."):
                      for listed in ([(s, c)], [(c, s)], [(c, s), (p, s)]):      # the subject imports the inner package / is imported by it (and by the outer one)
                        arch = build_arch(mods, listed)
                        for kinds in (("sub", "sub"), ("name", "name")):
                            for O in ([(kinds[0], p), (kinds[1], c)], [(kinds[1], c), (kinds[0], p)]):
                                for verb, imp, exc in SHAPES:
                                    res.append(outcome(make_rule([("name", s)], verb, imp, exc, O), arch))
                                    res.append(outcome(make_rule(O if kinds[0] == kinds[1] else [O[0]], verb, imp, exc, [("name", s)]), arch))
print(json.dumps(res))
'''


def _hash_seed_run(hs, seed, n):
    env = dict(os.environ, PYTHONHASHSEED=str(hs), PYVC_REPO_SRC=REPO_SRC)
    p = subprocess.run([sys.executable, "-c", _SEED_SCRIPT % dict(verif=os.path.dirname(os.path.dirname(os.path.abspath(__file__))), seed=seed, n=n)],
                       capture_output=True, text=True, env=env, timeout=600)
    return p.stdout if p.returncode == 0 else "CRASH " + p.stderr[-500:]


def bounded_purity(tier, seed):
    from .common import import_relations
    b = Bounded("C15.purity-history-order-seed-independence",
                "trees deep/prefix/nestedprefix; 24/240 import relations (related endpoints included); per graph 2 (quick) / 5 random subject/object choices (1-3 per side, related allowed) x 5 "
                "random shapes: one rule object applied to [A, A, B, A] vs fresh rules on fresh architectures, reversed argument lists, snapshot of modules+imports before/after; "
                "fresh interpreters with 6 (quick) / 12 hash seeds on a fixed battery (random rules plus the deterministic family of nested sub-module objects); two scans of a project with shuffled directory enumeration")
    rng = random.Random(seed)
    jobs = []
    for tree in ["deep", "prefix", "nestedprefix"]:
        mods = TREES[tree]
        rels = import_relations(mods, rng, n_random=(24 if tier == "quick" else 2400), exhaustive_upto=0, include_related=True)[1:]
        size = max(1, len(rels) // 8)
        for i in range(0, len(rels), size):
            jobs.append((tree, rels[i:i + size], rng.randrange(1 << 30), 2 if tier == "quick" else 5))
    _merge(b, pmap(_c15_chunk, jobs))
    # one regex-based rule object applied to architectures whose matching modules differ
    from .common import TREES as _T
    base_mods = ["r", "r.a", "r.a.x", "r.b", "r.c"]
    more_mods = base_mods + ["r.a.legacy", "r.b.legacy", "r.d"]
    A = build_arch(base_mods, [("r.a.x", "r.b")])
    B = build_arch(more_mods, [("r.a.x", "r.b"), ("r.a.legacy", "r.c"), ("r.d", "r.b.legacy"), ("r.c", "r.a.legacy")])
    for side in ("subject", "object"):
        for verb, imp, exc in [(v, i, e) for v in ("should", "should_only", "should_not") for i in (True, False) for e in (False, True)]:
            for rx in (r"r\.a.*", r".*legacy|r\.c$", r"r\.[ab]$"):
                def mk():
                    if side == "subject":
                        return make_rule([("regex", rx)], verb, imp, exc, [("name", "r.c")])
                    return make_rule([("name", "r.c")], verb, imp, exc, [("regex", rx)])
                fA, fB = outcome(mk(), A), outcome(mk(), B)
                for order in ((A, B, A), (B, A, B)):
                    r = mk()
                    seq = [outcome(r, x) for x in order]
                    want = [fA if x is A else fB for x in order]
                    b.case()
                    if seq != want:
                        b.violation("regex-rule-reapplied", f"one regex rule object ({side} {rx!r}, {verb}, import={imp}, except={exc}) applied to {'ABA' if order[0] is A else 'BAB'} gave {seq}; fresh rules give {want}",
                                    dict(kind="regex-reapply", side=side, verb=verb, import_=imp, except_=exc, regex=rx))
    # the ORDER in which the object layers of a layer rule are listed (a name-defined and a regex-defined layer in one call) does not matter
    from pytestarch import LayeredArchitecture, LayerRule
    lmods = ["r", "r.a", "r.a.x", "r.b", "r.b.y", "r.c", "r.c.z", "r.d"]
    for imports_ in ([("r.a.x", "r.b.y")], [("r.a.x", "r.c.z")], [("r.a", "r.d")], [("r.b.y", "r.a.x"), ("r.a.x", "r.c")]):
        larch = build_arch(lmods, imports_)
        for verb in ("should", "should_only", "should_not"):
            for acc in ("access_layers_that", "be_accessed_by_layers_that", "access_layers_except_layers_that", "be_accessed_by_layers_except_layers_that"):
                outs_ = []
                for order in (["B", "C"], ["C", "B"]):
                    la = LayeredArchitecture().layer("A").containing_modules(["r.a"]).layer("B").containing_modules(["r.b"]).layer("C").have_modules_with_names_matching(r"r\.c$")
                    rule = getattr(getattr(LayerRule().based_on(la).layers_that().are_named("A"), verb)(), acc)().are_named(order)
                    k, m = outcome(rule, larch)
                    outs_.append((k, sorted((m or "").split("\n")) if k == "fail" else m))
                b.case()
                if outs_[0] != outs_[1]:
                    b.violation("layer-object-order", f"layer rule A {verb} {acc} [B, C] vs [C, B] on imports {imports_}: {outs_[0]} vs {outs_[1]}",
                                dict(kind="layer-object-order", imports=[list(p) for p in imports_], verb=verb, acc=acc))
    # hash seeds: fresh interpreter per seed
    seeds = [0, 1, 2, 3, 5, 7] if tier == "quick" else [0, 1, 2, 3, 5, 7, 11, 13, 17, 19, 23, 29]
    from concurrent.futures import ThreadPoolExecutor
    with ThreadPoolExecutor(8) as ex:
        outs = list(ex.map(lambda hs: _hash_seed_run(hs, seed, 6 if tier == "quick" else 25), seeds))
    b.case()
    for hs, o in zip(seeds, outs):
        if o.startswith("CRASH"):
            raise RuntimeError(o)
        if o != outs[0]:
            a, c = json.loads(outs[0]), json.loads(o)
            diff = next((i for i, (x, y) in enumerate(zip(a, c)) if x != y), None)
            b.violation("hash-seed", f"PYTHONHASHSEED={hs} vs {seeds[0]}: result #{diff} differs: {a[diff]} vs {c[diff]}", dict(kind="hash-seed", seeds=[seeds[0], hs], seed=seed))
    # directory enumeration order
    files = {"__init__.py": "", "a/__init__.py": "", "a/x.py": "import proj.b.y\nfrom proj.c import z\n", "a/w.py": "from . import x\n", "b/__init__.py": "", "b/y.py": "import proj.c.z\n",
             "c/z.py": "import os\n", "c/__init__.py": "from proj.a import x\n",
             # imports that point INTO an internal package that is not scanned (excluded), at two depths, from files whose processing order is the enumeration order (seed C15n)
             "a/p.py": "import proj.gen_out.models.user\n", "a/q.py": "import proj.gen_out.models\n", "b/r.py": "import proj.gen_out\nimport proj.gen_out.models.user.fields\n",
             "gen_out/__init__.py": "", "gen_out/models/__init__.py": "", "gen_out/models/user.py": ""}
    import pathlib
    scan_x = lambda root_: scan(root_, exclusions=("*gen_out*",))
    with temp_project(files) as root:
        ref = arch_snapshot(scan_x(root))
        orig = pathlib.Path.iterdir
        for k in range(3 if tier == "quick" else 12):
            r2 = random.Random(seed + k)

            def shuffled(self, _o=orig, _r=r2):
                xs = list(_o(self))
                _r.shuffle(xs)
                return iter(xs)
            pathlib.Path.iterdir = shuffled
            try:
                got = arch_snapshot(scan_x(root))
            finally:
                pathlib.Path.iterdir = orig
            b.case()
            if got != ref:
                b.violation("enumeration-order", f"scan with shuffled directory enumeration differs: modules {sorted(got[0] ^ ref[0])} imports {sorted(got[1] ^ ref[1])}", dict(kind="enum-order", k=k, seed=seed))
    return b.result()


def rerun_purity(inp):
    if inp.get("kind") in ("hash-seed", "enum-order", "regex-reapply", "layer-object-order"):
        r = bounded_purity("quick", inp.get("seed", 0))
        v = [x for x in r["violations"] if x["input"].get("kind") == inp["kind"]]
        return not v, (v[0]["detail"] if v else "no difference observed")
    mods = TREES[inp["tree"]]
    imports, imports2 = [tuple(p) for p in inp["imports"]], [tuple(p) for p in inp["imports2"]]
    if "S" not in inp:
        return False, "re-run ./check C15"
    S, O = [tuple(x) for x in inp["S"]], [tuple(x) for x in inp["O"]]

    def mk(S_=S, O_=O):
        if inp["except_"] == "any":
            return make_rule(S_, inp["verb"], inp["import_"], False, None, anything=True)
        return make_rule(S_, inp["verb"], inp["import_"], inp["except_"], O_)
    arch, arch2 = build_arch(mods, imports), build_arch(mods, imports2)
    f1, f2 = outcome(mk(), build_arch(mods, imports)), outcome(mk(), build_arch(mods, imports2))
    r = mk()
    seq = [outcome(r, arch), outcome(r, arch), outcome(r, arch2), outcome(r, arch)]
    perm = outcome(mk(list(reversed(S)), list(reversed(O))), arch)
    return seq == [f1, f1, f2, f1] and perm == f1, f"one rule object on [A, A, B, A]: {seq}; fresh: A {f1}, B {f2}; reversed lists: {perm}"
