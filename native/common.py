"""Shared machinery of the bounded stand-ins and of the native replays.

Everything here runs the REAL code of /repo/src (imported as the package `pytestarch`) and compares what it does
with a reference statement of the property written independently, directly from the property text. These checks
are *bounded* (stated enumeration bounds / sample sizes); they are never counted as proved. They serve three
purposes: (1) the labelled bounded part of a property whose functions are not (all) within the verifier's reach,
(2) the search for a failing input when an obligation is refuted or a contract no longer binds to changed code,
(3) replay of a recorded failing input (`./check replay <file>`).
"""
from __future__ import annotations

import itertools
import os
import random
import sys
import tempfile
import shutil
import contextlib

import warnings
warnings.filterwarnings("ignore", category=DeprecationWarning)
warnings.showwarning = lambda *a, **k: None   # the 'deprecated' package re-enables its warnings; the checks call deprecated API on purpose
os.environ.setdefault("PYTHONWARNINGS", "ignore::DeprecationWarning")

REPO_SRC = os.environ.get("PYVC_REPO_SRC", "/repo/src")
if REPO_SRC not in sys.path:
    sys.path.insert(0, REPO_SRC)


# ---------------------------------------------------------------------------------------------- graphs
def parents(name):
    parts = name.split(".")
    return [".".join(parts[:i]) for i in range(1, len(parts))]


def close_up(mods):
    out = set(mods)
    for m in mods:
        out.update(parents(m))
    return sorted(out)


def desc_set(mods, x):
    """x and all modules below it (dotted boundary)."""
    return {m for m in mods if m == x or m.startswith(x + ".")}


def build_arch(mods, imports, level_limit=None):
    """EvaluableArchitectureGraph over the real NetworkxGraph, from module names and (importer, importee) pairs."""
    from pytestarch.eval_structure.evaluable_graph import EvaluableArchitectureGraph
    from pytestarch.eval_structure.networkxgraph import NetworkxGraph
    from pytestarch.eval_structure_generation.file_import.import_types import AbsoluteImport
    imps = [AbsoluteImport(a, b) for a, b in imports]
    return EvaluableArchitectureGraph(NetworkxGraph(list(mods), imps, level_limit))


def arch_snapshot(arch):
    """(modules, import edges) of an evaluable, read through the real graph object."""
    g = arch._graph._graph
    mods = frozenset(g.nodes)
    imps = frozenset((a, b) for a, b, d in g.edges(data=True) if not d.get("inherits"))
    hier = frozenset((a, b) for a, b, d in g.edges(data=True) if d.get("inherits"))
    return mods, imps, hier


# small module trees used by the rule-level checks (root 'r'); names chosen so that siblings are string prefixes
TREES = {
    "flat": ["r", "r.a", "r.b", "r.c"],
    "deep": ["r", "r.a", "r.a.x", "r.a.y", "r.b", "r.b.x", "r.c"],
    "prefix": ["r", "r.a", "r.ab", "r.a.x", "r.ab.x", "r.b"],
    "nestedprefix": ["r", "r.a", "r.a.x", "r.a.xy", "r.a.x.p", "r.b", "r.bc"],
    "deeper": ["r", "r.a", "r.a.x", "r.a.x.p", "r.a.y", "r.b", "r.b.x", "r.b.x.p", "r.c", "r.c.x", "r.d"],
}


def all_pairs(mods):
    return [(a, b) for a in mods for b in mods if a != b and not a.startswith(b + ".") and not b.startswith(a + ".")]


def import_relations(mods, rng, n_random, exhaustive_upto=2, include_related=False):
    """All import relations with at most `exhaustive_upto` imports, plus `n_random` random larger ones."""
    pairs = all_pairs(mods) if not include_related else [(a, b) for a in mods for b in mods if a != b]
    out = [()]
    for k in range(1, exhaustive_upto + 1):
        out += list(itertools.combinations(pairs, k))
    for _ in range(n_random):
        k = rng.randint(exhaustive_upto + 1, max(exhaustive_upto + 1, min(len(pairs), 8)))
        out.append(tuple(rng.sample(pairs, k)))
    return out


# ---------------------------------------------------------------------------------------------- rules
VERBS = ("should", "should_only", "should_not")


def make_rule(subjects, verb, imp, exc, objects, anything=False):
    """subjects/objects: list of (kind, name) with kind in {'name','sub','regex'}; one Rule built with the public API."""
    from pytestarch import Rule
    r = Rule().modules_that()
    r = _apply_filters(r, subjects)
    r = getattr(r, verb)()
    if anything:
        return r.import_anything() if imp else r.be_imported_by_anything()
    meth = {(True, False): "import_modules_that", (False, False): "be_imported_by_modules_that",
            (True, True): "import_modules_except_modules_that", (False, True): "be_imported_by_modules_except_modules_that"}[(imp, exc)]
    r = getattr(r, meth)()
    return _apply_filters(r, objects)


BATCH = [list]   # container type used for batched names: the API takes `str | Sequence[str]`, so a tuple is as good as a list


class batch_as:
    def __init__(self, t):
        self.t = {"list": list, "tuple": tuple}.get(t, t)

    def __enter__(self):
        BATCH.append(self.t)

    def __exit__(self, *a):
        BATCH.pop()


def _apply_filters(r, filters):
    kinds = {k for k, _ in filters}
    if len(kinds) != 1:
        raise ValueError("one filter kind per side")
    kind = kinds.pop()
    names = [n for _, n in filters]
    # batches: list or tuple (both are Sequence[str]); chosen by the content unless a check asks for one of them
    # (a one-shot iterator is accepted by the builder as well: it iterates its argument exactly once)
    ctor = BATCH[-1] if len(BATCH) > 1 else (list, tuple, iter)[sum(map(len, names)) % 3]
    arg = names[0] if len(names) == 1 else ctor(names)
    if kind == "name":
        return r.are_named(arg)
    if kind == "sub":
        return r.are_sub_modules_of(arg)
    if kind == "regex":
        assert len(names) == 1
        return r.have_name_matching(names[0])
    if kind == "partial":
        return r.have_name_containing(arg)
    raise ValueError(kind)


def outcome(rule, arch):
    """('pass', None) | ('fail', message) | ('error', exception type name)."""
    try:
        rule.assert_applies(arch)
        return ("pass", None)
    except AssertionError as e:
        return ("fail", str(e))
    except Exception as e:  # configuration / lookup errors
        return ("error", type(e).__name__)


def fset(mods, f):
    kind, name = f
    d = desc_set(mods, name)
    return d if kind == "name" else d - {name}


def doc_verdict(mods, imports, subjects, verb, imp, exc, objects):
    """Documented semantics (LANGUAGE_DEFINITION.md, module_import_checks.md) on pairwise unrelated subjects/objects.
    Returns True when the rule holds."""
    I = set(imports)
    if not imp:
        I = {(b, a) for a, b in I}  # be-imported-by: mirror image

    def edge(s, o):
        return any((n, c) in I for n in fset(mods, s) for c in fset(mods, o))

    def other(s):
        inside = desc_set(mods, s[1])
        objs = set().union(*[fset(mods, o) for o in objects]) if objects else set()
        return any(n in fset(mods, s) and c not in inside and c not in objs for n, c in I)

    if not exc:
        if verb == "should":
            return all(edge(s, o) for s in subjects for o in objects)
        if verb == "should_not":
            return not any(edge(s, o) for s in subjects for o in objects)
        return all(edge(s, o) for s in subjects for o in objects) and not any(other(s) for s in subjects)
    if verb == "should":
        return all(other(s) for s in subjects)
    if verb == "should_not":
        return not any(other(s) for s in subjects)
    return all(other(s) for s in subjects) and not any(edge(s, o) for s in subjects for o in objects)


def unrelated(names):
    return all(a != b and not a.startswith(b + ".") and not b.startswith(a + ".") for a, b in itertools.combinations(names, 2))


def no_parent_self_import(imports, filters):
    """'sub modules of X': the documentation leaves open whether X itself is inside; exclude imports between X and its own descendants."""
    for kind, x in filters:
        if kind == "sub":
            for a, b in imports:
                if (a == x and b.startswith(x + ".")) or (b == x and a.startswith(x + ".")):
                    return False
    return True


# ---------------------------------------------------------------------------------------------- temp projects
@contextlib.contextmanager
def temp_project(files, root_name="proj"):
    """files: {relative path: source}. Yields the absolute path of the project root directory (named root_name)."""
    base = tempfile.mkdtemp(prefix="pyvcnat_", dir=os.environ.get("PYVC_TMP"))
    root = os.path.join(base, root_name)
    try:
        os.makedirs(root)
        for rel, src in files.items():
            p = os.path.join(root, rel)
            os.makedirs(os.path.dirname(p), exist_ok=True)
            if rel.endswith("/"):
                os.makedirs(p, exist_ok=True)
            else:
                with open(p, "w") as f:
                    f.write(src)
        yield root
    finally:
        shutil.rmtree(base, ignore_errors=True)


_SCANS = [0]


def scan(root, module_path=None, **kw):
    """The real entry point. About every third call spells the two paths with a trailing separator (the same directories)."""
    from pytestarch import get_evaluable_architecture
    import zlib
    mp = module_path or root
    # (decided by the call's content, so that a replay spells the paths like the recorded run)
    if zlib.crc32((os.path.basename(mp.rstrip(os.sep)) + repr(sorted(kw.items(), key=str))).encode()) % 3 == 0:
        root, mp = root.rstrip(os.sep) + os.sep, mp.rstrip(os.sep) + os.sep
    return get_evaluable_architecture(root, mp, **kw)


# ---------------------------------------------------------------------------------------------- bounded-check result
class Bounded:
    """Collects the outcome of one bounded stand-in."""

    def __init__(self, name, bound, max_violations=5):
        self.name = name
        self.bound = bound
        self.cases = 0
        self.nontrivial = 0
        self.violations = []
        self.samples = []
        self.max_violations = max_violations

    def case(self, nontrivial=True, sample=None):
        self.cases += 1
        if nontrivial:
            self.nontrivial += 1
        if sample is not None and len(self.samples) < 3:
            self.samples.append(sample)

    def violation(self, case, detail, inp):
        if len(self.violations) < self.max_violations:
            self.violations.append(dict(case=case, detail=detail, input=inp))

    @property
    def full(self):
        return len(self.violations) >= self.max_violations

    def result(self):
        return dict(name=self.name, status="ok", kind="bounded", bound=self.bound, cases=self.cases,
                    distinct_nontrivial=self.nontrivial, samples=self.samples, violations=self.violations)


def pmap(fn, items, procs=16, fresh=False):
    """Run fn over items in a fork pool (the checks are CPU bound); falls back to serial for small inputs.
    fresh=True: every item runs in its own freshly forked process (process-wide caches of the code under test start empty)."""
    items = list(items)
    if (len(items) <= 1 and not fresh) or procs <= 1:
        return [fn(i) for i in items]
    import multiprocessing as mp
    ctx = mp.get_context("fork")
    if fresh:
        with ctx.Pool(min(procs, max(1, len(items))), maxtasksperchild=1) as pool:
            return pool.map(fn, items, chunksize=1)
    with ctx.Pool(min(procs, len(items))) as pool:
        return pool.map(fn, items, chunksize=max(1, len(items) // (procs * 4)))
