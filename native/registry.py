"""Replay dispatch: name of a bounded stand-in -> function(input) -> (ok, text)."""
from . import rules, builders, invariance, projects, diagrams, layers

RERUN = {
    "C01.verdict-vs-documented-semantics": rules.rerun_verdict,
    "C03.reported-violations-vs-reference-set": rules.rerun_verdict,
    "C12.algebra-laws-on-real-outcomes": rules.rerun_algebra,
    "C11.regex-and-batch-equal-expansion": rules.rerun_expansion,
    "C13.rule-call-chains-vs-specification-automaton": builders.rerun_c13,
    "C13.absent-module-names-never-give-a-verdict": builders.rerun_c13,
    "C13.layer-diagram-entry-point-specifications": builders.rerun_other_builders,
    "C16.layer-builder-sequences-vs-specification-automaton": builders.rerun_c16,
    "C14.verdicts-and-messages-invariant-under-component-renaming": invariance.rerun_renaming,
    "C15.purity-history-order-seed-independence": invariance.rerun_purity,
    "C02.import-statements-vs-edges": projects.rerun_c02,
    "C04.modules-mirror-directory-tree": projects.rerun_c04,
    "C08.exclusions-remove-exactly-matching-paths": projects.rerun_c08,
    "C09.level-limit-is-the-quotient-graph": projects.rerun_c09,
    "C10.external-options-touch-only-externals": projects.rerun_c10,
    "C06.puml-parse-vs-generated-relation": diagrams.rerun_c06,
    "C07.diagram-rule-vs-conformance": diagrams.rerun_c07,
    "C05.layer-verdict-vs-documented-semantics": layers.rerun_c05,
    "C17.plot-labels-at-the-drawing-backend": layers.rerun_c17,
    "C14.layer-attribution-and-labels-under-renaming": layers.rerun_c14l,
}
