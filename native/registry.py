"""Replay dispatch: name of a bounded stand-in -> function(input) -> (ok, text)."""
from . import rules

RERUN = {
    "C01.verdict-vs-documented-semantics": rules.rerun_verdict,
    "C03.reported-violations-vs-reference-set": rules.rerun_verdict,
    "C12.algebra-laws-on-real-outcomes": rules.rerun_algebra,
    "C11.regex-and-batch-equal-expansion": rules.rerun_expansion,
}
