"""Bounded stand-ins for the fluent builders: C13 (no verdict from incomplete / contradictory / undefined specifications)
and C16 (layer definitions are well formed). Reference: independent specification automata written from the property text."""
from __future__ import annotations

import itertools
import random

from .common import TREES, Bounded, build_arch, outcome, pmap

CONFIG_ERRORS = {"ImproperlyConfigured", "RuleInconsistency", "ImpossibleMatch", "KeyError", "NetworkXError", "LayerMismatch",
                 "PumlParsingError", "TypeError", "AttributeError", "ValueError", "NodeNotFound"}

# ---------------------------------------------------------------------------------------------- C13: Rule call chains
RULE_VOCAB = ["modules_that", "are_named", "are_sub_modules_of", "have_name_matching", "should", "should_only", "should_not",
              "import_modules_that", "be_imported_by_modules_that", "import_modules_except_modules_that",
              "be_imported_by_modules_except_modules_that", "import_anything", "be_imported_by_anything"]
COMPLETE_CHAINS = [
    ["modules_that", "are_named", v, t, "are_named"]
    for v in ("should", "should_only", "should_not")
    for t in ("import_modules_that", "be_imported_by_modules_that", "import_modules_except_modules_that", "be_imported_by_modules_except_modules_that")
] + [["modules_that", "are_sub_modules_of", "should_not", "import_anything"], ["modules_that", "are_named", "should_not", "be_imported_by_anything"],
     ["modules_that", "have_name_matching", "should", "import_modules_that", "are_sub_modules_of"]]


class RuleSpec:
    """Specification automaton of the Rule builder (property C13): which chains are complete and consistent."""

    def __init__(self):
        self.side = None          # None | 'subject' | 'object'
        self.subject = False
        self.object = False
        self.verbs = set()
        self.import_type = False
        self.anything = False
        self.rejected = False     # a call that must itself be rejected (object/subject given before a side was chosen)

    def call(self, name):
        if name == "modules_that":
            self.side = "subject"
        elif name in ("are_named", "are_sub_modules_of", "have_name_matching"):
            if self.side is None:
                self.rejected = True
            elif self.side == "subject":
                self.subject = True
            else:
                self.object = True
        elif name in ("should", "should_only", "should_not"):
            self.verbs.add(name)
        elif name in ("import_anything", "be_imported_by_anything"):
            self.import_type = True
            self.anything = True
            self.side = "object"
        else:
            self.import_type = True
            self.side = "object"

    def classify(self):
        if self.rejected:
            return "rejected"
        if not self.subject or not self.verbs or not self.import_type or not (self.object or self.anything):
            return "incomplete"
        if self.anything and self.verbs != {"should_not"}:
            return "contradictory"
        if "should_not" in self.verbs and len(self.verbs) > 1:
            return "contradictory"
        return "complete"


def _run_rule_chain(chain, arch, names=("r.a", "r.b")):
    """Execute a chain on a fresh Rule, then assert_applies. -> (outcome kind, detail, index of the raising call or None)"""
    from pytestarch import Rule
    r = Rule()
    k = 0
    for i, c in enumerate(chain):
        try:
            if c == "assert_applies":
                # an evaluation in the middle of the chain: whatever it does, the rule object must judge its FINAL configuration later
                try:
                    r.assert_applies(arch)
                except BaseException:
                    pass
                continue
            if c in ("are_named", "are_sub_modules_of"):
                r = getattr(r, c)(names[k % 2])
                k += 1
            elif c == "have_name_matching":
                r = r.have_name_matching(r"r\.[ab]$")
            else:
                r = getattr(r, c)()
        except AssertionError as e:
            return "fail", str(e), i
        except Exception as e:
            return "error", type(e).__name__, i
        if r is None:
            return "error", "None returned", i
    kind, msg = outcome(r, arch)
    return kind, msg, None


def _chain_variants(chain):
    out = []
    for i in range(len(chain)):
        out.append(chain[:i] + chain[i + 1:])                 # deletion
        out.append(chain[:i] + [chain[i]] + chain[i:])        # duplication
        if i + 1 < len(chain):
            out.append(chain[:i] + [chain[i + 1], chain[i]] + chain[i + 2:])  # transposition
    return out


def _c13_chunk(chains):
    arch = build_arch(TREES["deep"], [("r.a.x", "r.b.x"), ("r.b", "r.c")])
    out = dict(cases=0, nontrivial=0, violations=[], samples=[])
    for chain in chains:
        spec = RuleSpec()
        for c in chain:
            if c != "assert_applies":
                spec.call(c)
        cls = spec.classify()
        kind, detail, at = _run_rule_chain(chain, arch)
        out["cases"] += 1
        out["nontrivial"] += cls != "complete"
        if cls != "complete" and kind in ("pass", "fail"):
            if len(out["violations"]) < 3:
                out["violations"].append(dict(case="rule-chain", detail=f"{cls} chain produced a verdict: {kind} {detail!r}", input=dict(kind="rule", chain=chain)))
        elif cls != "complete" and detail not in CONFIG_ERRORS:
            if len(out["violations"]) < 3:
                out["violations"].append(dict(case="rule-chain", detail=f"{cls} chain raised {detail}, not a configuration/lookup error", input=dict(kind="rule", chain=chain)))
        elif [c for c in chain if c != "assert_applies"] in COMPLETE_CHAINS and kind == "error" and detail in ("ImproperlyConfigured", "RuleInconsistency"):
            # a complete, single-verb chain over existing modules must be evaluated
            if len(out["violations"]) < 3:
                out["violations"].append(dict(case="rule-chain", detail=f"complete chain was rejected with {detail}", input=dict(kind="rule", chain=chain)))
    return out


def _merge(b, parts):
    for p in parts:
        b.cases += p["cases"]
        b.nontrivial += p["nontrivial"]
        for v in p["violations"]:
            b.violation(v["case"], v["detail"], v["input"])
        for s in p.get("samples", []):
            if len(b.samples) < 3:
                b.samples.append(s)


def bounded_rule_chains(tier, seed):
    b = Bounded("C13.rule-call-chains-vs-specification-automaton",
                "Rule vocabulary (13 calls): all chains of length <=3 (quick) / <=4 (thorough) + 4000/60000 random chains of length 4-6, plus every single deletion, duplication and "
                "transposition of 15 complete chains; classification complete/incomplete/contradictory by an independent automaton")
    rng = random.Random(seed)
    chains = []
    for n in range(1, 4 if tier == "quick" else 5):
        chains += [list(c) for c in itertools.product(RULE_VOCAB, repeat=n)]
    for _ in range(4000 if tier == "quick" else 400000):
        chains.append([rng.choice(RULE_VOCAB) for _ in range(rng.randint(4, 6))])
    for c in COMPLETE_CHAINS:
        chains.append(c)
        chains += _chain_variants(c)
        # the same rule object evaluated, then extended, then evaluated again
        for extra in RULE_VOCAB:
            chains.append(c + ["assert_applies", extra])
            chains.append(c[:3] + ["assert_applies"] + c[3:] + ["assert_applies", extra])
    for _ in range(1500 if tier == "quick" else 150000):
        ch = [rng.choice(RULE_VOCAB) for _ in range(rng.randint(4, 7))]
        ch.insert(rng.randint(1, len(ch)), "assert_applies")
        chains.append(ch)
    size = max(1, len(chains) // 32)
    _merge(b, pmap(_c13_chunk, [chains[i:i + size] for i in range(0, len(chains), size)]))
    b.samples.append(dict(chain=COMPLETE_CHAINS[0][:-1], classified="incomplete"))
    return b.result()


# ---------------------------------------------------------------------------------------------- C13: unknown names
def bounded_unknown_names(tier, seed):
    from .rules import SHAPES
    from .common import make_rule
    b = Bounded("C13.absent-module-names-never-give-a-verdict", "trees deep/prefix, with and without level_limit=1; names: misspelt, too deep, below the level limit, prefix of an existing name; "
                "on subject or object side, name and sub-module filters, 12 shapes + 'anything'; random import relations (20/200)")
    rng = random.Random(seed)
    for tree in ("deep", "prefix"):
        mods = TREES[tree]
        for limit in (None, 1):
            for _ in range(20 if tier == "quick" else 1000):
                pairs = [(a, c) for a in mods for c in mods if a != c and "." in a and "." in c]
                imports = rng.sample(pairs, rng.randint(0, 4))
                ghosts = []
                if rng.random() < 0.5:
                    # an import whose importee is no module of the architecture (e.g. it lies in an excluded package): neither it nor its ancestors become modules
                    imports = imports + [(rng.choice([m for m in mods if "." in m]), "r.gone.deep.m")]
                    ghosts = ["r.gone", "r.gone.deep", "r.gone.deep.m"]
                arch = build_arch(mods, imports, level_limit=limit)
                present = set(arch.modules)
                absent = [n for n in ["r.zz", "r.a.zz", "r.a.x.zz", "r.ax", "q", "r.a.", "r.a.x" if limit else "r.b.zz"] if n not in present] + ghosts   # (the ghosts are absent by construction, whatever the graph says)
                good = rng.choice(sorted(m for m in present if "." in m))
                for bad in absent:
                    for kindf in ("name", "sub"):
                        for verb, imp, exc in SHAPES:
                            for side in ("subject", "object"):
                                S, O = ([(kindf, bad)], [("name", good)]) if side == "subject" else ([("name", good)], [(kindf, bad)])
                                kind, msg = outcome(make_rule(S, verb, imp, exc, O), arch)
                                b.case()
                                if kind != "error":
                                    b.violation("absent-name", f"rule mentioning absent module {bad!r} ({side}) gave verdict {kind} {msg!r}",
                                                dict(kind="absent", tree=tree, level_limit=limit, imports=[list(p) for p in imports], S=S, O=O, verb=verb, import_=imp, except_=exc))
                        kind, msg = outcome(make_rule([(kindf, bad)], "should_not", True, False, None, anything=True), arch)
                        if kindf == "name":
                            # a batch of partial names in which ONE matches no module: no verdict either (the matching one must not hide the dead one)
                            for side in ("subject", "object"):
                                dead = [("partial", "*" + good.rsplit(".", 1)[1]), ("partial", "*" + bad.replace(".", "") + "zz*")]
                                verb, imp, exc = SHAPES[(len(bad) + len(good)) % len(SHAPES)]
                                S2, O2 = (dead, [("name", good)]) if side == "subject" else ([("name", good)], dead)
                                k2, m2 = outcome(make_rule(S2, verb, imp, exc, O2), arch)
                                b.case()
                                if k2 != "error":
                                    b.violation("absent-name", f"batch of partial names {[x for _, x in dead]} ({side}; the second matches nothing) gave verdict {k2} {m2!r}",
                                                dict(kind="absent", tree=tree, level_limit=limit, imports=[list(p) for p in imports], S=S2, O=O2, verb=verb, import_=imp, except_=exc))
                        b.case()
                        if kind != "error":
                            b.violation("absent-name", f"'anything' rule on absent module {bad!r} gave verdict {kind}", dict(kind="absent-anything", tree=tree, level_limit=limit, imports=[list(p) for p in imports], S=[(kindf, bad)]))
    return b.result()


def rerun_c13(inp):
    from .common import make_rule
    if inp["kind"] == "rule":
        arch = build_arch(TREES["deep"], [("r.a.x", "r.b.x"), ("r.b", "r.c")])
        spec = RuleSpec()
        for c in inp["chain"]:
            if c != "assert_applies":
                spec.call(c)
        kind, detail, at = _run_rule_chain(inp["chain"], arch)
        cls = spec.classify()
        ok = not (cls != "complete" and (kind in ("pass", "fail") or detail not in CONFIG_ERRORS))
        return ok, f"chain {inp['chain']} classified {cls}; real outcome: {kind} {detail!r}"
    T = lambda fs: [tuple(f) for f in fs]
    arch = build_arch(TREES[inp["tree"]], [tuple(p) for p in inp["imports"]], level_limit=inp["level_limit"])
    if inp["kind"] == "absent-anything":
        kind, msg = outcome(make_rule(T(inp["S"]), "should_not", True, False, None, anything=True), arch)
    else:
        kind, msg = outcome(make_rule(T(inp["S"]), inp["verb"], inp["import_"], inp["except_"], T(inp["O"])), arch)
    return kind == "error", f"real outcome: {kind} {msg!r} (an absent name must raise a configuration/lookup error)"


# ---------------------------------------------------------------------------------------------- C16: layer definitions
LAYER_OPS = [("layer", "L1"), ("layer", "L2"), ("cm", "M1"), ("cm", "M2"), ("cm", ["M1"]), ("cm", ["M2"]), ("cm", ["M2", "M1"]), ("cm", ["M2", "M2"]),
             ("re", "x.*"), ("with_layer", None)]


class LayerSpec:
    def __init__(self):
        self.layers = []      # [name, items or None]; items: list of ('name'|'regex', str)
        self.error_at = None

    def pending(self):
        return [l for l in self.layers if l[1] is None]

    def step(self, op, arg):
        """-> True if the call must be accepted, False if it must be rejected with ImproperlyConfigured."""
        if op == "with_layer":
            return True
        if op == "layer":
            if self.pending() or any(l[0] == arg for l in self.layers):
                return False
            self.layers.append([arg, None])
            return True
        if not self.pending():
            return False
        if op == "re":
            self.pending()[0][1] = [("regex", arg)]
            return True
        names = arg if isinstance(arg, list) else [arg]
        assigned = {n for l in self.layers if l[1] for k, n in l[1]}
        if set(names) & assigned:
            return False
        self.pending()[0][1] = [("name", n) for n in names]
        return True

    def rendering(self):
        return "Layered Architecture: " + "; ".join(f"Layer {n}: [{', '.join(x for _, x in (items or []))}]" for n, items in self.layers)


def _run_layer_seq(seq):
    from pytestarch import LayeredArchitecture
    arch = LayeredArchitecture()
    spec = LayerSpec()
    for i, (op, arg) in enumerate(seq):
        want = spec.step(op, arg)
        try:
            if op == "layer":
                r = arch.layer(arg)
            elif op == "cm":
                r = arch.containing_modules(arg)
            elif op == "re":
                r = arch.have_modules_with_names_matching(arg)
            else:
                r = arch.with_layer()
            got, err = True, None
        except Exception as e:
            got, err = False, type(e).__name__
        if got != want:
            return False, f"call {i} {op}({arg!r}): must be {'accepted' if want else 'rejected'}, was {'accepted' if got else 'rejected with ' + str(err)}"
        if not got:
            if err != "ImproperlyConfigured":
                return False, f"call {i} {op}({arg!r}) rejected with {err}, not ImproperlyConfigured"
            return True, "rejected at the offending call"
        if str(arch) != spec.rendering():
            return False, f"after call {i}: str(architecture) = {str(arch)!r}, supplied = {spec.rendering()!r}"
        for name, items in spec.layers:
            real = [(("regex" if f.identifier_is_regex else "name"), f.identifier) for f in arch[name]]
            if real != (items or []):
                return False, f"after call {i}: architecture[{name!r}] = {real}, supplied {items}"
        # the same listing through the public layer mapping of the accepted definition (what a layer rule evaluates against)
        if not spec.pending():
            lm = arch.layer_mapping
            if list(lm.all_layers) != [n for n, _ in spec.layers]:
                return False, f"after call {i}: layer_mapping.all_layers = {list(lm.all_layers)}, supplied {[n for n, _ in spec.layers]}"
            for name, items in spec.layers:
                real = [(("regex" if f.identifier_is_regex else "name"), f.identifier) for f in lm.get_module_filters(name)]
                if real != (items or []):
                    return False, f"after call {i}: layer_mapping.get_module_filters({name!r}) = {real}, supplied {items}"
    return True, "accepted; lists exactly what was supplied"


def _c16_chunk(seqs):
    out = dict(cases=0, nontrivial=0, violations=[])
    for seq in seqs:
        ok, text = _run_layer_seq(seq)
        out["cases"] += 1
        out["nontrivial"] += len(seq) > 2
        if not ok and len(out["violations"]) < 3:
            out["violations"].append(dict(case="layer-definition", detail=text, input=dict(kind="layers", seq=[[o, a] for o, a in seq])))
    return out


LAYER_RULE_VOCAB = ["based_on", "layers_that", "are_named:L1", "are_named:L2", "are_named:[L1]", "are_named:[L1,L2]", "should", "should_not", "should_only",
                    "access_layers_that", "be_accessed_by_layers_that", "access_layers_except_layers_that", "access_any_layer", "assert_applies"]


def _run_layer_rule_prefix(seq):
    """Reference: architecture first; layers_that after based_on; exactly one subject layer (a str, once); every other call needs layers_that."""
    from pytestarch import LayeredArchitecture, LayerRule
    la = LayeredArchitecture().layer("L1").containing_modules(["r.a"]).layer("L2").containing_modules(["r.b"])
    arch = build_arch(TREES["deep"], [("r.a.x", "r.b.x")])
    rule = LayerRule()
    have_arch = started = False
    subject_done = False
    on_object_side = False
    for i, c in enumerate(seq):
        if c == "based_on":
            want = not have_arch
        elif c == "layers_that":
            want = have_arch
        elif c.startswith("are_named"):
            is_list = "[" in c
            if not started:
                want = False
            elif not on_object_side:
                want = (not is_list) and not subject_done
            else:
                want = True if subject_done else None  # objects before any subject: no claim (the rule is incomplete either way)
        elif c == "assert_applies":
            want = None  # outcome depends on completeness; only: no verdict unless started
        else:
            want = started
        try:
            if c == "based_on":
                rule.based_on(la)
            elif c == "layers_that":
                rule.layers_that()
            elif c.startswith("are_named"):
                a = c.split(":")[1]
                rule.are_named([x for x in a.strip("[]").split(",")] if "[" in a else a)
            elif c == "assert_applies":
                rule.assert_applies(arch)
            else:
                getattr(rule, c)()
            got, err = True, None
        except AssertionError:
            got, err = True, "AssertionError"
        except Exception as e:
            got, err = False, type(e).__name__
        if c == "assert_applies":
            if not started and got:
                return False, f"call {i}: assert_applies on a layer rule without layers_that gave a verdict"
            if not got and err not in CONFIG_ERRORS:
                return False, f"call {i}: assert_applies raised {err}"
            return True, "ok"
        if want is None:
            if not got:
                return (err in CONFIG_ERRORS), f"call {i} {c} rejected with {err}"
            continue
        if got != want:
            return False, f"call {i} {c}: must be {'accepted' if want else 'rejected'}, was {'accepted' if got else 'rejected with ' + str(err)}"
        if not got:
            return (err == "ImproperlyConfigured"), f"call {i} {c} rejected with {err}"
        if c == "based_on":
            have_arch = True
        elif c == "layers_that":
            started, subject_done, on_object_side = True, False, False
        elif c.startswith("are_named") and not on_object_side:
            subject_done = True
        elif c in ("access_layers_that", "be_accessed_by_layers_that", "access_layers_except_layers_that", "access_any_layer"):
            on_object_side = True
    return True, "ok"


def _c16_rule_chunk(seqs):
    out = dict(cases=0, nontrivial=0, violations=[])
    for seq in seqs:
        ok, text = _run_layer_rule_prefix(seq)
        out["cases"] += 1
        out["nontrivial"] += 1
        if not ok and len(out["violations"]) < 3:
            out["violations"].append(dict(case="layer-rule-prefix", detail=text, input=dict(kind="layer-rule", seq=list(seq))))
    return out


def bounded_layer_definitions(tier, seed):
    b = Bounded("C16.layer-builder-sequences-vs-specification-automaton",
                "LayeredArchitecture: all call sequences of length <=4 (quick) / <=5 (thorough) over 9 operations (2 layer names, 2 module names as str and inside lists, a regex, "
                "with_layer) + 3000/40000 random sequences of length 5-8; LayerRule: all call-chain prefixes of length <=3 (quick) / <=4 over 13 calls + 3000/30000 random of length 4-6")
    rng = random.Random(seed)
    seqs = []
    for n in range(1, 5 if tier == "quick" else 6):
        seqs += [list(c) for c in itertools.product(LAYER_OPS, repeat=n)]
    # module / layer names are arbitrary strings compared exactly: padded, differently cased and dotted variants are different names, and the same padded name twice is a duplicate
    odd_ops = [("layer", "L1"), ("layer", "L2"), ("layer", "L1 "), ("cm", "M1 "), ("cm", ["M1 "]), ("cm", "M1"), ("cm", " M1"), ("cm", ["M1\n"]), ("cm", "m1"), ("cm", ["M1.x", "M1"])]
    for n in range(2, 5):
        seqs += [list(c) for c in itertools.product(odd_ops, repeat=n) if any(isinstance(a, str) and a != a.strip() or isinstance(a, list) and any(x != x.strip() for x in a) for _, a in c)][:: (1 if tier != "quick" else 2)]
    # the same module twice inside ONE list, the same regex for two layers (both accepted by the builder: the listing must show them as supplied; seed C16o)
    rep_ops = [("layer", "L1"), ("layer", "L2"), ("cm", ["M1", "M2", "M1"]), ("cm", ["M2", "M2"]), ("re", "R"), ("cm", "M2")]
    for n in range(2, 5):
        seqs += [list(c) for c in itertools.product(rep_ops, repeat=n)]
    for _ in range(3000 if tier == "quick" else 300000):
        seqs.append([rng.choice(LAYER_OPS) for _ in range(rng.randint(5, 8))])
    size = max(1, len(seqs) // 32)
    _merge(b, pmap(_c16_chunk, [seqs[i:i + size] for i in range(0, len(seqs), size)]))
    rs = []
    for n in range(1, 4 if tier == "quick" else 5):
        rs += [list(c) for c in itertools.product(LAYER_RULE_VOCAB, repeat=n)]
    for _ in range(3000 if tier == "quick" else 200000):
        rs.append(["based_on", "layers_that"][:rng.randint(0, 2)] + [rng.choice(LAYER_RULE_VOCAB) for _ in range(rng.randint(2, 5))])
    size = max(1, len(rs) // 32)
    _merge(b, pmap(_c16_rule_chunk, [rs[i:i + size] for i in range(0, len(rs), size)]))
    b.samples.append(dict(seq=[["layer", "L1"], ["cm", ["M1"]], ["layer", "L2"], ["cm", "M1"]], expected="last call rejected"))
    return b.result()


def rerun_c16(inp):
    if inp["kind"] == "layers":
        return _run_layer_seq([(o, a) for o, a in inp["seq"]])
    return _run_layer_rule_prefix(inp["seq"])


# ---------------------------------------------------------------------------------------------- C13: layer rules, diagram rules, entry points
LAYER_COMPLETE = [
    ["based_on", "layers_that", "are_named:{S}", v, t, "are_named:{O}", "assert_applies"]
    for v in ("should", "should_only", "should_not")
    for t in ("access_layers_that", "be_accessed_by_layers_that", "access_layers_except_layers_that", "be_accessed_by_layers_except_layers_that")
] + [["based_on", "layers_that", "are_named:{S}", "should_not", "access_any_layer", "assert_applies"]]


def _run_layer_chain(chain, defined=("L1", "L2", "L3")):
    from pytestarch import LayeredArchitecture, LayerRule
    la = LayeredArchitecture().layer("L1").containing_modules(["r.a"]).layer("L2").containing_modules(["r.b"]).layer("L3").containing_modules(["r.c"])
    arch = build_arch(TREES["deep"], [("r.a.x", "r.b.x"), ("r.b", "r.c")])
    rule = LayerRule()
    try:
        for c in chain:
            if c == "based_on":
                rule.based_on(la)
            elif c.startswith("are_named:"):
                a = c.split(":", 1)[1]
                rule.are_named(a.strip("[]").split(",") if a.startswith("[") else a)
            elif c == "assert_applies":
                rule.assert_applies(arch)
                return "pass", None
            else:
                getattr(rule, c)()
    except AssertionError as e:
        return "fail", str(e)
    except Exception as e:
        return "error", type(e).__name__
    return "nocall", None


def bounded_other_builders(tier, seed):
    import os
    from pathlib import Path
    from pytestarch import DiagramRule, get_evaluable_architecture
    from .common import temp_project
    b = Bounded("C13.layer-diagram-entry-point-specifications", "LayerRule: 13 complete chains with an undefined layer name on the subject side, the object side, and inside object batches mixed with "
                "defined layers (all positions), plus every single deletion / transposition of every complete chain; DiagramRule without file / with a file lacking tags; "
                "get_evaluable_architecture with every invalid option combination (both exclusion kinds, both external kinds, external patterns while excluded, module_path outside root_path)")
    for chain in LAYER_COMPLETE:
        variants = []
        for S, O, expect_error in (("L1", "L2", False), ("LX", "L2", True), ("L1", "LX", True), ("L1", "[L2,LX]", True), ("L1", "[LX,L2]", True), ("L1", "[L2,LX,L3]", True), ("L1", "[L2,L3]", False)):
            ch_ = [c.replace("{S}", S).replace("{O}", O) for c in chain]
            variants.append((ch_, any("LX" in c for c in ch_), "undefined-layer"))
        base = [c.replace("{S}", "L1").replace("{O}", "L2") for c in chain]
        for i in range(len(base) - 1):
            variants.append((base[:i] + base[i + 1:], True, "deletion"))
        for ch, expect_error, why in variants:
            kind, detail = _run_layer_chain(ch)
            b.case()
            if expect_error and kind in ("pass", "fail"):
                b.violation("layer-rule-chain", f"{why}: chain {ch} produced a verdict ({kind} {detail!r})", dict(kind="layer-chain", chain=ch, expect_error=True))
            elif expect_error and detail not in CONFIG_ERRORS:
                b.violation("layer-rule-chain", f"{why}: chain {ch} raised {detail}", dict(kind="layer-chain", chain=ch, expect_error=True))
            elif not expect_error and kind == "error":
                b.violation("layer-rule-chain", f"complete chain {ch} was rejected with {detail}", dict(kind="layer-chain", chain=ch, expect_error=False))
    # diagram rules
    arch = build_arch(TREES["deep"], [("r.a.x", "r.b.x")])
    for mk, why in ((lambda: DiagramRule().with_base_module("r"), "no file"), (lambda: DiagramRule(should_only_rule=False).base_module_included_in_module_names(), "no file")):
        kind, detail = outcome(mk(), arch)
        b.case()
        if kind != "error" or detail != "ImproperlyConfigured":
            b.violation("diagram-rule", f"DiagramRule with {why}: {kind} {detail}", dict(kind="diagram-nofile"))
    with temp_project({"d.puml": "[a] --> [b]\n", "e.puml": "@startuml\n[a] --> [b]\n", "f.puml": ""}, "dia") as root:
        for f in ("d.puml", "e.puml", "f.puml"):
            kind, detail = outcome(DiagramRule().from_file(Path(os.path.join(root, f))).with_base_module("r"), arch)
            b.case()
            if kind != "error" or detail != "PumlParsingError":
                b.violation("diagram-rule", f"diagram file without start/end tags ({f}): {kind} {detail}", dict(kind="diagram-notags", file=f))
    # entry points
    with temp_project({"__init__.py": "", "a/__init__.py": "", "a/m.py": "import os\n", "b/k.py": ""}, "proj") as root:
        bad = [dict(exclusions=("*x*",), regex_exclusions=(".*x.*",)), dict(regex_exclusions=(".*x.*",)),
               dict(exclude_external_libraries=False, external_exclusions=("os",), regex_external_exclusions=("os",)),
               dict(external_exclusions=("os",)), dict(regex_external_exclusions=("os",)), dict(exclude_external_libraries=True, external_exclusions=("os*",))]
        for kw in bad:
            b.case()
            try:
                get_evaluable_architecture(root, root, **kw)
                b.violation("entry-point", f"invalid option combination {kw} was accepted", dict(kind="entry", kw={k: list(v) if isinstance(v, tuple) else v for k, v in kw.items()}))
            except Exception as e:
                if type(e).__name__ != "ImproperlyConfigured":
                    b.violation("entry-point", f"invalid option combination {kw} raised {type(e).__name__}", dict(kind="entry", kw={k: list(v) if isinstance(v, tuple) else v for k, v in kw.items()}))
        for mp in (os.path.dirname(root), os.path.join(os.path.dirname(root), "elsewhere"), "/"):
            b.case()
            try:
                get_evaluable_architecture(root, mp)
                b.violation("entry-point", f"module_path {mp} outside root_path was accepted", dict(kind="entry-path", mp=mp))
            except (ValueError, ) as e:
                pass
            except Exception as e:
                b.violation("entry-point", f"module_path outside root_path raised {type(e).__name__}", dict(kind="entry-path", mp=mp))
    b.samples.append(dict(chain=["based_on", "layers_that", "are_named:L1", "should", "access_layers_that", "are_named:[L2,LX]", "assert_applies"], expected="lookup error, no verdict"))
    return b.result()


def rerun_other_builders(inp):
    if inp["kind"] == "layer-chain":
        kind, detail = _run_layer_chain(inp["chain"])
        ok = (kind == "error" and detail in CONFIG_ERRORS) if inp["expect_error"] else kind != "error"
        return ok, f"chain {inp['chain']}: {kind} {detail!r}"
    r = bounded_other_builders("quick", 0)
    v = [x for x in r["violations"] if x["input"].get("kind") == inp["kind"]]
    return not v, (v[0]["detail"] if v else "rejected with a configuration error")
