"""Bounded stand-ins for C05 (layer-rule verdicts), C17 (plot labels) and the layer / label parts of C14."""
from __future__ import annotations

import itertools
import random
import re
from unittest import mock

from .common import TREES, Bounded, build_arch, desc_set, import_relations, outcome, pmap

LTREE = ["r", "r.a", "r.a.x", "r.a.x.p", "r.ab", "r.ab.y", "r.b", "r.b.x", "r.c", "r.c.z", "r.d", "r.e", "r.G", "r.G.k"]   # (r.G: a capitalised name sorts before the lower-case ones)


def layer_rule(la, subject, verb, acc, exc, objects, any_layer=False):
    from pytestarch import LayerRule
    r = LayerRule().based_on(la).layers_that().are_named(subject)
    r = getattr(r, verb)()
    if any_layer:
        return r.access_any_layer() if acc else r.be_accessed_by_any_layer()
    m = {(True, False): "access_layers_that", (False, False): "be_accessed_by_layers_that",
         (True, True): "access_layers_except_layers_that", (False, True): "be_accessed_by_layers_except_layers_that"}[(acc, exc)]
    r = getattr(r, m)()
    return r.are_named(objects[0] if len(objects) == 1 else list(objects))


def make_architecture(defs):
    """defs: [(layer name, ('names', [..]) | ('regex', rx))]"""
    from pytestarch import LayeredArchitecture
    la = LayeredArchitecture()
    for name, (kind, val) in defs:
        la = la.layer(name)
        la = la.containing_modules(list(val)) if kind == "names" else la.have_modules_with_names_matching(val)
    return la


def layer_sets(mods, defs):
    out = {}
    for name, (kind, val) in defs:
        listed = list(val) if kind == "names" else [m for m in mods if re.match(val, m)]
        s = set()
        for m in listed:
            s |= desc_set(mods, m)
        out[name] = s
    return out


def doc_layer_verdict(mods, imports, lay, subject, verb, acc, exc, objects, any_layer=False):
    I = set(imports) if acc else {(b, a) for a, b in imports}
    A = lay[subject]
    if any_layer:
        return not any(n in A and c not in A for n, c in I)
    objs = [lay[o] for o in objects]

    def access(B):
        return any(n in A and c in B and c not in A for n, c in I)

    def other():
        u = set().union(*objs)
        return any(n in A and c not in A and c not in u for n, c in I)
    if not exc:
        if verb == "should":
            return all(access(B) for B in objs)
        if verb == "should_not":
            return not any(access(B) for B in objs)
        return all(access(B) for B in objs) and not other()
    if verb == "should":
        return other()
    if verb == "should_not":
        return not other()
    return other() and not any(access(B) for B in objs)


def random_layers(rng, mods, rho=None):
    """2-4 layers over pairwise unrelated modules; by names, by regex, or mixed. Some modules stay in no layer."""
    cand = [m for m in mods if "." in m]
    rng.shuffle(cand)
    chosen = []
    for m in cand:
        if all(not (m == c or m.startswith(c + ".") or c.startswith(m + ".")) for c in chosen):
            chosen.append(m)
    rng.shuffle(chosen)
    n_layers = rng.randint(2, min(4, len(chosen)))
    chosen = chosen[:rng.randint(n_layers, len(chosen))]
    groups = [[] for _ in range(n_layers)]
    for i, m in enumerate(chosen):
        groups[i % n_layers].append(m)
    defs = []
    for i, g in enumerate(groups):
        if rng.random() < 0.3:
            rx = "(" + "|".join(re.escape(x) for x in g) + ")$"
            deep = [m for m in mods if m.count(".") >= 2]
            if deep and rng.random() < 0.5:
                # an alternative that occurs only further right in some other module's name: a regex layer matches from the START of the name, so it selects nothing
                rx += "|" + re.escape(".".join(rng.choice(deep).split(".")[-2:])) + "$"
            defs.append((f"L{i}", ("regex", rx)))
        else:
            defs.append((f"L{i}", ("names", g)))
    return defs


def _c05_chunk(args):
    rels, seed, n_rules = args
    mods = LTREE
    rng = random.Random(seed)
    out = dict(cases=0, nontrivial=0, violations=[], samples=[])
    shapes = [(v, a, e) for v in ("should", "should_only", "should_not") for a in (True, False) for e in (False, True)]
    for imports in rels:
        arch = build_arch(mods, imports)
        for _ in range(n_rules):
            defs = random_layers(rng, mods)
            lay = layer_sets(mods, defs)
            names = [n for n, _ in defs]
            subject = rng.choice(names)
            others = [n for n in names if n != subject]
            objects = rng.sample(others, rng.randint(1, min(2, len(others))))
            for verb, acc, exc in shapes:
                la = make_architecture(defs)
                kind, msg = outcome(layer_rule(la, subject, verb, acc, exc, objects), arch)
                want = doc_layer_verdict(mods, imports, lay, subject, verb, acc, exc, objects)
                out["cases"] += 1
                out["nontrivial"] += bool(imports)
                inp = dict(kind="c05", imports=[list(p) for p in imports], defs=[[n, list(d)] for n, d in defs], subject=subject, verb=verb, access=acc, except_=exc, objects=objects)
                if kind == "error" or (kind == "pass") != want:
                    if len(out["violations"]) < 3:
                        out["violations"].append(dict(case="layer-verdict", detail=f"real outcome {kind} ({msg}); documented layer semantics say {'pass' if want else 'fail'}", input=inp))
            for acc in (True, False):
                la = make_architecture(defs)
                kind, msg = outcome(layer_rule(la, subject, "should_not", acc, False, None, any_layer=True), arch)
                want = doc_layer_verdict(mods, imports, lay, subject, "should_not", acc, False, None, any_layer=True)
                out["cases"] += 1
                if kind == "error" or (kind == "pass") != want:
                    if len(out["violations"]) < 3:
                        out["violations"].append(dict(case="layer-verdict", detail=f"'any layer' alias: real outcome {kind} ({msg}); documented semantics say {'pass' if want else 'fail'}",
                                                      input=dict(kind="c05", imports=[list(p) for p in imports], defs=[[n, list(d)] for n, d in defs], subject=subject, verb="should_not", access=acc, any_layer=True)))
    return out


def _merge(b, parts):
    for p in parts:
        b.cases += p["cases"]
        b.nontrivial += p["nontrivial"]
        for v in p["violations"]:
            b.violation(v["case"], v["detail"], v["input"])


def _c05_growing_architecture(seed):
    """Rules built from one LayeredArchitecture object before and after further layers (by names / by regex) are added to it."""
    from pytestarch import LayeredArchitecture, LayerRule
    rng = random.Random(seed)
    mods = LTREE
    cand = [(a, c) for a in mods for c in mods if a != c and "." in a and "." in c and not a.startswith(c + ".") and not c.startswith(a + ".")]
    imports = rng.sample(cand, rng.randint(1, 6))
    arch = build_arch(mods, imports)
    la = LayeredArchitecture().layer("A").containing_modules(["r.a"]).layer("B").containing_modules(["r.b"])
    defs = [("A", ("names", ["r.a"])), ("B", ("names", ["r.b"]))]
    out = []
    shapes = [(v, a, e) for v in ("should", "should_only", "should_not") for a in (True, False) for e in (False, True)]
    steps = [("C", ("regex", r"(r\.c)$")), ("D", ("names", ["r.d"])), ("E", ("regex", r"r\.e$"))]
    rng.shuffle(steps)
    for step in [None] + steps:
        if step is not None:
            name, (kind, val) = step
            la = la.layer(name)
            la = la.containing_modules(list(val)) if kind == "names" else la.have_modules_with_names_matching(val)
            defs.append(step)
        lay = layer_sets(mods, defs)
        names = [n for n, _ in defs]
        for _ in range(4):
            subject = rng.choice(names)
            objects = rng.sample([n for n in names if n != subject], rng.randint(1, min(2, len(names) - 1)))
            verb, acc, exc = rng.choice(shapes)
            kind_, msg = outcome(layer_rule(la, subject, verb, acc, exc, objects), arch)
            want = doc_layer_verdict(mods, imports, lay, subject, verb, acc, exc, objects)
            if kind_ == "error" or (kind_ == "pass") != want:
                out.append(dict(case="growing-architecture", detail=f"layers {names} (added one by one to ONE architecture object, rules built in between): {subject} {verb} access={acc} except={exc} {objects}: "
                                f"real {kind_} ({msg}); documented semantics say {'pass' if want else 'fail'}", input=dict(kind="c05-grow", seed=seed)))
                return out
    return out


def _c05_redundant_listing(seed):
    """A layer that lists a package AND some of its sub modules (a redundant but legal listing); other children of the package are not listed: they belong to
    the layer through the package, wherever their names sort relative to the listed siblings (seed C03o: a lookup that gave up at the first listed sibling)."""
    rng = random.Random(seed)
    mods = LTREE + ["r.a.y", "r.a.y.q", "r.a.m", "r.b.w", "r.b.a"]
    cand = [(a, c) for a in mods for c in mods if a != c and "." in a and "." in c and not a.startswith(c + ".") and not c.startswith(a + ".")]
    imports = rng.sample(cand, rng.randint(1, 7))
    arch = build_arch(mods, imports)
    listed_a = ["r.a"] + rng.sample(["r.a.x", "r.a.y", "r.a.m", "r.a.x.p"], rng.randint(1, 2))
    listed_b = ["r.b"] + rng.sample(["r.b.x", "r.b.w", "r.b.a"], rng.randint(0, 2))
    rng.shuffle(listed_a)
    rng.shuffle(listed_b)
    defs = [("A", ("names", listed_a)), ("B", ("names", listed_b)), ("C", ("names", ["r.c"]))]
    rng.shuffle(defs)
    lay = layer_sets(mods, defs)
    names = [n for n, _ in defs]
    out = []
    shapes = [(v, a, e) for v in ("should", "should_only", "should_not") for a in (True, False) for e in (False, True)]
    for subject in names:
        objects = rng.sample([n for n in names if n != subject], rng.randint(1, 2))
        for verb, acc, exc in shapes:
            kind_, msg = outcome(layer_rule(make_architecture(defs), subject, verb, acc, exc, objects), arch)
            want = doc_layer_verdict(mods, imports, lay, subject, verb, acc, exc, objects)
            if kind_ == "error" or (kind_ == "pass") != want:
                out.append(dict(case="redundant-listing", detail=f"layers {defs} (a package listed together with some of its sub modules), imports {imports}: {subject} {verb} access={acc} except={exc} {objects}: "
                                f"real {kind_} ({msg}); documented semantics say {'pass' if want else 'fail'}", input=dict(kind="c05-redundant", seed=seed)))
                return out
    return out


def bounded_layer_verdicts(tier, seed):
    b = Bounded("C05.layer-verdict-vs-documented-semantics", "12-module tree with prefix-named siblings (r.a / r.ab) and 3 levels; import relations: all with <=1 import + 60/4000 random (2-8 imports); per graph 3 (quick) / 6 "
                "random partitions of unrelated modules into 2-4 layers (name lists, regex, mixed; some modules in no layer; layers the rule does not mention) x 12 access shapes x 1-2 object layers + the two "
                "'any layer' aliases; 40/5000 growing architectures; 60/3000 architectures whose layers list a package together with some of its sub modules (x 3 subjects x 12 shapes)")
    rng = random.Random(seed)
    rels = import_relations(LTREE, rng, n_random=(60 if tier == "quick" else 4000), exhaustive_upto=1)
    rng.shuffle(rels)
    if tier == "quick":
        rels = rels[:110]
    size = max(1, len(rels) // 16)
    jobs = [(rels[i:i + size], rng.randrange(1 << 30), 3 if tier == "quick" else 6) for i in range(0, len(rels), size)]
    _merge(b, pmap(_c05_chunk, jobs))
    for res in pmap(_c05_growing_architecture, [seed * 1013 + i for i in range(40 if tier == "quick" else 5000)]):
        b.case()
        for v in res:
            b.violation(v["case"], v["detail"], v["input"])
    for res in pmap(_c05_redundant_listing, [seed * 7919 + i for i in range(60 if tier == "quick" else 3000)]):
        b.case()
        for v in res:
            b.violation(v["case"], v["detail"], v["input"])
    b.samples.append(dict(layers=[["L0", ["names", ["r.a"]]], ["L1", ["regex", r"(r\.b)$"]]], rule="L0 should_only access L1"))
    return b.result()


def rerun_c05(inp):
    if inp.get("kind") == "c05-grow":
        res = _c05_growing_architecture(inp["seed"])
        return (not res), ("; ".join(v["detail"] for v in res) or "verdicts follow the documented semantics at every stage")
    if inp.get("kind") == "c05-redundant":
        res = _c05_redundant_listing(inp["seed"])
        return (not res), ("; ".join(v["detail"] for v in res) or "verdicts follow the documented semantics for every subject and shape")
    mods = LTREE
    imports = [tuple(p) for p in inp["imports"]]
    defs = [(n, (d[0], d[1])) for n, d in inp["defs"]]
    arch = build_arch(mods, imports)
    lay = layer_sets(mods, defs)
    la = make_architecture(defs)
    if inp.get("any_layer"):
        kind, msg = outcome(layer_rule(la, inp["subject"], "should_not", inp["access"], False, None, any_layer=True), arch)
        want = doc_layer_verdict(mods, imports, lay, inp["subject"], "should_not", inp["access"], False, None, any_layer=True)
    else:
        kind, msg = outcome(layer_rule(la, inp["subject"], inp["verb"], inp["access"], inp["except_"], inp["objects"]), arch)
        want = doc_layer_verdict(mods, imports, lay, inp["subject"], inp["verb"], inp["access"], inp["except_"], inp["objects"])
    return kind != "error" and (kind == "pass") == want, f"real outcome: {kind} {msg!r}; documented layer semantics: {'pass' if want else 'fail'}"


# ---------------------------------------------------------------------------------------------- C17: plot labels
def expected_label(m, aliases):
    best = None
    for a in aliases:
        if m == a or m.startswith(a + "."):
            if best is None or len(a) > len(best):
                best = a
    return m if best is None else aliases[best] + m[len(best):]


def draw_call(arch, **kwargs):
    """kwargs received by the (intercepted) drawing backend."""
    with mock.patch("pytestarch.eval_structure.networkxgraph.draw_networkx") as d, \
            mock.patch("pytestarch.eval_structure.networkxgraph.spring_layout", return_value={"pos": 1}) as sl:
        arch.visualize(**kwargs)
        assert d.call_count == 1
        return d.call_args, sl.call_args


def _c17_case(seed):
    rng = random.Random(seed)
    mods = rng.choice([LTREE, TREES["nestedprefix"], TREES["deeper"], ["p", "p.a", "p.ab", "p.a.b", "p.a.b.c", "p.a.bc", "p+q", "p.a+"],
                      # an aliased module's name occurring again further right in a descendant's name (only the LEADING part is replaced by the alias)
                      ["core", "core.core_utils", "core.api", "core.api.core", "core.corex", "a", "a.a", "a.a.a", "a.a_b", "a.b.a.a"]])
    if rng.random() < 0.3:
        arch = build_arch(mods, [], level_limit=1)
    else:
        arch = build_arch([m for m in mods if rng.random() < 0.8 or "." not in m], [(a, b) for a, b in [tuple(rng.sample(mods, 2)) for _ in range(3)]])
    nodes = sorted(arch.modules)
    keys = rng.sample(nodes, rng.randint(0, min(4, len(nodes))))
    aliases = {k: rng.choice(["A", "X.Y", "al+", "(z)", "a.b", "", ".rel", "..up", "tail."]) + str(i) for i, k in enumerate(keys)}
    for k in keys:
        if rng.random() < 0.25:
            aliases[k] = k          # an identity alias is an alias like any other: it shields the module and its sub modules from an aliased ancestor (seed C17n)
    out = []
    inp = dict(kind="c17", seed=seed)
    extra = dict(node_size=7, font_size=3) if rng.random() < 0.5 else dict(arrows=True)
    spacing = rng.choice([None, 0.5])
    kw = dict(extra)
    if spacing is not None:
        kw["spacing"] = spacing
    try:
        (args, got), sl = draw_call(arch, aliases=dict(aliases), **kw)
    except Exception as e:
        return [dict(case="labels", detail=f"visualize raised {type(e).__name__}: {e} for existing aliased modules {aliases}", input=inp)]
    labels = got.get("labels")
    want = {m: expected_label(m, aliases) for m in nodes}
    if labels != want:
        diff = {m: (labels.get(m) if labels else None, want[m]) for m in nodes if not labels or labels.get(m) != want[m]}
        out.append(dict(case="labels", detail=f"aliases {aliases}: labels differ (got, expected): {dict(list(diff.items())[:4])}; extra keys {sorted(set(labels or {}) - set(nodes))[:3]}", input=inp))
    rest = {k: v for k, v in got.items() if k not in ("labels", "pos")}
    if rest != extra or ("pos" in got) != (spacing is not None) or "spacing" in got or "aliases" in got:
        out.append(dict(case="kwargs", detail=f"drawing options not passed through unchanged: backend received {sorted(got)} for options {sorted(kw)} + aliases", input=inp))
    # a second call on the same architecture object: same aliased modules, different alias strings
    if aliases:
        aliases2 = {k: "Z" + v[::-1] for k, v in aliases.items()}
        try:
            (args2, got2), _ = draw_call(arch, aliases=dict(aliases2), **kw)
            want2 = {m: expected_label(m, aliases2) for m in nodes}
            if got2.get("labels") != want2:
                out.append(dict(case="labels-second-call", detail=f"second visualize() on the same architecture with aliases {aliases2}: labels {dict(list((got2.get('labels') or {}).items())[:4])}, expected {dict(list(want2.items())[:4])}", input=inp))
        except Exception as e:
            out.append(dict(case="labels-second-call", detail=f"second visualize() raised {type(e).__name__}: {e}", input=inp))
    # alias for a module that does not exist -> error naming it (a module flattened away by level_limit does not exist either)
    ghost = rng.choice(["p.zz", "r.a.zz", "r.aa", "zz", "r.a.x.p", "r.a.x", "p.a.b.c", "r.b.x.p"])
    if ghost not in nodes:
        try:
            draw_call(arch, aliases={**aliases, ghost: rng.choice(["G", ghost])})
            out.append(dict(case="missing-alias-target", detail=f"alias for non-existent module {ghost!r} was accepted", input=inp))
        except KeyError as e:
            if ghost not in str(e):
                out.append(dict(case="missing-alias-target", detail=f"error does not name the module: {e}", input=inp))
        except Exception as e:
            out.append(dict(case="missing-alias-target", detail=f"alias for non-existent module raised {type(e).__name__}", input=inp))
    return out


def bounded_labels(tier, seed):
    b = Bounded("C17.plot-labels-at-the-drawing-backend", "5 module trees (nested, prefix-named siblings, names with regex metacharacters, names repeated inside descendants' names), random subsets of modules / level_limit=1; alias maps over 0-4 existing "
                "modules with alias strings containing dots and regex metacharacters; with and without spacing and extra drawing options; observed at the intercepted draw_networkx call; 2500/150000 cases")
    for res in pmap(_c17_case, [seed * 100003 + i for i in range(2500 if tier == "quick" else 150000)]):
        b.case()
        for v in res:
            b.violation(v["case"], v["detail"], v["input"])
    b.samples.append(dict(aliases={"p.a": "A"}, module="p.ab", expected_label="p.ab"))
    return b.result()


def rerun_c17(inp):
    res = _c17_case(inp["seed"])
    return (not res), ("; ".join(v["detail"] for v in res) or "labels and pass-through as specified")


# ---------------------------------------------------------------------------------------------- C14: layer attribution and labels under renaming
def _c14l_case(seed):
    from .invariance import RHO_FREE, RHO_ADV, RHO_ADV2, rename, unrename_text
    rho_extra = {"z": "z", "e": "e"}
    rng = random.Random(seed)
    mods = LTREE + ["r.a.y", "r.a.y.q", "r.b.w"]      # (two children under listed packages: the lookup walks over listed siblings)
    cand = [(a, c) for a in mods for c in mods if a != c and "." in a and "." in c and not a.startswith(c + ".") and not c.startswith(a + ".")]
    imports = rng.sample(cand, rng.randint(1, 6))
    defs = [d for d in random_layers(rng, mods) if d[1][0] == "names"]
    if len(defs) < 2:
        return []
    if rng.random() < 0.6:
        # a layer may also list a module that already belongs to it through a listed ancestor: membership is unchanged
        i = rng.randrange(len(defs))
        below = sorted(m for m in mods for x in defs[i][1][1] if m.startswith(x + "."))
        if below:
            defs[i] = (defs[i][0], ("names", defs[i][1][1] + [rng.choice(below)]))
    subject, obj = defs[0][0], defs[1][0]
    verb, acc, exc = rng.choice([(v, a, e) for v in ("should", "should_only", "should_not") for a in (True, False) for e in (False, True)])
    if seed < 0:
        # deterministic family: a layer lists a package P and one child P.s; the import leaves from ANOTHER child P.t (or below it), which belongs to the layer through P.
        # The lookup walks a sorted name list, so every relative order of s and t must give the same answer (the namings below produce both orders).
        k = -seed - 1
        P, s_, t_, far = [("r.a", "r.a.x", "r.a.y.q", "r.c.z"), ("r.a", "r.a.y", "r.a.x.p", "r.c"), ("r.b", "r.b.x", "r.b.w", "r.c.z"), ("r.b", "r.b.w", "r.b.x", "r.d"),
                          ("r.a", "r.a.x", "r.a.y", "r.G.k"), ("r.G", "r.G.k", "r.G", "r.c")][k // 4 % 6]
        defs = [("L0", ("names", [P, s_])), ("L1", ("names", [far.rsplit(".", 1)[0] if far.count(".") > 1 else far]))]
        imports = [(t_, far)] if k % 2 == 0 else [(far, t_)]
        subject, obj = "L0", "L1"
        verb, acc, exc = [("should_not", True, False), ("should", True, False), ("should_not", False, False), ("should_only", True, True)][k % 4] if k % 2 == 0 else \
                         [("should_not", False, False), ("should", False, False), ("should_not", True, False), ("should_only", False, True)][k % 4]
    res = {}
    # (the fourth naming reverses the alphabetical order of the components: sorted name lists come out in the opposite order)
    RHO_REV = {"r": "r", "a": "y", "b": "x", "c": "w", "d": "v", "x": "c", "y": "b", "p": "a", "xy": "bb", "ab": "yy", "bc": "xx"}
    # (the fifth naming mixes upper and lower case: code-point order and case-insensitive order of the names differ)
    RHO_CASE = {"r": "r", "a": "Alpha", "b": "beta", "c": "Gamma", "d": "delta", "x": "Xi", "y": "ypsilon", "p": "Pi", "xy": "chi", "ab": "Omega", "bc": "kappa"}
    res_names = ("free", "adv", "adv2", "rev", "case")
    for nm, rho0 in (("free", RHO_FREE), ("adv", RHO_ADV), ("adv2", RHO_ADV2), ("rev", RHO_REV), ("case", RHO_CASE)):
        rho = {**rho0, "z": rho0.get("p", "z") + "z", "e": rho0.get("d", "e") + "e", "q": rho0.get("x", "q") + "q", "w": rho0.get("y", "w") + "w", "G": "G" + rho0.get("a", "a"), "k": "k" + rho0.get("b", "b")}
        R = lambda m: rename(m, rho)
        arch = build_arch([R(m) for m in mods], [(R(a), R(c)) for a, c in imports])
        la = make_architecture([(n, ("names", [R(x) for x in v])) for n, (k, v) in defs])
        kind, msg = outcome(layer_rule(la, subject, verb, acc, exc, [obj]), arch)
        res[nm] = (kind, sorted(unrename_text(msg, rho, mods).split("\n")) if kind == "fail" else msg)
        # labels: the whole label is compared, its un-aliased rest translated back component by component (alias on a layer module, and on the root)
        inv = {R(m): m for m in mods}
        def shape(k, v):
            # renaming-independent description of a label: the module's own name, or the alias followed by the module's last n components
            if v == k:
                return "name"
            comps = k.split(".")
            for n in range(len(comps)):
                if v == "AL" + "".join("." + c for c in comps[len(comps) - n:]):
                    return f"alias+last{n}"
            return "other:" + v
        for aliases in ({R(defs[0][1][1][0]): "AL"}, {R("r"): "AL"}):
            try:
                (args, got), _ = draw_call(arch, aliases=aliases)
                res[nm] += (sorted((inv[k], shape(k, v)) for k, v in got["labels"].items()),)
            except Exception as e:
                res[nm] += (type(e).__name__,)
    if not (res["free"] == res["adv"] == res["adv2"] == res["rev"] == res["case"]):
        return [dict(case="renaming-layers-labels", detail=f"layer verdict / message (with layer tags) / labels differ under injective renamings: {res}", input=dict(kind="c14l", seed=seed))]
    return []


def bounded_layer_label_renaming(tier, seed):
    b = Bounded("C14.layer-attribution-and-labels-under-renaming", "12-module tree, 1-6 imports, random name-defined layers, one random layer-rule shape and one alias map; compared under one collision-free and two "
                "adversarial injective component renamings; 600 (quick) / 40000 cases")
    for res in pmap(_c14l_case, list(range(-24, 0)) + [seed * 100003 + i for i in range(600 if tier == "quick" else 40000)]):
        b.case()
        for v in res:
            b.violation(v["case"], v["detail"], v["input"])
    return b.result()


def rerun_c14l(inp):
    res = _c14l_case(inp["seed"])
    return (not res), ("; ".join(v["detail"] for v in res) or "invariant under the renamings")
