#!/bin/sh
# Offline build of the verification venv (python 3.12 = the interpreter the test suite uses).
set -e
cd "$(dirname "$0")"
if [ ! -x .venv/bin/python ] || ! .venv/bin/python -c "import z3, cvc5, jsonschema, networkx" 2>/dev/null; then
  rm -rf .venv
  /venv/bin/python -m venv .venv
  PIP_NO_INDEX=1 .venv/bin/pip install -q --no-index --find-links /opt/veriftools/wheels z3-solver cvc5 jsonschema
  # the repository's own third-party deps (networkx, matplotlib) come from /venv, read-only
  echo "import site; site.addsitedir('/venv/lib/python3.12/site-packages')" > .venv/lib/python3.12/site-packages/_repo_venv.pth
fi
.venv/bin/python -c "import z3, cvc5, jsonschema, networkx; print('verif venv ok: z3', z3.get_version_string())"
