"""Contracts: graph interface (assumed), module filters, eval_structure/utils.py, breadth_first_searches.py."""
from .speclib import REG, Contract

M_ES = "pytestarch.eval_structure.evaluable_structures"
M_EA = "pytestarch.eval_structure.evaluable_architecture"
M_UT = "pytestarch.eval_structure.utils"
M_BFS = "pytestarch.eval_structure.breadth_first_searches"

# ---------------------------------------------------------------- AbstractGraph: interface contracts
# Assumed for the networkx-backed implementation (NetworkxGraph's accessors are thin wrappers over DiGraph,
# see c_networkx.py); everything that *uses* a graph is verified against exactly these.
REG.add(Contract(
    "AbstractGraph.direct_successor_nodes", module=M_ES, status="assumed", kind="method",
    params=dict(self="Graph", node="Node"), returns="Bag[Node]",
    raises=[("NetworkXError", "not node(self, node)")],
    ensures=["forall(Node, lambda c: (c in result) == edge(self, node, c))"],
    note="networkx DiGraph.successors raises NetworkXError for an unknown node"))
REG.add(Contract(
    "AbstractGraph.direct_predecessor_nodes", module=M_ES, status="assumed", kind="method",
    params=dict(self="Graph", node="Node"), returns="Bag[Node]",
    raises=[("NetworkXError", "not node(self, node)")],
    ensures=["forall(Node, lambda p: (p in result) == edge(self, p, node))"]))
REG.add(Contract(
    "AbstractGraph.parent_child_relationship", module=M_ES, status="assumed", kind="method",
    params=dict(self="Graph", parent="Node", child="Node"), returns="Bool",
    raises=[("TypeError", "not edge(self, parent, child)")],
    defn="inh(self, parent, child)",
    note="get_edge_data returns None for a missing edge, None['inherits'] is a TypeError"))
REG.add(Contract(
    "AbstractGraph.nodes", module=M_ES, status="assumed", kind="property",
    params=dict(self="Graph"), returns="Bag[Node]",
    ensures=["forall(Node, lambda n: (n in result) == node(self, n))"]))

# ---------------------------------------------------------------- ModuleFilter family (frozen dataclasses)
for cls, guard, field in (("ModuleNameFilter", "is_name(self)", "name"),
                          ("ParentModuleNameFilter", "is_parent(self)", "parent_module"),
                          ("ModuleNameRegexFilter", "is_regex(self)", "name")):
    REG.add(Contract(f"{cls}.identifier", module=M_EA, kind="property", params=dict(self="Filter"), returns="Node",
                     requires=[guard], ensures=["result == fid(self)"], impl_of="ModuleFilter.identifier",
                     properties=["C01", "C03", "C14"]))
    REG.add(Contract(f"{cls}.identifier_is_regex", module=M_EA, kind="property", params=dict(self="Filter"),
                     returns="Bool", requires=[guard], ensures=["result == is_regex(self)"],
                     impl_of="ModuleFilter.identifier_is_regex", properties=["C01", "C11"]))
    REG.add(Contract(f"{cls}.identifier_is_parent_module", module=M_EA, kind="property", params=dict(self="Filter"),
                     returns="Bool", requires=[guard], ensures=["result == is_parent(self)"],
                     impl_of="ModuleFilter.identifier_is_parent_module", properties=["C01", "C03"]))
    # dataclass field access: the generated field of this class is the datatype's fid
    REG.add(Contract(f"{cls}.{field}", module=M_EA, kind="property", status="assumed", params=dict(self="Filter"),
                     returns="Node", defn="fid(self)", note="dataclass field"))

REG.add(Contract("ModuleFilter.identifier", module=M_EA, kind="property", status="abstract",
                 params=dict(self="Filter"), returns="Node", defn="fid(self)"))
REG.add(Contract("ModuleFilter.identifier_is_regex", module=M_EA, kind="property", status="abstract",
                 params=dict(self="Filter"), returns="Bool", defn="is_regex(self)"))
REG.add(Contract("ModuleFilter.identifier_is_parent_module", module=M_EA, kind="property", status="abstract",
                 params=dict(self="Filter"), returns="Bool", defn="is_parent(self)"))

REG.add(Contract("Module.identifier", module=M_EA, kind="property", status="assumed", params=dict(self="Mod"),
                 returns="Node", defn="mid(self)", note="dataclass field"))
REG.add(Contract("Module.is_single_module", module=M_EA, kind="property", status="abstract", params=dict(self="Mod"),
                 returns="Bool", defn="not is_group(self)"))

# ---------------------------------------------------------------- eval_structure/utils.py
REG.add(Contract("get_node", module=M_UT, params=dict(module_filter="Filter"), returns="Node",
                 defn="fid(module_filter)", properties=["C01", "C03"]))
REG.add(Contract("filter_to_module", module=M_UT, params=dict(filter="Filter"), returns="Mod",
                 defn="mk_mod(is_parent(filter), fid(filter))", properties=["C01", "C03"]))
REG.add(Contract("to_modules", module=M_UT, params=dict(nodes="List"), inline=True, properties=["C01", "C03"]))
REG.add(Contract("get_parent_nodes", module=M_UT, params=dict(module_filters="List"), inline=True,
                 properties=["C01", "C03"]))

# ---------------------------------------------------------------- breadth_first_searches.py
REG.add(Contract(
    "get_all_submodules_of", module=M_BFS, params=dict(graph="Graph", module="Filter"), returns="Set[Node]",
    requires=["WF(graph)"],
    raises=[("NetworkXError", "not node(graph, fid(module))")],
    ensures=["forall(Node, lambda n: (n in result) == desc(graph, fid(module), n))"],
    locals=dict(nodes_to_check="Bag[Node]", checked_nodes="Set[Node]", submodules="Set[Node]"),
    loops={
        0: dict(sig="while nodes_to_check", invariant=[
            "forall(Node, lambda n: implies(n in nodes_to_check, desc(graph, start_node, n)))",
            "forall(Node, lambda n: implies(n in checked_nodes, desc(graph, start_node, n)))",
            "forall(Node, lambda n: (n in checked_nodes) == (n in submodules))",
            "forall(Node, Node, lambda a, b: implies((a in checked_nodes) and inh(graph, a, b), (b in checked_nodes) or (b in nodes_to_check)))",
            "(start_node in checked_nodes) or (start_node in nodes_to_check)",
            "forall(Node, lambda n: implies((n in checked_nodes) or ((n in nodes_to_check) and n != start_node), node(graph, n)))",
        ], use_at_exit=["leastness(graph, start_node, checked_nodes)"]),
        1: dict(sig="for child in children", invariant=[
            "forall(Node, lambda n: (n in nodes_to_check) == ((n in pre(nodes_to_check)) or ((n in seen) and inh(graph, node, n))))",
        ]),
    },
    properties=["C01", "C03", "C04", "C11", "C13", "C14"]))

# in_P: identifiers of those of the two filters that are "sub modules of" filters
REG.macro("in_P2", ["f1", "f2", "n"], "(is_parent(f1) and n == fid(f1)) or (is_parent(f2) and n == fid(f2))")
REG.macro("plain_dep", ["d"], "(not is_group(d[0])) and (not is_group(d[1]))")
REG.macro("dep_of", ["n", "c"], "(mk_mod(False, n), mk_mod(False, c))")

REG.add(Contract(
    "get_dependency_between_modules", module=M_BFS,
    params=dict(graph="Graph", dependent="Filter", dependent_upon="Filter"), returns="Bag[Dep]",
    requires=["WF(graph)"],
    raises=[("NetworkXError", "(not node(graph, fid(dependent))) or (not node(graph, fid(dependent_upon)))")],
    ensures=[
        "forall(Node, Node, lambda n, c: (dep_of(n, c) in result) == (desc(graph, fid(dependent), n) and imp(graph, n, c) and desc(graph, fid(dependent_upon), c) and (not in_P2(dependent, dependent_upon, n)) and (not in_P2(dependent, dependent_upon, c))))",
        "forall(Dep, lambda d: implies(d in result, plain_dep(d)))",
        "forall(Dep, lambda d: (d in result) == deps_rel_d(graph, dependent, dependent_upon, d))",
    ],
    locals=dict(nodes_to_check="Bag[Node]", checked_nodes="Set[Node]", dependencies="Bag[Dep]", nodes_to_exclude="Bag[Node]"),
    loops={
        0: dict(sig="while nodes_to_check", invariant=[
            "forall(Node, lambda n: implies(n in nodes_to_check, desc(graph, dependent_node, n)))",
            "forall(Node, lambda n: implies(n in checked_nodes, desc(graph, dependent_node, n)))",
            "forall(Node, Node, lambda a, b: implies((a in checked_nodes) and inh(graph, a, b), (b in checked_nodes) or (b in nodes_to_check)))",
            "(dependent_node in checked_nodes) or (dependent_node in nodes_to_check)",
            "forall(Node, lambda n: implies((n in checked_nodes) or ((n in nodes_to_check) and n != dependent_node), node(graph, n)))",
            "forall(Node, Node, lambda n, c: (dep_of(n, c) in dependencies) == ((n in checked_nodes) and imp(graph, n, c) and (c in dependent_upon_nodes) and (n not in nodes_to_exclude) and (c not in nodes_to_exclude)))",
            "forall(Dep, lambda d: implies(d in dependencies, plain_dep(d)))",
        ], use_at_exit=["leastness(graph, dependent_node, checked_nodes)"]),
        1: dict(sig="for child in children", invariant=[
            "forall(Node, lambda n: (n in nodes_to_check) == ((n in pre(nodes_to_check)) or ((n in seen) and inh(graph, node, n))))",
            "forall(Node, Node, lambda n, c: (dep_of(n, c) in dependencies) == ((dep_of(n, c) in pre(dependencies)) or (n == node and (c in seen) and imp(graph, node, c) and (c in dependent_upon_nodes) and (node not in nodes_to_exclude) and (c not in nodes_to_exclude))))",
            "forall(Dep, lambda d: implies(d in dependencies, plain_dep(d)))",
        ]),
    },
    properties=["C01", "C03", "C11", "C12", "C13", "C14", "C15"]))

# E: nodes excluded by any_dependency_to_module_other_than
REG.macro("E_other", ["g", "s", "O", "n"],
          "((exists(Filter, lambda o: (o in O) and o != s and desc(g, fid(o), n))) or (is_parent(s) and n == fid(s))) "
          "and not exists(Filter, lambda o: (o in O) and is_parent(o) and n == fid(o))")

REG.add(Contract(
    "any_dependency_to_module_other_than", module=M_BFS,
    params=dict(graph="Graph", dependent="Filter", dependent_upons="Set[Filter]"), returns="Bag[Dep]",
    requires=["WF(graph)"],
    raises=[("NetworkXError", "(not node(graph, fid(dependent))) or exists(Filter, lambda o: (o in dependent_upons) and o != dependent and not node(graph, fid(o)))")],
    ensures=[
        "forall(Node, Node, lambda n, c: (dep_of(n, c) in result) == (desc(graph, fid(dependent), n) and (not E_other(graph, dependent, dependent_upons, n)) and imp(graph, n, c) and (not E_other(graph, dependent, dependent_upons, c)) and not desc(graph, fid(dependent), c)))",
        "forall(Dep, lambda d: implies(d in result, plain_dep(d)))",
        "forall(Dep, lambda d: (d in result) == other_rel_d(graph, dependent, dependent_upons, d))",
    ],
    locals=dict(nodes_to_exclude="Set[Node]", nodes_fulfilling_criteria="Bag[Dep]", nodes_to_check="Bag[Node]",
                checked_nodes="Set[Node]"),
    loops={
        0: dict(sig="for dependent_upon in dependent_upons", invariant=[
            "forall(Node, lambda n: (n in nodes_to_exclude) == exists(Filter, lambda o: (o in seen) and o != dependent and desc(graph, fid(o), n)))",
            "forall(Filter, lambda o: implies((o in seen) and o != dependent, node(graph, fid(o))))",
        ]),
        1: dict(sig="for dependent_upon in dependent_upons", invariant=[
            "forall(Node, lambda n: (n in nodes_to_exclude) == ((n in pre(nodes_to_exclude)) and not exists(Filter, lambda o: (o in seen) and is_parent(o) and n == fid(o))))",
        ]),
        2: dict(sig="while nodes_to_check", invariant=[
            "forall(Node, lambda n: implies(n in nodes_to_check, (n in nodes_that_do_not_fulfill_criterion) or (n in nodes_to_exclude)))",
            "forall(Node, lambda n: implies(n in checked_nodes, (n in nodes_that_do_not_fulfill_criterion) and (n not in nodes_to_exclude)))",
            "forall(Node, lambda n: implies(n in nodes_that_do_not_fulfill_criterion, (n in checked_nodes) or (n in nodes_to_check) or (n in nodes_to_exclude)))",
            "forall(Node, lambda n: implies((n in nodes_to_check) or (n in checked_nodes), node(graph, n)))",
            "forall(Node, Node, lambda n, c: (dep_of(n, c) in nodes_fulfilling_criteria) == ((n in checked_nodes) and imp(graph, n, c) and (c not in nodes_to_exclude) and (c not in nodes_that_do_not_fulfill_criterion)))",
            "forall(Dep, lambda d: implies(d in nodes_fulfilling_criteria, plain_dep(d)))",
        ]),
        3: dict(sig="for child in children", invariant=[
            "forall(Node, lambda n: implies(n in nodes_to_check, (n in pre(nodes_to_check)) or ((n in seen) and imp(graph, node, n) and ((n in nodes_to_exclude) or (n in nodes_that_do_not_fulfill_criterion)))))",
            "forall(Node, lambda n: implies(n in pre(nodes_to_check), n in nodes_to_check))",
            "forall(Node, Node, lambda n, c: (dep_of(n, c) in nodes_fulfilling_criteria) == ((dep_of(n, c) in pre(nodes_fulfilling_criteria)) or (n == node and (c in seen) and imp(graph, node, c) and (c not in nodes_to_exclude) and (c not in nodes_that_do_not_fulfill_criterion))))",
            "forall(Dep, lambda d: implies(d in nodes_fulfilling_criteria, plain_dep(d)))",
        ]),
    },
    properties=["C01", "C03", "C12", "C13", "C14", "C15"]))

REG.macro("E_rev", ["g", "S", "o", "n"],
          "(exists(Filter, lambda s: (s in S) and s != o and desc(g, fid(s), n))) "
          "and not exists(Filter, lambda s: (s in S) and is_parent(s) and n == fid(s))")
REG.macro("N_rev", ["g", "o", "n"], "desc(g, fid(o), n) and not (is_parent(o) and n == fid(o))")

REG.add(Contract(
    "any_other_dependency_to_module_than", module=M_BFS,
    params=dict(graph="Graph", dependents="Set[Filter]", dependent_upon="Filter"), returns="Bag[Dep]",
    requires=["WF(graph)"],
    raises=[("NetworkXError", "(not node(graph, fid(dependent_upon))) or exists(Filter, lambda s: (s in dependents) and s != dependent_upon and not node(graph, fid(s)))")],
    ensures=[
        # property C03: every reported pair has its importee inside the dependent-upon module's own set
        "forall(Node, Node, lambda p, n: (dep_of(p, n) in result) == (N_rev(graph, dependent_upon, n) and imp(graph, p, n) and (not E_rev(graph, dependents, dependent_upon, p)) and not N_rev(graph, dependent_upon, p)))",
        "forall(Dep, lambda d: implies(d in result, plain_dep(d)))",
        "forall(Dep, lambda d: (d in result) == other_rev_rel_d(graph, dependents, dependent_upon, d))",
    ],
    locals=dict(nodes_to_exclude="Set[Node]", nodes_fulfilling_criteria="Bag[Dep]", nodes_to_check="Bag[Node]",
                checked_nodes="Set[Node]"),
    loops={
        0: dict(sig="for dependent in dependents", invariant=[
            "forall(Node, lambda n: (n in nodes_to_exclude) == exists(Filter, lambda s: (s in seen) and s != dependent_upon and desc(graph, fid(s), n)))",
            "forall(Filter, lambda s: implies((s in seen) and s != dependent_upon, node(graph, fid(s))))",
        ]),
        1: dict(sig="for dependent in dependents", invariant=[
            "forall(Node, lambda n: (n in nodes_to_exclude) == ((n in pre(nodes_to_exclude)) and not exists(Filter, lambda s: (s in seen) and is_parent(s) and n == fid(s))))",
        ]),
        2: dict(sig="while nodes_to_check", invariant=[
            "forall(Node, lambda n: implies(n in nodes_to_check, n in nodes_that_count_as_not_fulfilling_criterion))",
            "forall(Node, lambda n: implies(n in checked_nodes, n in nodes_that_count_as_not_fulfilling_criterion))",
            "forall(Node, lambda n: implies(n in nodes_that_count_as_not_fulfilling_criterion, (n in checked_nodes) or (n in nodes_to_check)))",
            "forall(Node, Node, lambda p, n: (dep_of(p, n) in nodes_fulfilling_criteria) == ((n in checked_nodes) and imp(graph, p, n) and (p not in nodes_to_exclude) and (p not in nodes_that_count_as_not_fulfilling_criterion)))",
            "forall(Dep, lambda d: implies(d in nodes_fulfilling_criteria, plain_dep(d)))",
        ]),
        3: dict(sig="for parent in parents", invariant=[
            "forall(Node, lambda n: implies(n in nodes_to_check, n in nodes_that_count_as_not_fulfilling_criterion))",
            "forall(Node, lambda n: implies(n in pre(nodes_to_check), n in nodes_to_check))",
            "forall(Node, Node, lambda p, n: (dep_of(p, n) in nodes_fulfilling_criteria) == ((dep_of(p, n) in pre(nodes_fulfilling_criteria)) or (n == node and (p in seen) and imp(graph, p, node) and (p not in nodes_to_exclude) and (p not in nodes_that_count_as_not_fulfilling_criterion))))",
            "forall(Dep, lambda d: implies(d in nodes_fulfilling_criteria, plain_dep(d)))",
        ]),
    },
    properties=["C01", "C03", "C12", "C13", "C14", "C15"]))

# the three searches as relations over result elements d = (Module(importer), Module(importee))
REG.macro("deps_rel", ["g", "s", "o", "n", "c"],
          "desc(g, fid(s), n) and imp(g, n, c) and desc(g, fid(o), c) and (not in_P2(s, o, n)) and (not in_P2(s, o, c))")
REG.macro("other_rel", ["g", "s", "O", "n", "c"],
          "desc(g, fid(s), n) and (not E_other(g, s, O, n)) and imp(g, n, c) and (not E_other(g, s, O, c)) and not desc(g, fid(s), c)")
REG.macro("other_rev_rel", ["g", "S", "o", "p", "n"],
          "N_rev(g, o, n) and imp(g, p, n) and (not E_rev(g, S, o, p)) and not N_rev(g, o, p)")
REG.macro("deps_rel_d", ["g", "s", "o", "d"], "plain_dep(d) and deps_rel(g, s, o, mid(d[0]), mid(d[1]))")
REG.macro("other_rel_d", ["g", "s", "O", "d"], "plain_dep(d) and other_rel(g, s, O, mid(d[0]), mid(d[1]))")
REG.macro("other_rev_rel_d", ["g", "S", "o", "d"], "plain_dep(d) and other_rev_rel(g, S, o, mid(d[0]), mid(d[1]))")
