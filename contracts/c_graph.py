"""Contracts: graph interface (assumed), module filters, eval_structure/utils.py, breadth_first_searches.py."""
from .speclib import REG, Contract

M_ES = "pytestarch.eval_structure.evaluable_structures"
M_EA = "pytestarch.eval_structure.evaluable_architecture"
M_UT = "pytestarch.eval_structure.utils"
M_BFS = "pytestarch.eval_structure.breadth_first_searches"

# ---------------------------------------------------------------- AbstractGraph: interface contracts
# Assumed for the networkx-backed implementation (NetworkxGraph's accessors are thin wrappers over DiGraph,
# see c_networkx.py); everything that *uses* a graph is verified against exactly these.
REG.add(Contract(
    "AbstractGraph.direct_successor_nodes", module=M_ES, status="assumed", kind="method",
    params=dict(self="Graph", node="Node"), returns="Bag[Node]",
    raises=[("NetworkXError", "not node(self, node)")],
    ensures=["forall(Node, lambda c: (c in result) == edge(self, node, c))"],
    note="networkx DiGraph.successors raises NetworkXError for an unknown node"))
REG.add(Contract(
    "AbstractGraph.direct_predecessor_nodes", module=M_ES, status="assumed", kind="method",
    params=dict(self="Graph", node="Node"), returns="Bag[Node]",
    raises=[("NetworkXError", "not node(self, node)")],
    ensures=["forall(Node, lambda p: (p in result) == edge(self, p, node))"]))
REG.add(Contract(
    "AbstractGraph.parent_child_relationship", module=M_ES, status="assumed", kind="method",
    params=dict(self="Graph", parent="Node", child="Node"), returns="Bool",
    raises=[("TypeError", "not edge(self, parent, child)")],
    defn="inh(self, parent, child)",
    note="get_edge_data returns None for a missing edge, None['inherits'] is a TypeError"))
REG.add(Contract(
    "AbstractGraph.nodes", module=M_ES, status="assumed", kind="property",
    params=dict(self="Graph"), returns="Bag[Node]",
    ensures=["forall(Node, lambda n: (n in result) == node(self, n))"]))

# ---------------------------------------------------------------- ModuleFilter family (frozen dataclasses)
for cls, guard, field in (("ModuleNameFilter", "is_name(self)", "name"),
                          ("ParentModuleNameFilter", "is_parent(self)", "parent_module"),
                          ("ModuleNameRegexFilter", "is_regex(self)", "name")):
    REG.add(Contract(f"{cls}.identifier", module=M_EA, kind="property", params=dict(self="Filter"), returns="Node",
                     requires=[guard], ensures=["result == fid(self)"], impl_of="ModuleFilter.identifier",
                     properties=["C01", "C03", "C14"]))
    REG.add(Contract(f"{cls}.identifier_is_regex", module=M_EA, kind="property", params=dict(self="Filter"),
                     returns="Bool", requires=[guard], ensures=["result == is_regex(self)"],
                     impl_of="ModuleFilter.identifier_is_regex", properties=["C01", "C11"]))
    REG.add(Contract(f"{cls}.identifier_is_parent_module", module=M_EA, kind="property", params=dict(self="Filter"),
                     returns="Bool", requires=[guard], ensures=["result == is_parent(self)"],
                     impl_of="ModuleFilter.identifier_is_parent_module", properties=["C01", "C03"]))
    # dataclass field access: the generated field of this class is the datatype's fid
    REG.add(Contract(f"{cls}.{field}", module=M_EA, kind="property", status="assumed", params=dict(self="Filter"),
                     returns="Node", defn="fid(self)", note="dataclass field"))

REG.add(Contract("ModuleFilter.identifier", module=M_EA, kind="property", status="abstract",
                 params=dict(self="Filter"), returns="Node", defn="fid(self)"))
REG.add(Contract("ModuleFilter.identifier_is_regex", module=M_EA, kind="property", status="abstract",
                 params=dict(self="Filter"), returns="Bool", defn="is_regex(self)"))
REG.add(Contract("ModuleFilter.identifier_is_parent_module", module=M_EA, kind="property", status="abstract",
                 params=dict(self="Filter"), returns="Bool", defn="is_parent(self)"))

REG.add(Contract("Module.identifier", module=M_EA, kind="property", status="assumed", params=dict(self="Mod"),
                 returns="Node", defn="mid(self)", note="dataclass field"))
REG.add(Contract("Module.is_single_module", module=M_EA, kind="property", status="abstract", params=dict(self="Mod"),
                 returns="Bool", defn="not is_group(self)"))

# ---------------------------------------------------------------- eval_structure/utils.py
REG.add(Contract("get_node", module=M_UT, params=dict(module_filter="Filter"), returns="Node",
                 defn="fid(module_filter)", properties=["C01", "C03"]))
REG.add(Contract("filter_to_module", module=M_UT, params=dict(filter="Filter"), returns="Mod",
                 defn="mk_mod(is_parent(filter), fid(filter))", properties=["C01", "C03"]))
REG.add(Contract("to_modules", module=M_UT, params=dict(nodes="List"), inline=True, properties=["C01", "C03"]))
REG.add(Contract("get_parent_nodes", module=M_UT, params=dict(module_filters="List"), inline=True,
                 properties=["C01", "C03"]))

# ---------------------------------------------------------------- breadth_first_searches.py
REG.add(Contract(
    "get_all_submodules_of", module=M_BFS, params=dict(graph="Graph", module="Filter"), returns="Set[Node]",
    requires=["WF(graph)"],
    raises=[("NetworkXError", "not node(graph, fid(module))")],
    ensures=["forall(Node, lambda n: (n in result) == desc(graph, fid(module), n))"],
    locals=dict(nodes_to_check="Bag[Node]", checked_nodes="Set[Node]", submodules="Set[Node]"),
    loops={
        0: dict(sig="while nodes_to_check", invariant=[
            "forall(Node, lambda n: implies(n in nodes_to_check, desc(graph, start_node, n)))",
            "forall(Node, lambda n: implies(n in checked_nodes, desc(graph, start_node, n)))",
            "forall(Node, lambda n: (n in checked_nodes) == (n in submodules))",
            "forall(Node, Node, lambda a, b: implies((a in checked_nodes) and inh(graph, a, b), (b in checked_nodes) or (b in nodes_to_check)))",
            "(start_node in checked_nodes) or (start_node in nodes_to_check)",
            "forall(Node, lambda n: implies((n in checked_nodes) or ((n in nodes_to_check) and n != start_node), node(graph, n)))",
        ], use_at_exit=["leastness(graph, start_node, checked_nodes)"]),
        1: dict(sig="for child in children", invariant=[
            "forall(Node, lambda n: (n in nodes_to_check) == ((n in pre(nodes_to_check)) or ((n in seen) and inh(graph, node, n))))",
        ]),
    },
    properties=["C01", "C03", "C04", "C11", "C13", "C14"]))
