"""Shared specification vocabulary: sorts, graph model, filters, trusted axiom schemas.

Everything declared here is part of the trusted specification base; each schema carries its justification."""
from __future__ import annotations

import z3

from pyvc import vals
from pyvc.vals import V, vbool, vint, vstr, fresh, to_term, sort_of, parse_type, fresh_name, Node, Graph
from pyvc.registry import Registry, Contract
from pyvc.state import OutOfSubset

REG = Registry()
NODE_T = parse_type("Node")   # ('node',) in the default view, ('str',) in the string view

# ---------------------------------------------------------------- datatypes mirroring the repo's frozen dataclasses
FilterKind = vals.declare_enum("FilterKind", ["NAME", "PARENT", "REGEX"])
vals.declare_data("Filter", [("kind", ("data", "FilterKind")), ("fid", NODE_T)])
vals.declare_data("Mod", [("group", ("bool",)), ("mid", NODE_T)])
DEP_T = ("tuple", (("data", "Mod"), ("data", "Mod")))
vals.TYPE_ALIASES["Dep"] = DEP_T

KIND = vals.DATA["FilterKind"]["enum"]
FILTER = vals.DATA["Filter"]
MOD = vals.DATA["Mod"]

# class families: frozen dataclasses of the repository -> constructor of the datatype
REG.method_family["Filter"] = "ModuleFilter"
REG.method_family["Mod"] = "Module"
REG.class_bases.update({
    "ModuleNameFilter": ["ModuleFilter"], "ParentModuleNameFilter": ["ModuleFilter"],
    "ModuleNameRegexFilter": ["ModuleFilter"], "ModuleGroup": ["Module"],
})


def _mk_filter(kind):
    def ctor(reg, eng, st, args, kwargs, node):
        vs = list(args) + list(kwargs.values())
        if len(vs) != 1:
            raise OutOfSubset("filter constructor arity")
        return [(st, V(("data", "Filter"), FILTER["ctor"](KIND[kind], to_term(vals.coerce(vs[0], NODE_T)))))]
    return ctor


def _mk_mod(group):
    def ctor(reg, eng, st, args, kwargs, node):
        vs = list(args) + list(kwargs.values())
        if len(vs) != 1:
            raise OutOfSubset("module constructor arity")
        return [(st, V(("data", "Mod"), MOD["ctor"](z3.BoolVal(group), to_term(vals.coerce(vs[0], NODE_T)))))]
    return ctor


REG.ctors["ModuleNameFilter"] = _mk_filter("NAME")
REG.ctors["ParentModuleNameFilter"] = _mk_filter("PARENT")
REG.ctors["ModuleNameRegexFilter"] = _mk_filter("REGEX")
REG.ctors["Module"] = _mk_mod(False)
REG.ctors["ModuleGroup"] = _mk_mod(True)


@REG.specfun("fid")
def _fid(eng, st, f):
    return V(NODE_T, FILTER["fields"]["fid"][0](f.x))


@REG.specfun("is_name")
def _is_name(eng, st, f):
    return vbool(FILTER["fields"]["kind"][0](f.x) == KIND["NAME"])


@REG.specfun("is_parent")
def _is_parent(eng, st, f):
    return vbool(FILTER["fields"]["kind"][0](f.x) == KIND["PARENT"])


@REG.specfun("is_regex")
def _is_regex(eng, st, f):
    return vbool(FILTER["fields"]["kind"][0](f.x) == KIND["REGEX"])


@REG.specfun("mid")
def _mid(eng, st, m):
    return V(NODE_T, MOD["fields"]["mid"][0](m.x))


@REG.specfun("is_group")
def _is_group(eng, st, m):
    return vbool(MOD["fields"]["group"][0](m.x))


@REG.specfun("mk_mod")
def _mk_mod_spec(eng, st, group, n):
    return V(("data", "Mod"), MOD["ctor"](group.x, n.x))


@REG.specfun("mk_filter_name")
def _mk_filter_name(eng, st, n):
    return V(("data", "Filter"), FILTER["ctor"](KIND["NAME"], n.x))


@REG.specfun("mk_filter_parent")
def _mk_filter_parent(eng, st, n):
    return V(("data", "Filter"), FILTER["ctor"](KIND["PARENT"], n.x))


@REG.specfun("mk_filter_regex")
def _mk_filter_regex(eng, st, n):
    return V(("data", "Filter"), FILTER["ctor"](KIND["REGEX"], n.x))


@REG.specfun("mk_filter_regex_glob")
def _mk_filter_regex_glob(eng, st, n):
    g = eng.reg.specfuns["glob2regex"](eng, st, n)
    return V(("data", "Filter"), FILTER["ctor"](KIND["REGEX"], g.x))


@REG.specfun("implies")
def _implies(eng, st, a, b):
    return vbool(z3.Implies(eng.truth(a), eng.truth(b)))


@REG.specfun("iff")
def _iff(eng, st, a, b):
    return vbool(eng.truth(a) == eng.truth(b))


@REG.specfun("is_none")
def _is_none(eng, st, a):
    return vbool(eng.eq(a, vals.VNONE))


@REG.specfun("nonempty")
def _nonempty(eng, st, a):
    return vbool(eng.truth(a))


@REG.specfun("same_elements")
def _same_elements(eng, st, a, b):
    ma, mb = eng.reg.as_membership(eng, a), eng.reg.as_membership(eng, b)
    return vbool(ma.x == mb.x)


# ---------------------------------------------------------------- graph model
f_node = z3.Function("node", Graph, Node, z3.BoolSort())
f_edge = z3.Function("edge", Graph, Node, Node, z3.BoolSort())
f_inh = z3.Function("inh", Graph, Node, Node, z3.BoolSort())
f_desc = z3.Function("desc", Graph, Node, Node, z3.BoolSort())


@REG.specfun("node")
def _node(eng, st, g, n):
    return vbool(f_node(g.x, n.x))


@REG.specfun("edge")
def _edge(eng, st, g, a, b):
    return vbool(f_edge(g.x, a.x, b.x))


@REG.specfun("inh")
def _inh(eng, st, g, a, b):
    return vbool(f_inh(g.x, a.x, b.x))


@REG.specfun("imp")
def _imp(eng, st, g, a, b):
    return vbool(z3.And(f_edge(g.x, a.x, b.x), z3.Not(f_inh(g.x, a.x, b.x))))


@REG.specfun("desc")
def _desc(eng, st, g, a, b):
    return vbool(f_desc(g.x, a.x, b.x))


def wf_axioms(g):
    a, b, c, p = z3.Consts("a b c p", Node)
    N, E, H, D = (lambda x: f_node(g, x)), (lambda x, y: f_edge(g, x, y)), (lambda x, y: f_inh(g, x, y)), (lambda x, y: f_desc(g, x, y))
    return [
        z3.ForAll([a, b], z3.Implies(E(a, b), z3.And(N(a), N(b)))),          # edges connect nodes
        z3.ForAll([a], z3.Not(E(a, a))),                                     # no self edges (_create_edge returns early)
        z3.ForAll([a, b], z3.Implies(H(a, b), E(a, b))),                     # hierarchy edges are edges
        z3.ForAll([a, b, c], z3.Implies(z3.And(H(a, c), H(b, c)), a == b)),  # unique parent (dotted names)
        z3.ForAll([a], D(a, a)),                                             # desc = reflexive-transitive closure of inh:
        z3.ForAll([a, b, c], z3.Implies(z3.And(D(a, b), H(b, c)), D(a, c))),
        z3.ForAll([a, b, c], z3.Implies(z3.And(D(a, b), D(b, c)), D(a, c))),
        z3.ForAll([a, b], z3.Implies(z3.And(D(a, b), D(b, a)), a == b)),     # acyclic
        z3.ForAll([a, p, c], z3.Implies(H(p, c), D(a, c) == z3.Or(a == c, D(a, p)))),  # last step through the unique parent
        z3.ForAll([a, c], z3.Implies(z3.And(D(a, c), a != c), z3.Exists([p], z3.And(H(p, c), D(a, p))))),
        z3.ForAll([a, c], z3.Implies(z3.And(D(a, c), a != c), z3.And(N(a), N(c)))),
        # the ancestors of a node form a chain (forest; by induction over the unique-parent path)
        z3.ForAll([a, b, c], z3.Implies(z3.And(D(a, c), D(b, c)), z3.Or(D(a, b), D(b, a)))),
    ]


@REG.specfun("WF")
def _wf(eng, st, g):
    """Well-formed module graph: what NetworkxGraph.__init__ establishes (C04/C09 contracts) and what the
    closure 'desc' of the hierarchy relation satisfies (all true of the real closure of a forest)."""
    return vbool(z3.And(*wf_axioms(g.x)))


@REG.specfun("leastness", schema=True)
def _leastness(eng, st, g, start, S):
    """Schema (trusted, true of every set S): if S contains start and is closed under inh then it contains
    every descendant of start -- desc is the LEAST reflexive-transitive relation containing inh."""
    S = eng.reg.as_membership(eng, S)
    a, b, n = z3.Consts("a b n", Node)
    closed = z3.And(z3.Select(S.x, start.x),
                    z3.ForAll([a, b], z3.Implies(z3.And(z3.Select(S.x, a), f_inh(g.x, a, b)), z3.Select(S.x, b))))
    return vbool(z3.Implies(closed, z3.ForAll([n], z3.Implies(f_desc(g.x, start.x, n), z3.Select(S.x, n)))))


@REG.specfun("lam_cap0")
def _lam_cap0(eng, st, f):
    """The first captured default-argument value of a closure stored as a Lam[...] value (see pyvc.vals.parse_type)."""
    if f.t[0] != "opaque" or f.t[1] not in vals.LAM_CAPS:
        raise OutOfSubset(f"lam_cap0 on {f.t}")
    return vals.from_term(vals.LAM_CAPS[f.t[1]][0], vals.lam_cap_fn(f.t[1], 0)(f.x))


# exceptions
REG.exc_bases.update({
    "NetworkXError": ["Exception"], "ImproperlyConfigured": ["Exception"], "RuleInconsistency": ["Exception"],
    "ImpossibleMatch": ["Exception"], "LayerMismatch": ["Exception"], "PumlParsingError": ["Exception"],
    "ImportException": ["Exception"],
})


def _isinstance(eng, v, names):
    k = v.t[0]
    if k == "opt":
        return z3.And(z3.Not(v.x[0]), _isinstance(eng, v.x[1], names))
    table = {"str": {"str"}, "node": {"str"}, "list": {"list"}, "bag": {"list"}, "seq": {"list"}, "tuple": {"tuple"},
             "set": {"set"}, "dict": {"dict"}, "int": {"int"}, "bool": {"bool", "int"}, "none": set()}
    if k in table:
        return z3.BoolVal(bool(table[k] & set(names)))
    if v.t == ("opaque", "Ast"):
        # class membership of an ast node: one uninterpreted predicate per class name (the classes partition as in the interpreter's grammar;
        # only what the contracts state about them is used)
        return z3.Or(*[z3.Function("ast_is_" + n.replace(".", "_"), v.x.sort(), z3.BoolSort())(v.x) for n in sorted(names)])
    raise OutOfSubset(f"isinstance on {v.t}")


REG.isinstance_ = _isinstance


@REG.specfun("unwrap")
def _unwrap(eng, st, a):
    """The value of an Optional that is known (by the surrounding formula) not to be None."""
    return a.x[1] if a.t[0] == "opt" else a


def set_function(name, params, elem, elem_type, body):
    """A set-valued specification function  name(params) = {elem | body}  as an uninterpreted symbol with its
    definitional axiom (conservative extension). Equal arguments give the SAME term, so contracts that mention
    the set stay aligned by congruence alone."""
    ptypes = {k: parse_type(v) for k, v in params.items()}
    et = parse_type(elem_type)
    rng = z3.ArraySort(sort_of(et), z3.BoolSort())
    state = {}

    def fn(eng, st, *args):
        vs = [eng.typed(a if a.t[0] not in ("list",) else a, t) if t[0] not in ("bag", "set") else eng.reg.as_membership(eng, a)
              for a, t in zip(args, ptypes.values())]
        terms = [v.x for v in vs]
        if "f" not in state:
            state["f"] = z3.Function(name, *[t.sort() for t in terms], rng)
        if name not in eng.axioms_used:
            saved_bound, saved_spec, saved_q = dict(eng.bound), eng.spec, getattr(eng, "qdepth", 0)
            eng.spec, eng.qdepth = True, 80
            try:
                pvs = {pn: eng.bvar("ax!" + pn, pt) for pn, pt in ptypes.items()}
                ev_ = eng.bvar("ax!" + elem, et)
                eng.bound = dict(pvs)
                eng.bound[elem] = ev_
                eng.qdepth = 81
                from pyvc.state import State as _S
                b = eng.truth(eng.ev1(eng.reg.parse_spec(body), _S()))
                consts = [c for v in pvs.values() for c in eng.reg.consts_of(v)] + eng.reg.consts_of(ev_)
                app = z3.Select(state["f"](*[v.x for v in pvs.values()]), to_term(ev_))
                eng.axioms_used[name] = z3.ForAll(consts, app == b, patterns=[app])
                eng.__dict__.setdefault("axiom_defs", {})[name] = state["f"].name()
            finally:
                eng.bound, eng.spec, eng.qdepth = saved_bound, saved_spec, saved_q
        return V(("bag", et), state["f"](*terms))

    REG.specfuns[name] = fn
    return fn
