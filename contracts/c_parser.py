"""Contracts (string view): eval_structure_generation/file_import/parser.py -- the directory walk (C04, C08, C15).

File-system model (assumed, pathlib / os): is_dir(p), child(p, q) (q in p.iterdir()), path_str, path_suffix, file text; resolve() is the
identity on the absolute, symlink-free paths handed in. The module name of a path (`_get_module_name`) enters these contracts as the function
mod_name(root, p); what that function is (root name + '.' + dotted relative path without suffix) is proved on the real code in c_entry.py
(Parser._get_module_name@str) and additionally covered by the bounded C04 stand-in."""
import z3
from pyvc import vals
from pyvc.vals import V, vbool, vstr
from .speclib import REG, Contract
from .c_filters import PT, _f_path_str

M_PA = "pytestarch.eval_structure_generation.file_import.parser"
S = z3.StringSort()
FL = vals.opaque_sort("File")
AST = vals.opaque_sort("Ast")
f_is_dir = z3.Function("fs_is_dir", PT, z3.BoolSort())
f_child = z3.Function("fs_child", PT, PT, z3.BoolSort())
f_suffix = z3.Function("path_suffix", PT, S)
f_modname = z3.Function("mod_name", PT, PT, S)
f_text = z3.Function("file_text", PT, S)
f_file = z3.Function("file_of", PT, FL)
f_ftext = z3.Function("file_read", FL, S)
f_ast = z3.Function("ast_of", S, AST)
for _n, _f, _rt in (("fs_is_dir", f_is_dir, "bool"), ("fs_child", f_child, "bool")):
    def _mk(f):
        return lambda eng, st, *a: vbool(f(*[x.x for x in a]))
    REG.specfuns[_n] = _mk(_f)
REG.specfuns["path_suffix"] = lambda eng, st, p: V(("str",), f_suffix(p.x))
REG.specfuns["mod_name"] = lambda eng, st, r, p: V(("str",), f_modname(r.x, p.x))
REG.specfuns["file_of"] = lambda eng, st, p: V(("opaque", "File"), f_file(p.x))
REG.specfuns["file_read"] = lambda eng, st, f: V(("str",), f_ftext(f.x))
REG.specfuns["ast_of"] = lambda eng, st, c: V(("opaque", "Ast"), f_ast(c.x))

_P = dict(self="Opaque[Path]")
REG.add(Contract("Path.is_dir", status="assumed", kind="method", params=_P, returns="Bool", defn="fs_is_dir(self)"))
REG.add(Contract("Path.iterdir", status="assumed", kind="method", params=_P, returns="Bag[Opaque[Path]]",
                 ensures=["forall(Opaque[Path], lambda q: (q in result) == fs_child(self, q))"], note="any enumeration order (the result is used as a collection)"))
REG.add(Contract("Path.resolve", status="assumed", kind="method", params=_P, returns="Opaque[Path]", defn="self",
                 note="absolute, symlink-free paths: resolve() is the identity (input validity)"))
REG.add(Contract("Path.suffix", status="assumed", kind="property", params=_P, returns="Str", defn="path_suffix(self)"))
REG.add(Contract("open", status="assumed", params=dict(file="Opaque[Path]"), returns="Opaque[File]", defn="file_of(file)"))
REG.add(Contract("File.read", status="assumed", kind="method", params=dict(self="Opaque[File]"), returns="Str", defn="file_read(self)"))
REG.add(Contract("ast.parse", status="assumed", params=dict(source="Str"), returns="Opaque[Ast]", defn="ast_of(source)"))

vals.declare_data("NamedModule", [("nm_ast", ("opaque", "Ast")), ("nm_name", ("str",))])
NM = vals.DATA["NamedModule"]
REG.specfuns["nm_name"] = lambda eng, st, m: V(("str",), NM["fields"]["nm_name"][0](m.x))
REG.specfuns["nm_ast"] = lambda eng, st, m: V(("opaque", "Ast"), NM["fields"]["nm_ast"][0](m.x))
REG.specfuns["mk_named_module"] = lambda eng, st, a, n: V(("data", "NamedModule"), NM["ctor"](a.x, n.x))


def _nm_ctor(reg, eng, st, args, kwargs, node):
    vs = list(args) + list(kwargs.values())
    return [(st, V(("data", "NamedModule"), NM["ctor"](vs[0].x, vals.coerce(vs[1], ("str",)).x)))]


REG.ctors["NamedModule"] = _nm_ctor

vals.declare_obj("Parser", dict(_filter="FileFilter", _source_root="Opaque[Path]", _all_modules="Bag[Str]"))
PA = "Parser"
# is_excluded(Path): the singledispatch registration for Path
c_str = REG.contracts["FileFilter.is_excluded"]
c_str.alt = REG.add(Contract("FileFilter.is_excluded@path", module="pytestarch.eval_structure_generation.file_import.file_filter",
                             qualname="FileFilter.is_excluded.register(Path)", kind="method", view="string",
                             params=dict(self="FileFilter", obj="Opaque[Path]"), returns="Bool", defn="ff_excluded(self, path_str(obj))", properties=["C08", "C04"]))
REG.macro("p_excl", ["pa", "p"], "ff_excluded(pa._filter, path_str(p))")
REG.add(Contract(f"{PA}._get_module_name", module=M_PA, kind="method", status="assumed", params=dict(self=PA, path="Opaque[Path]"), returns="Str",
                 defn="mod_name(self._source_root, path)", note="dotted path relative to the source root, prefixed with the root's name: the string construction is PROVED on the real function under the key "
                      "Parser._get_module_name@str (c_entry.py; linked by name through the definition ModNameDef of mod_name); assumed here: the paths met during a scan lie "
                      "below the source root (no ValueError from relative_to); also exercised by the bounded C04 stand-in"))
REG.add(Contract(f"{PA}._file_should_be_parsed", module=M_PA, kind="method", view="string", params=dict(self=PA, path="Opaque[Path]"), returns="Bool",
                 defn="path_suffix(path) == '.py' and not p_excl(self, path)", properties=["C04", "C08"]))
REG.add(Contract(f"{PA}._parse_file", module=M_PA, kind="method", view="string", params=dict(self=PA, path="Opaque[Path]"), returns="Opt[NamedModule]",
                 modifies=["self"],
                 ensures=["is_none(result) == (not (path_suffix(path) == '.py' and not p_excl(old(self), path)))",
                          "implies(not is_none(result), unwrap(result) == mk_named_module(ast_of(file_read(file_of(path))), mod_name(old(self)._source_root, path)))",
                          "self._filter == old(self)._filter", "self._source_root == old(self)._source_root",
                          "forall(Str, lambda n: (n in self._all_modules) == ((n in old(self)._all_modules) or ((not is_none(result)) and n == mod_name(old(self)._source_root, path))))"],
                 properties=["C04", "C08"]))

# ---- the walk. own(p, n): p itself contributes the module name n; contrib(F, root, p, n): some path of the sub-tree of p that is reached
# through non-excluded directories contributes n. contrib is the least fixpoint of the unfolding equation below (a true statement about it,
# file trees are finite and acyclic), assumed via TreeUnfold.
f_contrib = z3.Function("fs_contrib", z3.ArraySort(S, z3.BoolSort()), PT, PT, S, z3.BoolSort())
REG.specfuns["fs_contrib"] = lambda eng, st, F, r, p, n: vbool(f_contrib(F.x, r.x, p.x, n.x))
REG.macro("own_name", ["pa", "p", "n"],
          "(fs_is_dir(p) and (not p_excl(pa, p)) and mod_name(pa._source_root, p) != '' and n == mod_name(pa._source_root, p)) or "
          "((not fs_is_dir(p)) and path_suffix(p) == '.py' and (not p_excl(pa, p)) and n == mod_name(pa._source_root, p))")
REG.macro("contrib", ["pa", "p", "n"], "fs_contrib(pa._filter._excluded_directories, pa._source_root, p, n)")


@REG.specfun("TreeUnfold", schema=True)
def _tree_unfold(eng, st, pa):
    """Schema (trusted, true of the least fixpoint on a finite acyclic tree): contrib(p, n) <=> own(p, n) or (p is a non-excluded directory and some
    child q has contrib(q, n))."""
    F = pa.x["_filter"].x["_excluded_directories"].x
    root = pa.x["_source_root"].x
    p, q = z3.Consts("tu!p tu!q", PT)
    n, pat = z3.Const("tu!n", S), z3.Const("tu!pat", S)
    from .c_strings import _f_re_match
    excl = lambda x: z3.Exists([pat], z3.And(z3.Select(F, pat), _f_re_match(pat, _f_path_str(x))))
    own = z3.Or(z3.And(f_is_dir(p), z3.Not(excl(p)), f_modname(root, p) != z3.StringVal(""), n == f_modname(root, p)),
                z3.And(z3.Not(f_is_dir(p)), f_suffix(p) == z3.StringVal(".py"), z3.Not(excl(p)), n == f_modname(root, p)))
    step = z3.And(f_is_dir(p), z3.Not(excl(p)), z3.Exists([q], z3.And(f_child(p, q), f_contrib(F, root, q, n))))
    return vbool(z3.ForAll([p, n], f_contrib(F, root, p, n) == z3.Or(own, step)))


# the parsed files, same construction: ast_contrib(F, root, p, m): some non-excluded .py file of the sub-tree of p that is reached through non-excluded
# directories yields the named module m = (ast of its text, its module name). Least fixpoint of the unfolding equation, assumed via AstTreeUnfold.
f_acontrib = z3.Function("fs_ast_contrib", z3.ArraySort(S, z3.BoolSort()), PT, PT, NM["sort"], z3.BoolSort())
REG.specfuns["fs_ast_contrib"] = lambda eng, st, F, r, p, m: vbool(f_acontrib(F.x, r.x, p.x, m.x))
REG.macro("ast_contrib", ["pa", "p", "m"], "fs_ast_contrib(pa._filter._excluded_directories, pa._source_root, p, m)")


@REG.specfun("AstTreeUnfold", schema=True)
def _ast_tree_unfold(eng, st, pa):
    """Schema (trusted, true of the least fixpoint on a finite acyclic tree): ast_contrib(p, m) <=> (p is a non-excluded .py file and m is its named module)
    or (p is a non-excluded directory and some child q has ast_contrib(q, m))."""
    F = pa.x["_filter"].x["_excluded_directories"].x
    root = pa.x["_source_root"].x
    p, q = z3.Consts("au!p au!q", PT)
    m, pat = z3.Const("au!m", NM["sort"]), z3.Const("au!pat", S)
    from .c_strings import _f_re_match
    excl = lambda x: z3.Exists([pat], z3.And(z3.Select(F, pat), _f_re_match(pat, _f_path_str(x))))
    own = z3.And(z3.Not(f_is_dir(p)), f_suffix(p) == z3.StringVal(".py"), z3.Not(excl(p)), m == NM["ctor"](f_ast(f_ftext(f_file(p))), f_modname(root, p)))
    step = z3.And(f_is_dir(p), z3.Not(excl(p)), z3.Exists([q], z3.And(f_child(p, q), f_acontrib(F, root, q, m))))
    return vbool(z3.ForAll([p, m], f_acontrib(F, root, p, m) == z3.Or(own, step)))


REG.add(Contract(f"{PA}.parse", module=M_PA, kind="method", view="string", params=dict(self=PA, path="Opaque[Path]"),
                 returns="Tuple[Bag[Str],Bag[NamedModule]]", modifies=["self"],
                 use_at_start=["TreeUnfold(self)", "AstTreeUnfold(self)"],
                 # C04 / C08: exactly one module per non-excluded directory and per non-excluded .py file that is reached from `path` through
                 # non-excluded directories; nothing at or below an excluded directory; independent of the enumeration order (C15)
                 ensures=["forall(Str, lambda n: (n in result[0]) == contrib(old(self), path, n))",
                          "forall(NamedModule, lambda m: implies(m in result[1], nm_name(m) in result[0]))",
                          # C08: exactly the non-excluded .py files reached through non-excluded directories are parsed (an excluded file or sub-tree contributes no import)
                          "forall(NamedModule, lambda m: (m in result[1]) == ast_contrib(old(self), path, m))",
                          "self._filter == old(self)._filter", "self._source_root == old(self)._source_root"],
                 locals=dict(paths="Bag[Opaque[Path]]", modules="Bag[NamedModule]"),
                 loops={0: dict(sig="while paths", invariant=[
                     "self._filter == pre(self)._filter", "self._source_root == pre(self)._source_root",
                     "forall(Str, lambda n: ((n in self._all_modules) or exists(Opaque[Path], lambda p: (p in paths) and contrib(self, p, n))) == contrib(self, pre(path), n))",
                     "forall(Str, lambda n: implies(n in self._all_modules, contrib(self, pre(path), n)))",
                     "forall(NamedModule, lambda m: implies(m in modules, nm_name(m) in self._all_modules))",
                     "forall(NamedModule, lambda m: ((m in modules) or exists(Opaque[Path], lambda p: (p in paths) and ast_contrib(self, p, m))) == ast_contrib(self, pre(path), m))",
                     "forall(NamedModule, lambda m: implies(m in modules, ast_contrib(self, pre(path), m)))"])},
                 properties=["C04", "C08", "C15", "C02"]))
