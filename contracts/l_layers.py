"""C05: the layer verdict specification (what LayerRuleMatcher._find_rule_violations is proved to compute, c_layers.py) equals the documented layer semantics
(DESIGN section 3) for pairwise disjoint layers.

Setting of every lemma: a well-formed graph g; the UPDATED layer mapping L the detector judges with (layers_of(L), lm_mods(L, layer): the modules a layer lists after
regex expansion); the subject layer A and the object layers Bs of the rule; S / O = importers / importees of the converted requirement (after the be-accessed-by swap),
subj = 'the importer is the rule subject'.
Hypotheses (lay_hyp): S / O are name filters and list exactly the modules of A resp. of the layers in Bs (what are_named + ModuleNameConverter.convert + _update_layer_mapping
establish: proved per function, their composition is NOT proved -- see notes/ctr-layers.md); layers list plain modules; layers are pairwise disjoint; A is not an object layer;
every mentioned layer has a module; and the LINK between the two views of the layer lookup: layer_of(L, n) is the layer l with n in Lay(l) (proved on the real
get_layer_for_module_name in the string view, where 'dotted descendant' is the graph's desc)."""
from .speclib import REG

P = ["C05"]
# Lay(l): the listed modules of l and all their descendants
REG.define("lay_in", dict(g="Graph", L="Opaque[LayerMapping]", l="LayerName", n="Node"), "exists(Mod, lambda m: (m in lm_mods(L, l)) and desc(g, mid(m), n))")
REG.macro("lay_link", ["g", "L"],
          "forall(LayerName, Node, lambda l, n: ((not is_none(layer_of(L, n))) and unwrap(layer_of(L, n)) == l) == ((l in layers_of(L)) and lay_in(g, L, l, n)))")
REG.macro("lay_disjoint", ["g", "L"],
          "forall(LayerName, LayerName, Node, lambda l1, l2, n: implies((l1 in layers_of(L)) and (l2 in layers_of(L)) and lay_in(g, L, l1, n) and lay_in(g, L, l2, n), l1 == l2))")
REG.macro("lay_sides", ["L", "A", "Bs", "FA", "FB"],
          # {f2m(f) | f in FA} == lm_mods(L, A)  and  {f2m(f) | f in FB} == the union of lm_mods(L, B), B in Bs  -- each as its two inclusions (every quantifier then has a trigger)
          "forall(Filter, lambda f: implies((f in FA) or (f in FB), is_name(f))) and "
          "forall(Filter, lambda f: implies(f in FA, f2m(f) in lm_mods(L, A))) and "
          "forall(Mod, lambda m: implies(m in lm_mods(L, A), exists(Filter, lambda f: (f in FA) and m == f2m(f)))) and "
          "forall(Filter, lambda f: implies(f in FB, exists(LayerName, lambda B: (B in Bs) and (f2m(f) in lm_mods(L, B))))) and "
          "forall(LayerName, Mod, lambda B, m: implies((B in Bs) and (m in lm_mods(L, B)), exists(Filter, lambda f: (f in FB) and m == f2m(f))))")
REG.macro("lay_hyp", ["g", "L", "A", "Bs", "S", "O", "subj"],
          "WF(g) and lay_link(g, L) and lay_disjoint(g, L) and (A in layers_of(L)) and (not (A in Bs)) and forall(LayerName, lambda B: implies(B in Bs, B in layers_of(L))) and "
          "forall(LayerName, Mod, lambda l, m: implies(m in lm_mods(L, l), not is_group(m))) and "
          "exists(Mod, lambda m: m in lm_mods(L, A)) and forall(LayerName, lambda B: implies(B in Bs, exists(Mod, lambda m: m in lm_mods(L, B)))) and "
          "(lay_sides(L, A, Bs, S, O) if subj else lay_sides(L, A, Bs, O, S))")
# documented semantics, over the import relation and Lay only (import direction: A is the importing side; be-accessed-by: A is the imported side)
REG.define("D_access", dict(g="Graph", L="Opaque[LayerMapping]", A="LayerName", B="LayerName", subj="Bool"),
           "exists(Node, Node, lambda n, c: imp(g, n, c) and (lay_in(g, L, A, n) if subj else lay_in(g, L, B, n)) and (lay_in(g, L, B, c) if subj else lay_in(g, L, A, c)))")
REG.define("D_other", dict(g="Graph", L="Opaque[LayerMapping]", A="LayerName", Bs="Bag[LayerName]", subj="Bool"),
           "exists(Node, Node, lambda n, c: imp(g, n, c) and (lay_in(g, L, A, n) if subj else lay_in(g, L, A, c)) and "
           "(not (lay_in(g, L, A, c) if subj else lay_in(g, L, A, n))) and forall(LayerName, lambda B: implies(B in Bs, not (lay_in(g, L, B, c) if subj else lay_in(g, L, B, n)))))")
_PP = dict(g="Graph", L="Opaque[LayerMapping]", A="LayerName", Bs="Bag[LayerName]", S="Bag[Filter]", O="Bag[Filter]", subj="Bool")
_HY = ["lay_hyp(g, L, A, Bs, S, O, subj)"]
# forbidden access (should_not, should_only ... except): a reported explicit import that crosses a layer boundary  <=>  access(A, B) for some object layer B
REG.lemma("C05_forbidden_access", params=_PP, requires=_HY,
          ensures=["exists(Dep, lambda x: G_realised_b(g, S, O, subj, x) and cross_layer(L, x)) == exists(LayerName, lambda B: (B in Bs) and D_access(g, L, A, B, subj))"],
          use=["C05_pairs_are_nodes_1(g, L, S, O, subj)", "C05_pairs_are_nodes_2(g, L, S, O, subj)", "C05_forbidden_access_nodes(g, L, A, Bs, S, O, subj)"],
          opaque=["G_realised_b", "D_access", "lay_in"], cases=["subj"], properties=P)
# forbidden 'other' (should_only, should_not ... except): a reported other-import that crosses a layer boundary  <=>  other(A, Bs); an import inside A never counts
REG.lemma("C05_forbidden_other", params=_PP, requires=_HY,
          ensures=["(exists(Dep, lambda x: G_or_f(g, S, O, x) and cross_layer(L, x)) if subj else exists(Dep, lambda x: G_or_r(g, S, O, x) and cross_layer(L, x))) == D_other(g, L, A, Bs, subj)"],
          use=["C05_other_pairs_are_nodes_1(g, L, S, O, subj)", "C05_other_pairs_are_nodes_2(g, L, S, O, subj)", "C05_forbidden_other_nodes(g, L, A, Bs, S, O, subj)"],
          opaque=["G_or_f", "G_or_r", "D_other", "lay_in"], cases=["subj"], properties=P)

# ---- node-level forms (the reported pairs are (Module(n), Module(c)) images of graph nodes: witnesses are explicit terms, so that no solver has to invent them)
REG.define("N_cross_edge", dict(g="Graph", L="Opaque[LayerMapping]", S="Bag[Filter]", O="Bag[Filter]"),
           "exists(Filter, Filter, Node, Node, lambda s, o, n, c: (s in S) and (o in O) and deps_rel(g, s, o, n, c) and layer_of(L, n) != layer_of(L, c))")
_PX = dict(g="Graph", L="Opaque[LayerMapping]", S="Bag[Filter]", O="Bag[Filter]", subj="Bool")
REG.lemma("C05_pairs_are_nodes_1", params=_PX, requires=[],
          ensures=["implies(exists(Dep, lambda x: G_realised_b(g, S, O, subj, x) and cross_layer(L, x)), N_cross_edge(g, L, S, O))"], cases=["subj"], properties=P)
REG.lemma("C05_pairs_are_nodes_2", params=_PX, requires=[],
          ensures=["forall(Filter, Filter, Node, Node, lambda s, o, n, c: implies((s in S) and (o in O) and deps_rel(g, s, o, n, c) and layer_of(L, n) != layer_of(L, c), "
                   "G_realised_b(g, S, O, subj, order_b(subj, dep_of(n, c))) and cross_layer(L, order_b(subj, dep_of(n, c)))))"], cases=["subj"], properties=P)
REG.lemma("C05_forbidden_access_nodes", params=_PP, requires=_HY,
          ensures=["implies(N_cross_edge(g, L, S, O), exists(LayerName, lambda B: (B in Bs) and D_access(g, L, A, B, subj)))",
                   "implies(exists(LayerName, lambda B: (B in Bs) and D_access(g, L, A, B, subj)), N_cross_edge(g, L, S, O))"], cases=["subj"], properties=P)

REG.define("N_cross_other", dict(g="Graph", L="Opaque[LayerMapping]", S="Bag[Filter]", O="Bag[Filter]", subj="Bool"),
           "exists(Filter, Node, Node, lambda s, n, c: (s in S) and other_rel(g, s, O, n, c) and layer_of(L, n) != layer_of(L, c)) if subj else "
           "exists(Filter, Node, Node, lambda o, p, n: (o in O) and other_rev_rel(g, S, o, p, n) and layer_of(L, p) != layer_of(L, n))")
REG.lemma("C05_other_pairs_are_nodes_1", params=_PX, requires=[],
          ensures=["implies(exists(Dep, lambda x: G_or_f(g, S, O, x) and cross_layer(L, x)) if subj else exists(Dep, lambda x: G_or_r(g, S, O, x) and cross_layer(L, x)), N_cross_other(g, L, S, O, subj))"],
          cases=["subj"], properties=P)
REG.lemma("C05_other_pairs_are_nodes_2", params=_PX, requires=[],
          ensures=["implies(subj, forall(Filter, Node, Node, lambda s, n, c: implies((s in S) and other_rel(g, s, O, n, c) and layer_of(L, n) != layer_of(L, c), "
                   "G_or_f(g, S, O, dep_of(n, c)) and cross_layer(L, dep_of(n, c)))))",
                   "implies(not subj, forall(Filter, Node, Node, lambda o, p, n: implies((o in O) and other_rev_rel(g, S, o, p, n) and layer_of(L, p) != layer_of(L, n), "
                   "G_or_r(g, S, O, dep_of(n, p)) and cross_layer(L, dep_of(n, p)))))"], cases=["subj"], properties=P)
REG.lemma("C05_forbidden_other_nodes", params=_PP, requires=_HY,
          ensures=["implies(N_cross_other(g, L, S, O, subj), D_other(g, L, A, Bs, subj))", "implies(D_other(g, L, A, Bs, subj), N_cross_other(g, L, S, O, subj))"],
          cases=["subj"], properties=P)

# missing 'other' access (should ... except, should_only ... except): reported iff the rule names an object and NO import leaves A for something outside the object layers
_PO = dict(_PP, objs="Bag[Filter]")
REG.lemma("C05_missing_other", params=_PO, requires=_HY,
          ensures=["(exists(Dep, lambda x: G_layer_missing_f(g, S, O, objs, L, x)) if subj else exists(Dep, lambda x: G_layer_missing_r(g, S, O, objs, L, x))) == "
                   "(nonempty(objs) and not D_other(g, L, A, Bs, subj))"],
          use=["C05_forbidden_other(g, L, A, Bs, S, O, subj)"], opaque=["G_or_f", "G_or_r", "D_other", "lay_in"], cases=["subj"], properties=P)
# the verdict of the shapes that do not need 'missing access': violation (some bucket of layer_FV_post non-empty)  <=>  the documented layer semantics is violated
REG.macro("layer_viol_G4", ["g", "S", "O", "objs", "subj", "b", "L"],
          "(b.should_not and (not b.behavior_exception) and exists(Dep, lambda x: G_realised_b(g, S, O, subj, x) and cross_layer(L, x))) or "
          "(b.should and b.behavior_exception and (exists(Dep, lambda x: G_layer_missing_f(g, S, O, objs, L, x)) if subj else exists(Dep, lambda x: G_layer_missing_r(g, S, O, objs, L, x)))) or "
          "(b.should_only and b.behavior_exception and ((exists(Dep, lambda x: G_layer_missing_f(g, S, O, objs, L, x)) if subj else exists(Dep, lambda x: G_layer_missing_r(g, S, O, objs, L, x))) or "
          "   exists(Dep, lambda x: G_realised_b(g, S, O, subj, x) and cross_layer(L, x)))) or "
          "(b.should_not and b.behavior_exception and (exists(Dep, lambda x: G_or_f(g, S, O, x) and cross_layer(L, x)) if subj else exists(Dep, lambda x: G_or_r(g, S, O, x) and cross_layer(L, x))))")
REG.macro("layer_viol_D4", ["g", "L", "A", "Bs", "objs", "subj", "b"],
          "(b.should_not and (not b.behavior_exception) and exists(LayerName, lambda B: (B in Bs) and D_access(g, L, A, B, subj))) or "
          "(b.should and b.behavior_exception and nonempty(objs) and not D_other(g, L, A, Bs, subj)) or "
          "(b.should_only and b.behavior_exception and ((nonempty(objs) and not D_other(g, L, A, Bs, subj)) or exists(LayerName, lambda B: (B in Bs) and D_access(g, L, A, B, subj)))) or "
          "(b.should_not and b.behavior_exception and D_other(g, L, A, Bs, subj))")
REG.lemma("C05_verdict_is_documented_layer_semantics", params=dict(_PO, b="BehaviorRequirement"),
          requires=_HY + ["not ((b.should or b.should_only) and not b.behavior_exception)"],
          ensures=["layer_viol_G4(g, S, O, objs, subj, b, L) == layer_viol_D4(g, L, A, Bs, objs, subj, b)"],
          use=["C05_forbidden_access(g, L, A, Bs, S, O, subj)", "C05_forbidden_other(g, L, A, Bs, S, O, subj)", "C05_missing_other(g, L, A, Bs, S, O, subj, objs)"],
          opaque=["G_realised_b", "G_or_f", "G_or_r", "G_layer_missing_f", "G_layer_missing_r", "D_access", "D_other", "lay_in"], cases=["subj"], properties=P,
          note="8 of the 12 shapes (should_not, should ... except, should_only ... except, should_not ... except; access / be accessed by); 'should' and 'should_only' without except need the "
               "missing-access lemma (not proved here) and the two 'any layer' aliases make the subject layer its own object (outside lay_hyp): those stay with the bounded stand-in")
