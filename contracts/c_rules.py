"""Contracts: rule_assessment/rule_check (requirements, detector, matcher) and eval_structure/evaluable_graph.py."""
from pyvc import vals
from .speclib import REG, Contract

M_BR = "pytestarch.rule_assessment.rule_check.behavior_requirement"
M_MR = "pytestarch.rule_assessment.rule_check.module_requirement"
M_RV = "pytestarch.rule_assessment.rule_check.rule_violations"
M_RVD = "pytestarch.rule_assessment.rule_check.rule_violation_detector"
M_RM = "pytestarch.rule_assessment.rule_check.rule_matcher"
M_EG = "pytestarch.eval_structure.evaluable_graph"

vals.declare_obj("BehaviorRequirement", dict(should="Bool", should_only="Bool", should_not="Bool",
                                             behavior_exception="Bool"))
vals.declare_obj("ModuleRequirement", dict(
    _importer_as_specified_by_user="Bag[Filter]", _importees_as_specified_by_user="Bag[Filter]",
    _importers="Bag[Filter]", _importees="Bag[Filter]", _importer_specified_as_rule_subject="Bool"))
vals.declare_obj("EvaluableArchitectureGraph", dict(_graph="Graph"))
vals.declare_obj("DependencyExpectation", dict(
    not_explicitly_requested_dependencies_should_not_be_present="Bool",
    explicitly_requested_dependencies_should_not_be_present="Bool",
    explicitly_requested_dependencies_and_no_other_should_be_present="Bool",
    explicitly_requested_dependencies_should_not_but_others_should_be_present="Bool",
    at_least_one_not_explicitly_requested_dependency_should_be_present="Bool",
    explicitly_requested_dependencies_should_be_present="Bool"))
BUCKETS = ["should_violations", "should_only_violations_by_forbidden_import", "should_only_violations_by_no_import",
           "should_not_violations", "should_except_violations", "should_only_except_violations_by_forbidden_import",
           "should_only_except_violations_by_no_import", "should_not_except_violations"]
vals.declare_obj("RuleViolations", {b: "Set[Dep]" for b in BUCKETS})
vals.declare_obj("RuleViolationDetector", dict(_module_requirement="ModuleRequirement",
                                               _behavior_requirement="BehaviorRequirement"))
REG.class_bases.update({"RuleViolationDetector": ["RuleViolationBaseDetector"],
                        "DefaultRuleMatcher": ["RuleMatcher"], "LayerRuleMatcher": ["RuleMatcher"]})


def _obj_ctor(cls, order):
    def ctor(reg, eng, st, args, kwargs, node):
        layout = vals.OBJ_LAYOUT[cls]
        vs = dict(zip(order, args))
        vs.update(kwargs)
        if set(vs) != set(layout):
            from pyvc.state import ContractDrift
            raise ContractDrift(f"{cls}(...) fields {sorted(vs)} != layout {sorted(layout)}")
        return [(st, vals.V(("obj", cls), {f: eng.typed(v, layout[f]) for f, v in vs.items()}))]
    return ctor


REG.ctors["DependencyExpectation"] = _obj_ctor("DependencyExpectation", list(vals.OBJ_LAYOUT["DependencyExpectation"]))
REG.ctors["RuleViolations"] = _obj_ctor("RuleViolations", BUCKETS)

# ---------------------------------------------------------------- BehaviorRequirement (C12, C13: full Boolean domain, loop-free)
BR = dict(self="BehaviorRequirement")
F4 = ["s", "so", "sn", "e"]
REG.macro("expl_required4", F4, "(s or so) and not e")
REG.macro("other_required4", F4, "e and (s or so)")
REG.macro("expl_forbidden4", F4, "(sn and not e) or (so and e)")
REG.macro("other_forbidden4", F4, "(sn and e) or (so and not e)")
REG.macro("br_inconsistent4", F4, "(expl_required4(s, so, sn, e) and expl_forbidden4(s, so, sn, e)) or (other_required4(s, so, sn, e) and other_forbidden4(s, so, sn, e))")
for _m in ("expl_required", "other_required", "expl_forbidden", "other_forbidden", "br_inconsistent"):
    REG.macro(_m, ["b"], f"{_m}4(b.should, b.should_only, b.should_not, b.behavior_exception)")
# C13: should_not combined with another verb is contradictory in all four except/non-except cases (proved as a lemma)

for name, macro in (("explicitly_requested_dependency_required", "expl_required"),
                    ("not_explicitly_requested_dependency_required", "other_required"),
                    ("explicitly_requested_dependency_not_allowed", "expl_forbidden"),
                    ("not_explicitly_requested_dependency_not_allowed", "other_forbidden")):
    REG.add(Contract(f"BehaviorRequirement.{name}", module=M_BR, kind="property", params=BR, returns="Bool",
                     defn=f"{macro}(self)", properties=["C01", "C12", "C13"]))

REG.add(Contract("BehaviorRequirement._validate", module=M_BR, kind="method", params=BR, returns="None",
                 raises=[("RuleInconsistency", "br_inconsistent(self)")], properties=["C12", "C13"]))
REG.add(Contract("BehaviorRequirement.__init__", module=M_BR, kind="method",
                 params=dict(self="BehaviorRequirement", should="Bool", should_only="Bool", should_not="Bool",
                             behavior_exception="Bool"), returns="None", modifies=["self"],
                 raises=[("RuleInconsistency", "br_inconsistent4(should, should_only, should_not, behavior_exception)")],
                 ensures=["self.should == should", "self.should_only == should_only", "self.should_not == should_not",
                          "self.behavior_exception == behavior_exception"],
                 properties=["C12", "C13"]))

# ---------------------------------------------------------------- ModuleRequirement
MRP = dict(self="ModuleRequirement")
REG.add(Contract("ModuleRequirement.__init__", module=M_MR, kind="method",
                 params=dict(self="ModuleRequirement", importers="Bag[Filter]", importees="Bag[Filter]",
                             importer_specified_as_rule_subject="Bool"), returns="None", modifies=["self"],
                 ensures=[
                     "same_elements(self._importer_as_specified_by_user, importers)",
                     "same_elements(self._importees_as_specified_by_user, importees)",
                     "self._importer_specified_as_rule_subject == importer_specified_as_rule_subject",
                     # the swap for be-imported-by rules (C12 duality rests on this)
                     "same_elements(self._importers, importers if importer_specified_as_rule_subject else importees)",
                     "same_elements(self._importees, importees if importer_specified_as_rule_subject else importers)",
                 ], properties=["C01", "C12"]))
for name, field in (("importers", "_importers"), ("importees", "_importees"),
                    ("importers_as_specified_by_user", "_importer_as_specified_by_user"),
                    ("importees_as_specified_by_user", "_importees_as_specified_by_user")):
    REG.add(Contract(f"ModuleRequirement.{name}", module=M_MR, kind="property", params=MRP, returns="Bag[Filter]",
                     defn=f"self.{field}", properties=["C01", "C12"]))
REG.add(Contract("ModuleRequirement.rule_specified_with_importer_as_rule_object", module=M_MR, kind="property",
                 params=MRP, returns="Bool", defn="not self._importer_specified_as_rule_subject", properties=["C01", "C12"]))
REG.add(Contract("ModuleRequirement.rule_specified_with_importer_as_rule_subject", module=M_MR, kind="property",
                 params=MRP, returns="Bool", defn="self._importer_specified_as_rule_subject", properties=["C01", "C12"]))

# ---------------------------------------------------------------- (search relations: see c_graph)
REG.macro("f2m", ["f"], "mk_mod(is_parent(f), fid(f))")

# ---------------------------------------------------------------- EvaluableArchitectureGraph
EG = "EvaluableArchitectureGraph"
REG.macro("GD_post", ["g", "S", "O", "r"],
          "forall(Dep, lambda k: (k in r) == exists(Filter, Filter, lambda s, o: (s in S) and (o in O) and k == (f2m(s), f2m(o)))) "
          "and forall(Filter, Filter, Dep, lambda s, o, d: implies((s in S) and (o in O), (d in r[(f2m(s), f2m(o))]) == deps_rel_d(g, s, o, d)))")
REG.add(Contract(
    f"{EG}.get_dependencies", module=M_EG, kind="method",
    params=dict(self=EG, dependents="Bag[Filter]", dependent_upons="Bag[Filter]"), returns="Dict[Dep,Bag[Dep]]",
    requires=["WF(self._graph)"],
    raises=[("NetworkXError", "exists(Filter, Filter, lambda s, o: (s in dependents) and (o in dependent_upons) and ((not node(self._graph, fid(s))) or (not node(self._graph, fid(o)))))")],
    ensures=["GD_post(self._graph, dependents, dependent_upons, result)"],
    locals=dict(result="Dict[Dep,Bag[Dep]]"),
    loops={0: dict(sig="for (dependent, dependent_upon) in product(dependents_set, dependent_upons_set)", invariant=[
        "forall(Dep, lambda k: (k in result) == exists(Filter, Filter, lambda s, o: ((s, o) in seen) and k == (f2m(s), f2m(o))))",
        "forall(Filter, Filter, Dep, lambda s, o, d: implies((s, o) in seen, (d in result[(f2m(s), f2m(o))]) == deps_rel_d(self._graph, s, o, d)))",
        "forall(Filter, Filter, lambda s, o: implies((s, o) in seen, node(self._graph, fid(s)) and node(self._graph, fid(o))))",
    ])},
    properties=["C01", "C03", "C11", "C12", "C13", "C15"]))

REG.macro("AD_post", ["g", "S", "O", "r"],
          "forall(Mod, lambda k: (k in r) == exists(Filter, lambda s: (s in S) and k == f2m(s))) "
          "and forall(Filter, Dep, lambda s, d: implies(s in S, (d in r[f2m(s)]) == other_rel_d(g, s, O, d)))")
REG.add(Contract(
    f"{EG}.any_dependencies_from_dependents_to_modules_other_than_dependent_upons", module=M_EG, kind="method",
    params=dict(self=EG, dependents="Bag[Filter]", dependent_upons="Bag[Filter]"), returns="Dict[Mod,Bag[Dep]]",
    # regex filters are converted to name filters before any graph query (ModuleNameConverter.convert)
    requires=["WF(self._graph)", "forall(Filter, lambda s: implies(s in dependents, not is_regex(s)))"],
    raises=[("NetworkXError", "exists(Filter, lambda s: (s in dependents) and ((not node(self._graph, fid(s))) or exists(Filter, lambda o: (o in dependent_upons) and o != s and not node(self._graph, fid(o)))))")],
    ensures=["AD_post(self._graph, dependents, dependent_upons, result)"],
    locals=dict(result="Dict[Mod,Bag[Dep]]"),
    loops={0: dict(sig="for dependent in dependents_set", invariant=[
        "forall(Mod, lambda k: (k in result) == exists(Filter, lambda s: (s in seen) and k == f2m(s)))",
        "forall(Filter, Dep, lambda s, d: implies(s in seen, (d in result[f2m(s)]) == other_rel_d(self._graph, s, dependent_upons, d)))",
        "forall(Filter, lambda s: implies(s in seen, node(self._graph, fid(s)) and not exists(Filter, lambda o: (o in dependent_upons) and o != s and not node(self._graph, fid(o)))))",
    ])},
    properties=["C01", "C03", "C12", "C13", "C15"]))

REG.macro("AO_post", ["g", "S", "O", "r"],
          "forall(Mod, lambda k: (k in r) == exists(Filter, lambda o: (o in O) and k == f2m(o))) "
          "and forall(Filter, Dep, lambda o, d: implies(o in O, (d in r[f2m(o)]) == other_rev_rel_d(g, S, o, d)))")
REG.add(Contract(
    f"{EG}.any_other_dependencies_on_dependent_upons_than_from_dependents", module=M_EG, kind="method",
    params=dict(self=EG, dependents="Bag[Filter]", dependent_upons="Bag[Filter]"), returns="Dict[Mod,Bag[Dep]]",
    requires=["WF(self._graph)"],
    raises=[("NetworkXError", "exists(Filter, lambda o: (o in dependent_upons) and ((not node(self._graph, fid(o))) or exists(Filter, lambda s: (s in dependents) and s != o and not node(self._graph, fid(s)))))")],
    ensures=["AO_post(self._graph, dependents, dependent_upons, result)"],
    locals=dict(result="Dict[Mod,Bag[Dep]]"),
    loops={0: dict(sig="for dependent_upon in dependent_upons_set", invariant=[
        "forall(Mod, lambda k: (k in result) == exists(Filter, lambda o: (o in seen) and k == f2m(o)))",
        "forall(Filter, Dep, lambda o, d: implies(o in seen, (d in result[f2m(o)]) == other_rev_rel_d(self._graph, dependents, o, d)))",
        "forall(Filter, lambda o: implies(o in seen, node(self._graph, fid(o)) and not exists(Filter, lambda s: (s in dependents) and s != o and not node(self._graph, fid(s)))))",
    ])},
    properties=["C01", "C03", "C12", "C13", "C15"]))
REG.add(Contract(f"{EG}.modules", module=M_EG, kind="property", params=dict(self=EG), returns="Bag[Node]",
                 ensures=["forall(Node, lambda n: (n in result) == node(self._graph, n))"], properties=["C11", "C04"]))

# ---------------------------------------------------------------- RuleViolationBaseDetector / RuleViolationDetector
RVD = "RuleViolationDetector"
REG.macro("order_dep", ["mr", "d"], "d if mr._importer_specified_as_rule_subject else (d[1], d[0])")
REG.add(Contract("RuleViolationBaseDetector._get_rule_subject_and_object_in_user_specified_order", module=M_RVD,
                 kind="method", params=dict(self=RVD, dependency="Dep"), returns="Dep",
                 defn="order_dep(self._module_requirement, dependency)", properties=["C01", "C03", "C12"]))
REG.add(Contract("RuleViolationBaseDetector._get_dependency_expectations", module=M_RVD, kind="method",
                 params=dict(self=RVD), returns="DependencyExpectation",
                 ensures=[
                     "result.not_explicitly_requested_dependencies_should_not_be_present == (self._behavior_requirement.should_not and self._behavior_requirement.behavior_exception)",
                     "result.explicitly_requested_dependencies_should_not_be_present == (self._behavior_requirement.should_not and not self._behavior_requirement.behavior_exception)",
                     "result.explicitly_requested_dependencies_and_no_other_should_be_present == (self._behavior_requirement.should_only and not self._behavior_requirement.behavior_exception)",
                     "result.explicitly_requested_dependencies_should_not_but_others_should_be_present == (self._behavior_requirement.should_only and self._behavior_requirement.behavior_exception)",
                     "result.at_least_one_not_explicitly_requested_dependency_should_be_present == (self._behavior_requirement.should and self._behavior_requirement.behavior_exception)",
                     "result.explicitly_requested_dependencies_should_be_present == (self._behavior_requirement.should and not self._behavior_requirement.behavior_exception)",
                 ], properties=["C01", "C12"]))
REG.add(Contract("RuleViolationBaseDetector._get_importee_modules_as_specified_by_user", module=M_RVD, kind="method",
                 params=dict(self=RVD), returns="Bag[Mod]",
                 ensures=["forall(Mod, lambda m: (m in result) == exists(Filter, lambda f: (f in self._module_requirement._importees_as_specified_by_user) and m == f2m(f)))"],
                 properties=["C01", "C03"]))

# dict-level bucket relations (subj: importer is rule subject; objs: objects as specified by the user)
REG.macro("order_b", ["subj", "d"], "d if subj else (d[1], d[0])")
REG.define("realised_b", dict(subj="Bool", r="Dict[Dep,Bag[Dep]]", x="Dep"), "exists(Dep, Dep, lambda k, dep: (k in r) and (dep in r[k]) and x == order_b(subj, dep))")
REG.define("realised_m_b", dict(subj="Bool", r="Dict[Mod,Bag[Dep]]", x="Dep"), "exists(Mod, Dep, lambda k, dep: (k in r) and (dep in r[k]) and x == order_b(subj, dep))")
REG.define("abstract_b", dict(subj="Bool", r="Dict[Dep,Bag[Dep]]", x="Dep"), "exists(Dep, lambda k: (k in r) and (not nonempty(r[k])) and x == order_b(subj, k))")
REG.define("missing_b", dict(objs="Bag[Filter]", r="Dict[Mod,Bag[Dep]]", x="Dep"), "exists(Mod, Filter, lambda m, o: (m in r) and (not nonempty(r[m])) and (o in objs) and x == (m, f2m(o)))")
REG.macro("realised_rel", ["mr", "d", "x"], "realised_b(mr._importer_specified_as_rule_subject, d, x)")
REG.macro("realised_rel_m", ["mr", "d", "x"], "realised_m_b(mr._importer_specified_as_rule_subject, d, x)")
REG.macro("abstract_missing_rel", ["mr", "d", "x"], "abstract_b(mr._importer_specified_as_rule_subject, d, x)")
REG.macro("missing_rel", ["mr", "d", "x"], "missing_b(mr._importees_as_specified_by_user, d, x)")

_inner = dict(sig="for dependency in dependencies", invariant=[
    "forall(Dep, lambda x: (x in violating_dependencies_in_user_specified_rule_subject_object_order) == ((x in pre(violating_dependencies_in_user_specified_rule_subject_object_order)) or exists(Dep, lambda dep: (dep in seen) and x == order_b(self._module_requirement._importer_specified_as_rule_subject, dep))))"])
_outer = dict(sig="for dependencies in violating_dependencies", invariant=[
    "forall(Dep, lambda x: (x in violating_dependencies_in_user_specified_rule_subject_object_order) == exists(Bag[Dep], Dep, lambda B, dep: (B in seen) and (dep in B) and x == order_b(self._module_requirement._importer_specified_as_rule_subject, dep)))"])
c1 = REG.add(Contract("RuleViolationBaseDetector._get_realised_dependencies", module=M_RVD, kind="method",
                      params=dict(self=RVD, explicitly_requested_dependencies="Dict[Dep,Bag[Dep]]"), returns="Set[Dep]",
                      ensures=["forall(Dep, lambda x: (x in result) == realised_rel(self._module_requirement, explicitly_requested_dependencies, x))"],
                      locals=dict(violating_dependencies_in_user_specified_rule_subject_object_order="Set[Dep]"),
                      loops={0: _outer, 1: _inner}, properties=["C01", "C03", "C12"]))
c1.alt = REG.add(Contract("RuleViolationBaseDetector._get_realised_dependencies@mod", module=M_RVD, kind="method",
                          qualname="RuleViolationBaseDetector._get_realised_dependencies",
                          params=dict(self=RVD, explicitly_requested_dependencies="Dict[Mod,Bag[Dep]]"), returns="Set[Dep]",
                          ensures=["forall(Dep, lambda x: (x in result) == realised_rel_m(self._module_requirement, explicitly_requested_dependencies, x))"],
                          locals=dict(violating_dependencies_in_user_specified_rule_subject_object_order="Set[Dep]"),
                          loops={0: _outer, 1: _inner}, properties=["C01", "C03", "C12"]))
REG.add(Contract(f"{RVD}._get_abstract_dependencies_without_realisations", module=M_RVD, kind="method",
                 params=dict(self=RVD, explicitly_requested_dependencies="Dict[Dep,Bag[Dep]]"), returns="Set[Dep]",
                 ensures=["forall(Dep, lambda x: (x in result) == abstract_missing_rel(self._module_requirement, explicitly_requested_dependencies, x))"],
                 properties=["C01", "C03", "C12"]))
REG.add(Contract(f"{RVD}._get_missing_dependencies_in_user_specified_order", module=M_RVD, kind="method",
                 params=dict(self=RVD, not_explicitly_requested_dependencies="Dict[Mod,Bag[Dep]]"), returns="Set[Dep]",
                 ensures=["forall(Dep, lambda x: (x in result) == missing_rel(self._module_requirement, not_explicitly_requested_dependencies, x))"],
                 locals=dict(dependencies="Bag[Dep]"), cases=["self._module_requirement._importer_specified_as_rule_subject"],
                 loops={
                     0: dict(sig="for (module_with_missing_dependencies, not_explicitly_requested_dependencies_of_module) in not_explicitly_requested_dependencies.items()", invariant=[
                         "forall(Dep, lambda y: (y in dependencies) == exists(Mod, Filter, lambda m, o: ((m, not_explicitly_requested_dependencies[m]) in seen) and (not nonempty(not_explicitly_requested_dependencies[m])) and (o in self._module_requirement._importees_as_specified_by_user) and y == ((m, f2m(o)) if self._module_requirement._importer_specified_as_rule_subject else (f2m(o), m))))"]),
                     1: dict(sig="for other_module in self._get_importee_modules_as_specified_by_user()", invariant=[
                         "forall(Dep, lambda y: (y in dependencies) == ((y in pre(dependencies)) or exists(Mod, lambda om: (om in seen) and y == (module_with_missing_dependencies, om))))"]),
                     2: dict(sig="for other_module in self._get_importee_modules_as_specified_by_user()", invariant=[
                         "forall(Dep, lambda y: (y in dependencies) == ((y in pre(dependencies)) or exists(Mod, lambda om: (om in seen) and y == (om, module_with_missing_dependencies))))"]),
                 }, properties=["C01", "C03", "C12"]))

from pyvc import extract as _extract


def _argnames(module, qualname):
    fn = _extract.module(module).function(qualname)
    return [a.arg for a in fn.args.args] if fn is not None else None


_BUCKET_METHODS = [
    ("_should_not_requirement_violations", "Dep", "realised_rel"),
    ("_should_requirement_violations", "Dep", "abstract_missing_rel"),
    ("_should_only_requirement_violations_by_no_import", "Dep", "abstract_missing_rel"),
    ("_should_only_requirement_violations_by_not_explicitly_requested_dependency", "Mod", "realised_rel_m"),
    ("_should_except_requirement_violations", "Mod", "missing_rel"),
    ("_should_only_except_requirement_violations_due_to_no_other_imports", "Mod", "missing_rel"),
    ("_should_only_except_requirement_violations_due_to_explicit_dependency_present", "Dep", "realised_rel"),
    ("_should_not_except_requirement_violations", "Mod", "realised_rel_m"),
]
for _name, _K, _rel in _BUCKET_METHODS:
    _an = _argnames(M_RVD, f"{RVD}.{_name}") or ["self", "flag", "deps"]
    REG.add(Contract(f"{RVD}.{_name}", module=M_RVD, kind="method",
                     params={_an[0]: RVD, _an[1]: "Bool", _an[2]: f"Opt[Dict[{_K},Bag[Dep]]]"}, returns="Set[Dep]",
                     ensures=[f"forall(Dep, lambda x: (x in result) == ({_an[1]} and (not is_none({_an[2]})) and {_rel}(self._module_requirement, unwrap({_an[2]}), x)))"],
                     properties=["C01", "C03", "C12"]))

REG.macro("viol_buckets", ["mr", "b", "expl", "nexpl", "r"],
          "forall(Dep, lambda x: (x in r.should_not_violations) == (b.should_not and (not b.behavior_exception) and (not is_none(expl)) and realised_rel(mr, unwrap(expl), x))) "
          "and forall(Dep, lambda x: (x in r.should_violations) == (b.should and (not b.behavior_exception) and (not is_none(expl)) and abstract_missing_rel(mr, unwrap(expl), x))) "
          "and forall(Dep, lambda x: (x in r.should_only_violations_by_no_import) == (b.should_only and (not b.behavior_exception) and (not is_none(expl)) and abstract_missing_rel(mr, unwrap(expl), x))) "
          "and forall(Dep, lambda x: (x in r.should_only_violations_by_forbidden_import) == (b.should_only and (not b.behavior_exception) and (not is_none(nexpl)) and realised_rel_m(mr, unwrap(nexpl), x))) "
          "and forall(Dep, lambda x: (x in r.should_except_violations) == (b.should and b.behavior_exception and (not is_none(nexpl)) and missing_rel(mr, unwrap(nexpl), x))) "
          "and forall(Dep, lambda x: (x in r.should_only_except_violations_by_no_import) == (b.should_only and b.behavior_exception and (not is_none(nexpl)) and missing_rel(mr, unwrap(nexpl), x))) "
          "and forall(Dep, lambda x: (x in r.should_only_except_violations_by_forbidden_import) == (b.should_only and b.behavior_exception and (not is_none(expl)) and realised_rel(mr, unwrap(expl), x))) "
          "and forall(Dep, lambda x: (x in r.should_not_except_violations) == (b.should_not and b.behavior_exception and (not is_none(nexpl)) and realised_rel_m(mr, unwrap(nexpl), x)))")
REG.add(Contract("RuleViolationBaseDetector.get_rule_violation", module=M_RVD, kind="method",
                 params=dict(self=RVD, explicitly_requested_dependencies="Opt[Dict[Dep,Bag[Dep]]]",
                             not_explicitly_requested_dependencies="Opt[Dict[Mod,Bag[Dep]]]"), returns="RuleViolations",
                 ensures=["viol_buckets(self._module_requirement, self._behavior_requirement, explicitly_requested_dependencies, not_explicitly_requested_dependencies, result)"],
                 properties=["C01", "C03", "C12"]))
REG.macro("any_violation", ["r"], " or ".join(f"nonempty(r.{b})" for b in BUCKETS))
REG.add(Contract("RuleViolations.__bool__", module=M_RV, kind="method", params=dict(self="RuleViolations"),
                 returns="Bool", defn="any_violation(self)", properties=["C01", "C12"]))

# ---------------------------------------------------------------- ModuleNameConverter (C11, C13)
M_MNC = "pytestarch.eval_structure.module_name_converter"
import z3 as _z3
from pyvc.vals import Node as _Node, V as _V
_f_matches = _z3.Function("re_matches", _Node, _Node, _z3.BoolSort())


@REG.specfun("re_matches")
def _re_matches(eng, st, pattern, name):
    """re.match(re.compile(pattern), name) is not None -- uninterpreted: only its extension matters, so every
    lemma that mentions it holds for whatever the regex engine does."""
    return _V(("bool",), _f_matches(pattern.x, name.x))


REG.add(Contract("ModuleNameConverter._name_matches_pattern", module=M_MNC, kind="classmethod", status="assumed",
                 params=dict(pattern_to_match="Node", name="Node"), returns="Bool",
                 defn="re_matches(pattern_to_match, name)", note="re.compile/re.match: uninterpreted"))
REG.add(Contract("ModuleNameConverter._split_modules_by_presence_of_regex_pattern", module=M_MNC, kind="classmethod",
                 params=dict(modules="Bag[Filter]"), returns="Tuple[Bag[Filter],Bag[Filter]]",
                 ensures=["forall(Filter, lambda f: (f in result[0]) == ((f in modules) and is_regex(f)))",
                          "forall(Filter, lambda f: (f in result[1]) == ((f in modules) and not is_regex(f)))"],
                 locals=dict(modules_with_regex_name_pattern="Bag[Filter]", other_modules="Bag[Filter]"),
                 loops={0: dict(sig="for module in modules", invariant=[
                     "forall(Filter, lambda f: (f in modules_with_regex_name_pattern) == ((f in seen) and is_regex(f)))",
                     "forall(Filter, lambda f: (f in other_modules) == ((f in seen) and not is_regex(f)))"])},
                 properties=["C11", "C13"]))
REG.macro("regex_unmatched", ["g", "F"], "exists(Filter, lambda f: (f in F) and is_regex(f) and not exists(Node, lambda m: node(g, m) and re_matches(fid(f), m)))")
REG.macro("conv_member", ["g", "F", "f"],
          "((f in F) and not is_regex(f)) or (is_name(f) and node(g, fid(f)) and exists(Filter, lambda r: (r in F) and is_regex(r) and re_matches(fid(r), fid(f))))")
REG.add(Contract(
    "ModuleNameConverter.convert", module=M_MNC, kind="classmethod",
    params=dict(modules="Bag[Filter]", arch="EvaluableArchitectureGraph"), returns="Tuple[Bag[Filter],Dict[Node,Bag[Mod]]]",
    requires=["WF(arch._graph)"],
    # C11/C13: a regex that matches no module raises (never a verdict); nothing else can go wrong here
    raises=[("ImpossibleMatch", "regex_unmatched(arch._graph, modules)")],
    ensures=[
        "forall(Filter, lambda f: (f in result[0]) == conv_member(arch._graph, modules, f))",
        "same_elements(result[0], conv(arch._graph, modules))",
        "forall(Node, lambda k: (k in result[1]) == exists(Filter, lambda r: (r in modules) and is_regex(r) and fid(r) == k))",
        "forall(Node, Mod, lambda k, x: implies(k in result[1], (x in result[1][k]) == ((not is_group(x)) and node(arch._graph, mid(x)) and re_matches(k, mid(x)))))",
    ],
    locals=dict(never_matched="Set[Node]", converted_module_filters="Set[Filter]", conversion_mapping="DDict[Node,Bag[Mod]]",
                matching_submodules="Set[Node]", module_names_that_need_to_be_matched="Bag[Node]"),
    loops={
        0: dict(sig="for actually_present_module in arch.modules", invariant=[
            "forall(Node, lambda k: (k in never_matched) == (exists(Filter, lambda r: (r in modules) and is_regex(r) and fid(r) == k) and not exists(Node, lambda m: (m in seen) and re_matches(k, m))))",
            "forall(Filter, lambda f: (f in converted_module_filters) == (is_name(f) and (fid(f) in seen) and exists(Filter, lambda r: (r in modules) and is_regex(r) and re_matches(fid(r), fid(f)))))",
            "forall(Node, lambda k: (k in conversion_mapping) == (exists(Filter, lambda r: (r in modules) and is_regex(r) and fid(r) == k) and exists(Node, lambda m: (m in seen) and re_matches(k, m))))",
            "forall(Node, Mod, lambda k, x: implies(k in conversion_mapping, (x in conversion_mapping[k]) == ((not is_group(x)) and (mid(x) in seen) and re_matches(k, mid(x)))))",
        ]),
        1: dict(sig="for module_to_match in module_names_that_need_to_be_matched", invariant=[
            "forall(Node, lambda k: (k in never_matched) == ((k in pre(never_matched)) and not ((k in seen) and re_matches(k, actually_present_module))))",
            "forall(Filter, lambda f: (f in converted_module_filters) == ((f in pre(converted_module_filters)) or (f == mk_filter_name(actually_present_module) and exists(Node, lambda k: (k in seen) and re_matches(k, actually_present_module)))))",
            "forall(Node, lambda k: (k in conversion_mapping) == ((k in pre(conversion_mapping)) or ((k in seen) and re_matches(k, actually_present_module))))",
            "forall(Node, Mod, lambda k, x: implies(k in conversion_mapping, (x in conversion_mapping[k]) == (((k in pre(conversion_mapping)) and (x in pre(conversion_mapping)[k])) or ((k in seen) and re_matches(k, actually_present_module) and x == mk_mod(False, actually_present_module)))))",
        ]),
    },
    properties=["C11", "C13", "C01"]))

# ---------------------------------------------------------------- RuleMatcher / DefaultRuleMatcher
_RM_FIELDS = dict(_module_requirement="ModuleRequirement", _behavior_requirement="BehaviorRequirement",
                  _updated_module_requirement="ModuleRequirement",
                  _conversion_mapping_importers="Dict[Node,Bag[Mod]]", _conversion_mapping_importees="Dict[Node,Bag[Mod]]")
vals.declare_obj("DefaultRuleMatcher", _RM_FIELDS)
DRM = "DefaultRuleMatcher"
REG.add(Contract("RuleMatcher.__init__", module=M_RM, kind="method",
                 params=dict(self=DRM, module_requirement="ModuleRequirement", behavior_requirement="BehaviorRequirement"),
                 returns="None", modifies=["self"],
                 ensures=["self._module_requirement == module_requirement", "self._behavior_requirement == behavior_requirement"],
                 properties=["C01"]))
# user-specified (subject, object) lists -> converted importer / importee sets of the updated requirement
REG.macro("umr_ok", ["g", "mr", "u"],
          "forall(Filter, lambda f: (f in u._importer_as_specified_by_user) == conv_member(g, mr._importer_as_specified_by_user, f)) "
          "and forall(Filter, lambda f: (f in u._importees_as_specified_by_user) == conv_member(g, mr._importees_as_specified_by_user, f)) "
          "and (u._importer_specified_as_rule_subject == mr._importer_specified_as_rule_subject) "
          "and forall(Filter, lambda f: (f in u._importers) == conv_member(g, mr._importer_as_specified_by_user if mr._importer_specified_as_rule_subject else mr._importees_as_specified_by_user, f)) "
          "and forall(Filter, lambda f: (f in u._importees) == conv_member(g, mr._importees_as_specified_by_user if mr._importer_specified_as_rule_subject else mr._importer_as_specified_by_user, f))")
REG.add(Contract("RuleMatcher._updated_module_requirements", module=M_RM, kind="method",
                 params=dict(self=DRM, evaluable="EvaluableArchitectureGraph"), returns="None", modifies=["self"],
                 requires=["WF(evaluable._graph)"],
                 raises=[("ImpossibleMatch", "regex_unmatched(evaluable._graph, self._module_requirement._importer_as_specified_by_user) or regex_unmatched(evaluable._graph, self._module_requirement._importees_as_specified_by_user)")],
                 ensures=["umr_ok(evaluable._graph, old(self)._module_requirement, self._updated_module_requirement)",
                          "self._updated_module_requirement == umr_of(evaluable._graph, old(self)._module_requirement)",
                          "self._module_requirement == old(self)._module_requirement",
                          "self._behavior_requirement == old(self)._behavior_requirement"],
                 properties=["C01", "C11", "C13"]))
REG.macro("no_regex", ["F"], "forall(Filter, lambda f: implies(f in F, not is_regex(f)))")
REG.macro("gd_raises", ["g", "S", "O"], "exists(Filter, Filter, lambda s, o: (s in S) and (o in O) and ((not node(g, fid(s))) or (not node(g, fid(o)))))")
REG.macro("ad_raises", ["g", "S", "O"], "exists(Filter, lambda s: (s in S) and ((not node(g, fid(s))) or exists(Filter, lambda o: (o in O) and o != s and not node(g, fid(o)))))")
REG.macro("ao_raises", ["g", "S", "O"], "exists(Filter, lambda o: (o in O) and ((not node(g, fid(o))) or exists(Filter, lambda s: (s in S) and s != o and not node(g, fid(s)))))")
REG.add(Contract("RuleMatcher._get_explicitly_requested_dependencies", module=M_RM, kind="method",
                 params=dict(self=DRM, evaluable="EvaluableArchitectureGraph"), returns="Opt[Dict[Dep,Bag[Dep]]]",
                 requires=["WF(evaluable._graph)"],
                 raises=[("NetworkXError", "(expl_required(self._behavior_requirement) or expl_forbidden(self._behavior_requirement)) and gd_raises(evaluable._graph, self._updated_module_requirement._importers, self._updated_module_requirement._importees)")],
                 ensures=["is_none(result) == (not (expl_required(self._behavior_requirement) or expl_forbidden(self._behavior_requirement)))",
                          "implies(not is_none(result), GD_post(evaluable._graph, self._updated_module_requirement._importers, self._updated_module_requirement._importees, result))"],
                 properties=["C01", "C12", "C13"]))
REG.add(Contract("RuleMatcher._get_not_explicitly_requested_dependencies", module=M_RM, kind="method",
                 params=dict(self=DRM, evaluable="EvaluableArchitectureGraph"), returns="Opt[Dict[Mod,Bag[Dep]]]",
                 requires=["WF(evaluable._graph)", "no_regex(self._updated_module_requirement._importers)",
                           "no_regex(self._updated_module_requirement._importees)"],
                 raises=[("NetworkXError", "(other_required(self._behavior_requirement) or other_forbidden(self._behavior_requirement)) and "
                          "(ad_raises(evaluable._graph, self._updated_module_requirement._importers, self._updated_module_requirement._importees) if self._updated_module_requirement._importer_specified_as_rule_subject "
                          "else ao_raises(evaluable._graph, self._updated_module_requirement._importers, self._updated_module_requirement._importees))")],
                 ensures=["is_none(result) == (not (other_required(self._behavior_requirement) or other_forbidden(self._behavior_requirement)))",
                          "implies((not is_none(result)) and self._updated_module_requirement._importer_specified_as_rule_subject, AD_post(evaluable._graph, self._updated_module_requirement._importers, self._updated_module_requirement._importees, result))",
                          "implies((not is_none(result)) and not self._updated_module_requirement._importer_specified_as_rule_subject, AO_post(evaluable._graph, self._updated_module_requirement._importers, self._updated_module_requirement._importees, result))"],
                 properties=["C01", "C12", "C13"]))

# ---------------------------------------------------------------- violation buckets as functions of the graph (no dicts)
# S = importers, O = importees of the (converted) requirement; x ranges over (subject, object) pairs
REG.define("G_realised_b", dict(g="Graph", S="Bag[Filter]", O="Bag[Filter]", subj="Bool", x="Dep"),
          "exists(Filter, Filter, Dep, lambda s, o, d: (s in S) and (o in O) and deps_rel_d(g, s, o, d) and x == order_b(subj, d))")
REG.define("G_abstract_b", dict(g="Graph", S="Bag[Filter]", O="Bag[Filter]", subj="Bool", x="Dep"),
          "exists(Filter, Filter, lambda s, o: (s in S) and (o in O) and (not exists(Dep, lambda d: deps_rel_d(g, s, o, d))) and x == order_b(subj, (f2m(s), f2m(o))))")
REG.define("G_or_f", dict(g="Graph", S="Bag[Filter]", O="Bag[Filter]", x="Dep"), "exists(Filter, Dep, lambda s, d: (s in S) and other_rel_d(g, s, O, d) and x == d)")
REG.define("G_or_r", dict(g="Graph", S="Bag[Filter]", O="Bag[Filter]", x="Dep"), "exists(Filter, Dep, lambda o, d: (o in O) and other_rev_rel_d(g, S, o, d) and x == (d[1], d[0]))")
REG.define("G_om_f", dict(g="Graph", S="Bag[Filter]", O="Bag[Filter]", objs="Bag[Filter]", x="Dep"),
          "exists(Filter, Filter, lambda s, ob: (s in S) and (ob in objs) and (not exists(Dep, lambda d: other_rel_d(g, s, O, d))) and x == (f2m(s), f2m(ob)))")
REG.define("G_om_r", dict(g="Graph", S="Bag[Filter]", O="Bag[Filter]", objs="Bag[Filter]", x="Dep"),
          "exists(Filter, Filter, lambda o, ob: (o in O) and (ob in objs) and (not exists(Dep, lambda d: other_rev_rel_d(g, S, o, d))) and x == (f2m(o), f2m(ob)))")
REG.macro("G_realised", ["g", "u", "x"], "G_realised_b(g, u._importers, u._importees, u._importer_specified_as_rule_subject, x)")
REG.macro("G_abstract_missing", ["g", "u", "x"], "G_abstract_b(g, u._importers, u._importees, u._importer_specified_as_rule_subject, x)")
REG.macro("G_other_realised", ["g", "u", "x"],
          "(u._importer_specified_as_rule_subject and G_or_f(g, u._importers, u._importees, x)) or ((not u._importer_specified_as_rule_subject) and G_or_r(g, u._importers, u._importees, x))")
REG.macro("G_other_missing", ["g", "u", "x"],
          "(u._importer_specified_as_rule_subject and G_om_f(g, u._importers, u._importees, u._importees_as_specified_by_user, x)) or ((not u._importer_specified_as_rule_subject) and G_om_r(g, u._importers, u._importees, u._importees_as_specified_by_user, x))")
REG.macro("FV_post", ["g", "u", "b", "r"],
          "forall(Dep, lambda x: (x in r.should_not_violations) == (b.should_not and (not b.behavior_exception) and G_realised(g, u, x))) "
          "and forall(Dep, lambda x: (x in r.should_violations) == (b.should and (not b.behavior_exception) and G_abstract_missing(g, u, x))) "
          "and forall(Dep, lambda x: (x in r.should_only_violations_by_no_import) == (b.should_only and (not b.behavior_exception) and G_abstract_missing(g, u, x))) "
          "and forall(Dep, lambda x: (x in r.should_only_violations_by_forbidden_import) == (b.should_only and (not b.behavior_exception) and G_other_realised(g, u, x))) "
          "and forall(Dep, lambda x: (x in r.should_except_violations) == (b.should and b.behavior_exception and G_other_missing(g, u, x))) "
          "and forall(Dep, lambda x: (x in r.should_only_except_violations_by_no_import) == (b.should_only and b.behavior_exception and G_other_missing(g, u, x))) "
          "and forall(Dep, lambda x: (x in r.should_only_except_violations_by_forbidden_import) == (b.should_only and b.behavior_exception and G_realised(g, u, x))) "
          "and forall(Dep, lambda x: (x in r.should_not_except_violations) == (b.should_not and b.behavior_exception and G_other_realised(g, u, x)))")
# glue lemmas (pure: proved once for all graphs / dicts), used at the end of _find_rule_violations
_LP = dict(g="Graph", S="Bag[Filter]", O="Bag[Filter]", subj="Bool", r="Dict[Dep,Bag[Dep]]")
REG.lemma("L_realised", params=_LP, requires=["GD_post(g, S, O, r)"],
          ensures=["forall(Dep, lambda x: realised_b(subj, r, x) == G_realised_b(g, S, O, subj, x))"], properties=["C01", "C03"])
REG.lemma("L_abstract", params=_LP, requires=["GD_post(g, S, O, r)"],
          ensures=["forall(Dep, lambda x: abstract_b(subj, r, x) == G_abstract_b(g, S, O, subj, x))"], properties=["C01", "C03"])
_LM = dict(g="Graph", S="Bag[Filter]", O="Bag[Filter]", objs="Bag[Filter]", r="Dict[Mod,Bag[Dep]]")
REG.lemma("L_or_f", params=_LM, requires=["AD_post(g, S, O, r)"],
          ensures=["forall(Dep, lambda x: realised_m_b(True, r, x) == G_or_f(g, S, O, x))"], properties=["C01", "C03"])
REG.lemma("L_or_r", params=_LM, requires=["AO_post(g, S, O, r)"],
          ensures=["forall(Dep, lambda x: realised_m_b(False, r, x) == G_or_r(g, S, O, x))"], properties=["C01", "C03"])
REG.lemma("L_om_f", params=_LM, requires=["AD_post(g, S, O, r)", "no_regex(S)"],
          ensures=["forall(Dep, lambda x: missing_b(objs, r, x) == G_om_f(g, S, O, objs, x))"], properties=["C01", "C03"])
REG.lemma("L_om_r", params=_LM, requires=["AO_post(g, S, O, r)", "no_regex(O)"],
          ensures=["forall(Dep, lambda x: missing_b(objs, r, x) == G_om_r(g, S, O, objs, x))"], properties=["C01", "C03"])
REG.macro("fv_raises", ["g", "u", "b"],
          "((expl_required(b) or expl_forbidden(b)) and gd_raises(g, u._importers, u._importees)) or "
          "((other_required(b) or other_forbidden(b)) and (ad_raises(g, u._importers, u._importees) if u._importer_specified_as_rule_subject else ao_raises(g, u._importers, u._importees)))")

REG.add(Contract("RuleMatcher._create_module_name_regex_conversion_mapping", module=M_RM, kind="method",
                 params=dict(self=DRM), returns="Dict[Node,Bag[Mod]]",
                 locals=dict(result="Dict[Node,Bag[Mod]]", existing_values="Set[Mod]"),
                 loops={0: dict(sig="for (key, values) in self._conversion_mapping_importees.items()", invariant=[])},
                 note="result only consumed by the layer matcher (C05); here: total, no effect on self",
                 properties=["C01", "C05"]))
REG.add(Contract("DefaultRuleMatcher._get_rule_violation_detector", module=M_RM, kind="method",
                 params=dict(self=DRM, _="Dict[Node,Bag[Mod]]"), returns="RuleViolationDetector",
                 defn="new(RuleViolationDetector, _module_requirement=self._updated_module_requirement, _behavior_requirement=self._behavior_requirement)",
                 properties=["C01"]))
REG.add(Contract("RuleViolationBaseDetector.__init__", module=M_RVD, kind="method",
                 params=dict(self=RVD, module_requirement="ModuleRequirement", behavior_requirement="BehaviorRequirement"),
                 returns="None", modifies=["self"],
                 ensures=["self._module_requirement == module_requirement", "self._behavior_requirement == behavior_requirement"],
                 properties=["C01"]))
REG.add(Contract("RuleMatcher._find_rule_violations", module=M_RM, kind="method",
                 params=dict(self=DRM, evaluable="EvaluableArchitectureGraph"), returns="RuleViolations",
                 requires=["WF(evaluable._graph)", "no_regex(self._updated_module_requirement._importers)",
                           "no_regex(self._updated_module_requirement._importees)"],
                 raises=[("NetworkXError", "fv_raises(evaluable._graph, self._updated_module_requirement, self._behavior_requirement)")],
                 ensures=["FV_post(evaluable._graph, self._updated_module_requirement, self._behavior_requirement, result)"],
                 use_at_end=[f"{L}(evaluable._graph, self._updated_module_requirement._importers, self._updated_module_requirement._importees, self._updated_module_requirement._importer_specified_as_rule_subject, unwrap(explicitly_requested_dependencies))" for L in ("L_realised", "L_abstract")]
                 + [f"{L}(evaluable._graph, self._updated_module_requirement._importers, self._updated_module_requirement._importees, self._updated_module_requirement._importees_as_specified_by_user, unwrap(not_explicitly_requested_dependencies))" for L in ("L_or_f", "L_or_r", "L_om_f", "L_om_r")],
                 opaque=["realised_b", "abstract_b", "realised_m_b", "missing_b", "G_realised_b", "G_abstract_b", "G_or_f", "G_or_r", "G_om_f", "G_om_r"],
                 cases=["self._updated_module_requirement._importer_specified_as_rule_subject", "self._behavior_requirement.behavior_exception"],
                 properties=["C01", "C03", "C12", "C13"]))


# ---------------------------------------------------------------- conv(g, F): the converted filter set as ONE term
from .speclib import set_function
set_function("conv", dict(g="Graph", F="Bag[Filter]"), "f", "Filter", "conv_member(g, F, f)")


# ---------------------------------------------------------------- the three graph QUESTIONS (Boolean) and the verdict in terms of them
REG.define("Q_edge", dict(g="Graph", s="Filter", o="Filter"), "exists(Dep, lambda d: deps_rel_d(g, s, o, d))")
REG.define("Q_else_f", dict(g="Graph", s="Filter", O="Bag[Filter]"), "exists(Dep, lambda d: other_rel_d(g, s, O, d))")
REG.define("Q_else_r", dict(g="Graph", S="Bag[Filter]", o="Filter"), "exists(Dep, lambda d: other_rev_rel_d(g, S, o, d))")
_EP = dict(g="Graph", S="Bag[Filter]", O="Bag[Filter]", subj="Bool", objs="Bag[Filter]")
REG.lemma("E_realised", params=_EP, requires=[],
          ensures=["exists(Dep, lambda x: G_realised_b(g, S, O, subj, x)) == some_edge(g, S, O)"], properties=["C01", "C12"])
REG.lemma("E_abstract", params=_EP, requires=[],
          ensures=["exists(Dep, lambda x: G_abstract_b(g, S, O, subj, x)) == some_missing_edge(g, S, O)"], properties=["C01", "C12"])
REG.lemma("E_or_f", params=_EP, requires=[],
          ensures=["exists(Dep, lambda x: G_or_f(g, S, O, x)) == some_else_f(g, S, O)"], properties=["C01", "C12"])
REG.lemma("E_or_r", params=_EP, requires=[],
          ensures=["exists(Dep, lambda x: G_or_r(g, S, O, x)) == some_else_r(g, S, O)"], properties=["C01", "C12"])
REG.lemma("E_om_f", params=_EP, requires=[],
          ensures=["exists(Dep, lambda x: G_om_f(g, S, O, objs, x)) == (nonempty(objs) and some_missing_else_f(g, S, O))"], properties=["C01", "C12"])
REG.lemma("E_om_r", params=_EP, requires=[],
          ensures=["exists(Dep, lambda x: G_om_r(g, S, O, objs, x)) == (nonempty(objs) and some_missing_else_r(g, S, O))"], properties=["C01", "C12"])
# S/O: importers/importees, objs: objects as specified by the user, subj: importer is the rule subject
_SP = dict(g="Graph", S="Bag[Filter]", O="Bag[Filter]")
REG.define("some_edge", _SP, "exists(Filter, Filter, lambda s, o: (s in S) and (o in O) and Q_edge(g, s, o))")
REG.define("some_missing_edge", _SP, "exists(Filter, Filter, lambda s, o: (s in S) and (o in O) and not Q_edge(g, s, o))")
REG.define("some_else_f", _SP, "exists(Filter, lambda s: (s in S) and Q_else_f(g, s, O))")
REG.define("some_else_r", _SP, "exists(Filter, lambda o: (o in O) and Q_else_r(g, S, o))")
REG.define("some_missing_else_f", _SP, "exists(Filter, lambda s: (s in S) and not Q_else_f(g, s, O))")
REG.define("some_missing_else_r", _SP, "exists(Filter, lambda o: (o in O) and not Q_else_r(g, S, o))")
REG.macro("some_else", ["g", "S", "O", "subj"], "(subj and some_else_f(g, S, O)) or ((not subj) and some_else_r(g, S, O))")
REG.macro("some_missing_else", ["g", "S", "O", "subj", "objs"],
          "nonempty(objs) and ((subj and some_missing_else_f(g, S, O)) or ((not subj) and some_missing_else_r(g, S, O)))")
REG.macro("viol_Q", ["g", "u", "b"],
          "(b.should_not and (not b.behavior_exception) and some_edge(g, u._importers, u._importees)) or "
          "(b.should and (not b.behavior_exception) and some_missing_edge(g, u._importers, u._importees)) or "
          "(b.should_only and (not b.behavior_exception) and (some_missing_edge(g, u._importers, u._importees) or some_else(g, u._importers, u._importees, u._importer_specified_as_rule_subject))) or "
          "(b.should and b.behavior_exception and some_missing_else(g, u._importers, u._importees, u._importer_specified_as_rule_subject, u._importees_as_specified_by_user)) or "
          "(b.should_only and b.behavior_exception and (some_missing_else(g, u._importers, u._importees, u._importer_specified_as_rule_subject, u._importees_as_specified_by_user) or some_edge(g, u._importers, u._importees))) or "
          "(b.should_not and b.behavior_exception and some_else(g, u._importers, u._importees, u._importer_specified_as_rule_subject))")
_QOPQ = ["Q_edge", "Q_else_f", "Q_else_r", "some_edge", "some_missing_edge", "some_else_f", "some_else_r", "some_missing_else_f", "some_missing_else_r"]
_UMR = "umr_of(evaluable._graph, self._module_requirement)"
_E_USES = [f"{L}(evaluable._graph, {_UMR}._importers, {_UMR}._importees, {_UMR}._importer_specified_as_rule_subject, {_UMR}._importees_as_specified_by_user)"
           for L in ("E_realised", "E_abstract", "E_or_f", "E_or_r", "E_om_f", "E_om_r")]

# the converted requirement as a function of (graph, requirement as given by the user)
REG.macro("umr_of", ["g", "mr"],
          "new(ModuleRequirement, _importer_as_specified_by_user=conv(g, mr._importer_as_specified_by_user), "
          "_importees_as_specified_by_user=conv(g, mr._importees_as_specified_by_user), "
          "_importers=conv(g, mr._importer_as_specified_by_user if mr._importer_specified_as_rule_subject else mr._importees_as_specified_by_user), "
          "_importees=conv(g, mr._importees_as_specified_by_user if mr._importer_specified_as_rule_subject else mr._importer_as_specified_by_user), "
          "_importer_specified_as_rule_subject=mr._importer_specified_as_rule_subject)")
REG.macro("verdict_viol", ["g", "u", "b"],
          "(b.should_not and (not b.behavior_exception) and exists(Dep, lambda x: G_realised(g, u, x))) or "
          "(b.should and (not b.behavior_exception) and exists(Dep, lambda x: G_abstract_missing(g, u, x))) or "
          "(b.should_only and (not b.behavior_exception) and (exists(Dep, lambda x: G_abstract_missing(g, u, x)) or exists(Dep, lambda x: G_other_realised(g, u, x)))) or "
          "(b.should and b.behavior_exception and exists(Dep, lambda x: G_other_missing(g, u, x))) or "
          "(b.should_only and b.behavior_exception and (exists(Dep, lambda x: G_other_missing(g, u, x)) or exists(Dep, lambda x: G_realised(g, u, x)))) or "
          "(b.should_not and b.behavior_exception and exists(Dep, lambda x: G_other_realised(g, u, x)))")
REG.macro("mr_unmatched", ["g", "mr"], "regex_unmatched(g, mr._importer_as_specified_by_user) or regex_unmatched(g, mr._importees_as_specified_by_user)")
_OPQ = ["realised_b", "abstract_b", "realised_m_b", "missing_b", "G_realised_b", "G_abstract_b", "G_or_f", "G_or_r", "G_om_f", "G_om_r"]
REG.add(Contract("RuleMatcher._create_rule_violation_message", module=M_RM, kind="method", status="assumed",
                 params=dict(self=DRM, rule_violations="RuleViolations"), returns="Str",
                 note="message text: covered by C03 (record level) and its bounded text check, irrelevant for the verdict"))
REG.add(Contract("RuleMatcher.match", module=M_RM, kind="method",
                 params=dict(self=DRM, evaluable="EvaluableArchitectureGraph"), returns="None", modifies=["self"],
                 requires=["WF(evaluable._graph)"],
                 raises=[("ImpossibleMatch", "mr_unmatched(evaluable._graph, self._module_requirement)"),
                         ("NetworkXError", "(not mr_unmatched(evaluable._graph, self._module_requirement)) and fv_raises(evaluable._graph, umr_of(evaluable._graph, self._module_requirement), self._behavior_requirement)"),
                         ("AssertionError", "(not mr_unmatched(evaluable._graph, self._module_requirement)) and (not fv_raises(evaluable._graph, umr_of(evaluable._graph, self._module_requirement), self._behavior_requirement)) and viol_Q(evaluable._graph, umr_of(evaluable._graph, self._module_requirement), self._behavior_requirement)")],
                 opaque=_OPQ + _QOPQ, use_at_start=_E_USES, cases=["self._module_requirement._importer_specified_as_rule_subject"], properties=["C01", "C03", "C11", "C12", "C13", "C15"]))

# ---------------------------------------------------------------- message generator: grouping of missing-import pairs per subject (C03)
M_MG = "pytestarch.rule_assessment.error_message.message_generator"
vals.declare_obj("RuleViolationMessageGenerator", dict(_import_rule="Bool", _base_verb="Str"))
RMG = "RuleViolationMessageGenerator"
REG.add(Contract(f"{RMG}._get_violating_rule_subjects_and_objects", module=M_MG, kind="method",
                 params=dict(self=RMG, rule_violation_dependencies="Bag[Dep]"), returns="Tuple[Dict[Mod,Bag[Mod]],Set[Mod]]",
                 # C03: every 'does not import' line names ONE subject together with exactly the objects IT is missing
                 ensures=["forall(Mod, lambda s: (s in result[1]) == exists(Mod, lambda o: (s, o) in rule_violation_dependencies))",
                          "forall(Mod, lambda s: (s in result[0]) == exists(Mod, lambda o: (s, o) in rule_violation_dependencies))",
                          "forall(Mod, Mod, lambda s, o: implies(s in result[0], (o in result[0][s]) == ((s, o) in rule_violation_dependencies)))"],
                 locals=dict(violating_rule_subjects="Set[Mod]", rule_objects_for_rule_subject="DDict[Mod,Bag[Mod]]"),
                 loops={0: dict(sig="for (rule_subject, rule_object) in rule_violation_dependencies", invariant=[
                     "forall(Mod, lambda s: (s in violating_rule_subjects) == exists(Mod, lambda o: (s, o) in seen))",
                     "forall(Mod, lambda s: (s in rule_objects_for_rule_subject) == exists(Mod, lambda o: (s, o) in seen))",
                     "forall(Mod, Mod, lambda s, o: implies(s in rule_objects_for_rule_subject, (o in rule_objects_for_rule_subject[s]) == ((s, o) in seen)))"])},
                 properties=["C03"]))
