"""Contracts (string view): file_filter.py, import_filter.py, importee_module_calculator.py, graph_generator.py helpers (C08, C10)."""
import z3
from pyvc import vals
from pyvc.vals import V, vbool, vstr
from .speclib import REG, Contract
from .c_strings import _f_re_match

M_FF = "pytestarch.eval_structure_generation.file_import.file_filter"
M_IF = "pytestarch.eval_structure_generation.file_import.import_filter"
M_IMC = "pytestarch.eval_structure_generation.file_import.importee_module_calculator"
M_GG = "pytestarch.eval_structure_generation.graph_generation.graph_generator"
S = z3.StringSort()

# ---------------------------------------------------------------- Import records (AbsoluteImport / RelativeImport): importer, importee, and the
# name whose dotted ancestors are stored as 'importee parent modules' (the importee itself for absolute imports)
vals.declare_data("Imp", [("imp_importer", ("str",)), ("imp_importee", ("str",)), ("imp_hname", ("str",))])
IMP = vals.DATA["Imp"]
REG.method_family["Imp"] = "Import"
for _f in ("imp_importer", "imp_importee", "imp_hname"):
    def _mk(f):
        def fn(eng, st, i):
            return V(("str",), IMP["fields"][f][0](i.x))
        return fn
    REG.specfuns[_f] = _mk(_f)
REG.add(Contract("Import.importee", status="abstract", kind="method", params=dict(self="Imp"), returns="Str", defn="imp_importee(self)"))
REG.add(Contract("Import.importer", status="abstract", kind="method", params=dict(self="Imp"), returns="Str", defn="imp_importer(self)"))
REG.add(Contract("Import.importee_parent_modules", status="abstract", kind="method", params=dict(self="Imp"), returns="Bag[Str]",
                 ensures=["forall(Str, lambda p: (p in result) == str_anc(p, imp_hname(self)))"],
                 note="get_parent_modules of the stored name (proved: contract get_parent_modules)"))
set_parents = None
from .speclib import set_function
set_function("parents_of", dict(m="Str"), "p", "Str", "str_anc(p, m)")

# ---------------------------------------------------------------- re.match / re.compile
MT = vals.opaque_sort("Match")
_f_match_val = z3.Function("re_match_val", S, S, MT)


@REG.specfun("re_match_obj")
def _re_match_obj(eng, st, pattern, s):
    return V(("opt", ("opaque", "Match")), (z3.Not(_f_re_match(pattern.x, s.x)), V(("opaque", "Match"), _f_match_val(pattern.x, s.x))))


REG.add(Contract("re.match", status="assumed", params=dict(pattern="Str", string="Str"), returns="Opt[Opaque[Match]]", defn="re_match_obj(pattern, string)",
                 note="re.match: None iff the pattern does not match at the start of the string; the relation itself is uninterpreted"))
REG.add(Contract("re.compile", status="assumed", params=dict(pattern="Str"), returns="Str", defn="pattern",
                 note="a compiled pattern is identified with its pattern string"))

# ---------------------------------------------------------------- Config / FileFilter
vals.declare_obj("Config", dict(excluded_directories="Bag[Str]"))
vals.declare_obj("FileFilter", dict(_excluded_directories="Bag[Str]"))
REG.add(Contract("Config.__init__", status="assumed", kind="method", params=dict(self="Config", excluded_directories="Bag[Str]"), returns="None",
                 modifies=["self"], ensures=["same_elements(self.excluded_directories, excluded_directories)"], note="generated dataclass __init__"))
REG.macro("ff_excluded", ["ff", "s"], "exists(Str, lambda p: (p in ff._excluded_directories) and re_match(p, s))")
REG.add(Contract("FileFilter.__init__", module=M_FF, kind="method", view="string", params=dict(self="FileFilter", config="Config"), returns="None", modifies=["self"],
                 ensures=["same_elements(self._excluded_directories, config.excluded_directories)"], properties=["C08", "C10"]))
REG.add(Contract("FileFilter.is_excluded", module=M_FF, qualname="FileFilter.is_excluded.register(str)", kind="method", view="string",
                 params=dict(self="FileFilter", obj="Str"), returns="Bool",
                 # C08/C10: excluded iff SOME pattern matches at the start of the string
                 defn="ff_excluded(self, obj)", properties=["C08", "C10"]))
REG.add(Contract("FileFilter.has_filter", module=M_FF, kind="method", view="string", params=dict(self="FileFilter"), returns="Bool",
                 defn="nonempty(self._excluded_directories)", properties=["C08", "C10"]))

# ---------------------------------------------------------------- ExternalImportFilter
vals.declare_obj("ExternalImportFilter", dict(_exclude_external_libraries="Bool", _root_module_name="Str", _external_exclusion_filter="FileFilter"))
EIF = "ExternalImportFilter"
# "internal": the importee is the scanned module itself or lies below it (dotted boundary). The prefix handed to the filter is
# "<root>." when root_path == module_path and "<root>.<dotted path of module_path>" otherwise. The code tests a raw string prefix;
# the contract is the SANDWICH dotted-internal => result => raw-prefix, so both the current test and a dotted-boundary test satisfy it
# (observation O4: the difference has no observable effect, the graph refuses edges to non-nodes).
# (after fix F10c the root package itself -- the prefix without its trailing dot -- is internal as well: `import proj` is the same import in every configuration)
REG.macro("dotted_internal", ["P", "m"], "(P.endswith('.') and (m.startswith(P) or m + '.' == P)) or m == P or m.startswith(P + '.')")
REG.macro("raw_internal", ["P", "m"], "m.startswith(P) or m + '.' == P")
# (the set of scanned modules the converter looks names up in: the root package itself need not be part of it)
REG.macro("dotted_below", ["P", "m"], "(P.endswith('.') and m.startswith(P)) or m == P or m.startswith(P + '.')")
REG.macro("eif_internal", ["f", "i"], "ExternalImportFilter._is_internal_import(f, i)")
REG.macro("eif_dropped_external", ["f", "i"],
          "ff_excluded(f._external_exclusion_filter, imp_importee(i)) or exists(Str, lambda p: str_anc(p, imp_hname(i)) and ff_excluded(f._external_exclusion_filter, p))")
REG.add(Contract(f"{EIF}.__init__", module=M_IF, kind="method", view="string",
                 params=dict(self=EIF, exclude_external_libraries="Bool", root_module_name="Str", external_exclusions="Bag[Str]"), returns="None", modifies=["self"],
                 ensures=["self._exclude_external_libraries == exclude_external_libraries", "self._root_module_name == root_module_name",
                          "same_elements(self._external_exclusion_filter._excluded_directories, external_exclusions)"], properties=["C10"]))
REG.add(Contract(f"{EIF}._is_internal_import", module=M_IF, kind="method", view="string", params=dict(self=EIF, i="Imp"), returns="Bool",
                 ensures=["implies(dotted_internal(self._root_module_name, imp_importee(i)), result)",
                          "implies(result, raw_internal(self._root_module_name, imp_importee(i)))"], pure=True, properties=["C10", "C14"]))
REG.add(Contract(f"{EIF}._is_internal_or_retained_external_import", module=M_IF, kind="method", view="string", params=dict(self=EIF, i="Imp"), returns="Bool",
                 defn="eif_internal(self, i) or not eif_dropped_external(self, i)", properties=["C10"]))
REG.add(Contract(f"{EIF}.filter", module=M_IF, kind="method", view="string", params=dict(self=EIF, imports="Bag[Imp]"), returns="Bag[Imp]",
                 ensures=[
                     # nothing is invented
                     "forall(Imp, lambda i: implies(i in result, i in imports))",
                     # C10 frame: an import whose importee is internal is kept in EVERY configuration
                     "forall(Imp, lambda i: implies((i in imports) and eif_internal(self, i), i in result))",
                     # externals excluded: nothing external survives
                     "implies(self._exclude_external_libraries and not nonempty(self._external_exclusion_filter._excluded_directories), forall(Imp, lambda i: implies(i in result, eif_internal(self, i))))",
                     # patterns given: an external import is dropped iff the importee or one of its dotted ancestors matches a pattern
                     "implies(nonempty(self._external_exclusion_filter._excluded_directories), forall(Imp, lambda i: (i in result) == ((i in imports) and (eif_internal(self, i) or not eif_dropped_external(self, i)))))",
                     # externals included without patterns: identity
                     "implies((not self._exclude_external_libraries) and not nonempty(self._external_exclusion_filter._excluded_directories), same_elements(result, imports))",
                 ], properties=["C10"]))

# ---------------------------------------------------------------- pathlib.Path (assumed): name, str()
PT = vals.opaque_sort("Path")
_f_path_name = z3.Function("path_name", PT, S)
_f_path_str = z3.Function("path_str", PT, S)


@REG.specfun("path_name")
def _path_name(eng, st, p):
    return V(("str",), _f_path_name(p.x))


@REG.specfun("path_str")
def _path_str(eng, st, p):
    return V(("str",), _f_path_str(p.x))


REG.add(Contract("Path.name", status="assumed", kind="property", params=dict(self="Opaque[Path]"), returns="Str", defn="path_name(self)", note="pathlib: final path component"))
_prev_render = REG.render


def _render(v):
    if v.t == ("opaque", "Path"):
        return _f_path_str(v.x)
    raise __import__("pyvc.state", fromlist=["OutOfSubset"]).OutOfSubset(f"string rendering of {v.t}")


REG.render = _render

# ---------------------------------------------------------------- ImporteeModuleCalculator
vals.declare_obj("ImporteeModuleCalculator", dict(_root_path="Opaque[Path]"))
IMC = "ImporteeModuleCalculator"
REG.add(Contract(f"{IMC}.__init__", module=M_IMC, kind="method", view="string", params=dict(self=IMC, root_path="Opaque[Path]"), returns="None", modifies=["self"],
                 ensures=["self._root_path == root_path"], properties=["C10"]))
REG.add(Contract(f"{IMC}._calculate_parent_modules", module=M_IMC, kind="method", view="string", params=dict(self=IMC, imp="Imp"), returns="Set[Str]",
                 ensures=["forall(Str, lambda m: (m in result) == (m == imp_importee(imp) or str_anc(m, imp_hname(imp))))"], properties=["C10"]))
REG.macro("imc_added", ["c", "imports", "m"],
          "exists(Imp, lambda i: (i in imports) and (not (path_str(c._root_path) in imp_importee(i))) and (m == imp_importee(i) or str_anc(m, imp_hname(i))))")
REG.add(Contract(f"{IMC}.calculate_importee_modules", module=M_IMC, kind="method", view="string",
                 params=dict(self=IMC, imports="Bag[Imp]", all_modules="Bag[Str]"), returns="Bag[Str]",
                 # C10: every importee (and all its dotted ancestors) is added; nothing else; nothing is removed
                 ensures=["forall(Str, lambda m: (m in result) == ((m in all_modules) or imc_added(self, imports, m)))"],
                 locals=dict(extended_modules="Set[Str]"),
                 loops={0: dict(sig="for imp in imports", invariant=[
                     "forall(Str, lambda m: (m in extended_modules) == ((m in all_modules) or imc_added(self, seen, m)))"])},
                 properties=["C10"]))

# ---------------------------------------------------------------- graph_generator.py helpers
REG.add(Contract("_actual_difference_between_root_and_module", module=M_GG, view="string", params=dict(path_diff_between_root_and_module="Str"), returns="Bool",
                 defn="path_diff_between_root_and_module != '.'", properties=["C04", "C09", "C10"]))
REG.add(Contract("_get_internal_module_prefix", module=M_GG, view="string", params=dict(path_diff_between_root_and_module="Str", root_path="Opaque[Path]"), returns="Str",
                 # "<root>." for module_path == root_path, "<root>.<dotted relative path>" below it
                 defn="path_name(root_path) + '.' + ('' if path_diff_between_root_and_module == '.' else path_diff_between_root_and_module)",
                 properties=["C04", "C10", "C14"]))
REG.add(Contract("_get_all_internal_modules", module=M_GG, view="string", params=dict(modules="Bag[Str]", internal_module_prefix="Str"), returns="Set[Str]",
                 ensures=["forall(Str, lambda m: implies(m in result, (m in modules) and m.startswith(internal_module_prefix)))",
                          "forall(Str, lambda m: implies((m in modules) and dotted_below(internal_module_prefix, m), m in result))"],
                 pure=True, properties=["C04", "C10", "C14"], note="sandwich as for _is_internal_import: a dotted-boundary test satisfies it as well; pure: a set comprehension, "
                 "one function of its arguments (lets the composition contract of generate_graph name the set)"))
REG.add(Contract("_remove_excluded_imports", module=M_GG, view="string",
                 params=dict(exclude_external_libraries="Bool", imports="Bag[Imp]", internal_module_prefix="Str", external_exclusions="Bag[Str]"), returns="Bag[Imp]",
                 ensures=["forall(Imp, lambda i: implies(i in result, i in imports))",
                          # C10 frame at the pipeline stage: internal imports survive every external option
                          "forall(Imp, lambda i: implies((i in imports) and dotted_internal(internal_module_prefix, imp_importee(i)), i in result))",
                          "implies(exclude_external_libraries and not nonempty(external_exclusions), forall(Imp, lambda i: implies(i in result, raw_internal(internal_module_prefix, imp_importee(i)))))",
                          "implies((not exclude_external_libraries) and not nonempty(external_exclusions), same_elements(result, imports))"],
                 properties=["C10"]))
REG.macro("ext_pat_excluded", ["pats", "s"], "exists(Str, lambda p: (p in pats) and re_match(p, s))")
REG.macro("gg_added", ["root_path", "imports", "m"],
          "exists(Imp, lambda i: (i in imports) and (not (path_str(root_path) in imp_importee(i))) and (m == imp_importee(i) or str_anc(m, imp_hname(i))))")
REG.add(Contract("_append_external_modules_to_module_list", module=M_GG, view="string",
                 params=dict(all_modules="Bag[Str]", exclude_external_libraries="Bool", imports="Bag[Imp]", root_path="Opaque[Path]", external_exclusions="Bag[Str]"),
                 returns="Bag[Str]",
                 ensures=["implies(exclude_external_libraries, same_elements(result, all_modules))",
                          # C10 frame: no external option ever removes a scanned (internal) module
                          "forall(Str, lambda m: implies(m in all_modules, m in result))",
                          # externals: exactly the importees and their dotted ancestors, minus those matching an external exclusion pattern
                          "implies(not exclude_external_libraries, forall(Str, lambda m: implies(not (m in all_modules), (m in result) == (gg_added(root_path, imports, m) and not ext_pat_excluded(external_exclusions, m)))))"],
                 locals=dict(internal_modules="Set[Str]"), properties=["C10"]))
