"""Contracts (string view): NetworkxGraph.draw and EvaluableArchitectureGraph.visualize -- the keyword hand-off to the drawing back end (C17).

The keyword arguments are a dict from names to values of an opaque sort KwVal (a Python object of any type). Two of them are read by draw():
'spacing' (handed to spring_layout) and 'aliases' (a dict[str, str], see draw's docstring). A KwVal that IS a dict[str, str] is viewed as one by the
abstraction any_strdict; storing a dict[str, str] as a KwVal (kwargs['labels'] = labels) and viewing it again gives the same dict (schema KwDictRoundTrip, used as a ground instance for the label map).

Ghost state: what the back end receives is observable only at its call. The assumed contract of draw_networkx RECORDS the call (graph, keyword dict, number
of calls) in the ghost log `ghost_draw`; draw()'s postcondition is a statement about that log. Likewise AbstractGraph.draw records into `ghost_vis` for visualize()."""
import z3
from pyvc import vals
from pyvc.vals import V, vbool
from .speclib import REG, Contract
from . import c_networkx, c_rules  # noqa  (NetworkxGraph, DiGraph, label_ok, EvaluableArchitectureGraph)

M_NX = "pytestarch.eval_structure.networkxgraph"
M_EG = "pytestarch.eval_structure.evaluable_graph"
S = z3.StringSort()
KW = vals.opaque_sort("KwVal")
KWT = ("opaque", "KwVal")
SD = ("dict", ("str",), ("str",))
_dom_s, _val_s = z3.ArraySort(S, z3.BoolSort()), z3.ArraySort(S, S)
_f_sd_dom = z3.Function("kw_strdict_dom", KW, _dom_s)
_f_sd_val = z3.Function("kw_strdict_val", KW, _val_s)
_f_sd_any = z3.Function("kw_of_strdict", _dom_s, _val_s, KW)
REG.specfuns["any_strdict"] = lambda eng, st, a: V(SD, (_f_sd_dom(a.x), _f_sd_val(a.x)))


def _kw_casts(v, t):
    """The dynamic type of a keyword value: a KwVal where a dict[str, str] is expected (aliases) is viewed through any_strdict; a dict[str, str] stored where a
    KwVal is expected (labels) is wrapped."""
    if v.t == KWT and t == SD:
        return V(SD, (_f_sd_dom(v.x), _f_sd_val(v.x)))
    if v.t == SD and t == KWT and v.x is not None:
        return V(KWT, _f_sd_any(v.x[0], v.x[1]))
    return None


vals.COERCE_HOOKS.append(_kw_casts)


@REG.specfun("KwDictRoundTrip", schema=True)
def _kw_round_trip(eng, st, d):
    """Schema (trusted), one ground instance per use: the dict[str, str] d stored as a keyword value and read back is the same dict (object identity).
    (Ground instances instead of one quantified axiom keep the hypotheses quantifier-free, so that a violated obligation is refuted with a model.)"""
    app = _f_sd_any(d.x[0], d.x[1])
    return vbool(z3.And(_f_sd_dom(app) == d.x[0], _f_sd_val(app) == d.x[1]))


_f_mpl = z3.Const("matplotlib_available", z3.BoolSort())
_f_spring = z3.Function("spring_pos", *[t.sort() for t in REG.flatten(vals.fresh(("obj", "DiGraph"), "g"))], KW, z3.IntSort(), KW)
REG.specfuns["matplotlib_available"] = lambda eng, st: vbool(_f_mpl)
REG.specfuns["spring_pos"] = lambda eng, st, g, k, it: V(KWT, _f_spring(*REG.flatten(g), k.x, it.x))
REG.exc_bases["ImportError"] = ["Exception"]
KWD = "Dict[Str,Opaque[KwVal]]"
vals.declare_obj("DrawLog", dict(calls="Int", graph="DiGraph", kwargs=KWD))
vals.declare_obj("VisLog", dict(calls="Int", graph="Graph", kwargs=KWD))

REG.add(Contract("import:matplotlib", status="assumed", params={}, returns="None", raises=[("ImportError", "not matplotlib_available()")],
                 note="`import matplotlib` raises ImportError iff the optional dependency is not installed (one fixed fact of the environment)"))
REG.add(Contract("spring_layout", status="assumed", params=dict(G="DiGraph", k="Opaque[KwVal]", iterations="Int"), returns="Opaque[KwVal]",
                 defn="spring_pos(G, k, iterations)", note="networkx.spring_layout: the positions are some function of the graph, the spacing k and the iteration count"))
REG.add(Contract("draw_networkx", status="assumed", params=dict(G="DiGraph", kwds=KWD, ghost_draw="DrawLog"), returns="None", modifies=["ghost_draw"],
                 opts=("star_kwargs:kwds",),
                 ensures=["ghost_draw.calls == old(ghost_draw).calls + 1", "ghost_draw.graph == G", "ghost_draw.kwargs == kwds"],
                 note="networkx.draw_networkx(G, **kwds): only RECORDS the call in the ghost log (graph, keyword dict, call count); nothing is claimed about the picture"))

NG = "NetworkxGraph"
REG.macro("kw_aliases", ["kw"], "any_strdict(kw['aliases'])")
REG.add(Contract(f"{NG}.draw", module=M_NX, kind="method", view="string", params=dict(self=NG, kwargs=KWD, ghost_draw="DrawLog"), returns="None",
                 modifies=["kwargs", "ghost_draw"], opts=("star_kwargs:kwargs",), use_at_end=["KwDictRoundTrip(labels)"],
                 raises=[("Exception", "not matplotlib_available()"),
                         # C17: an alias given for a module that does not exist is rejected (KeyError naming it: _assert_aliased_modules_exist)
                         ("KeyError", "matplotlib_available() and ('aliases' in kwargs) and exists(Str, lambda a: (a in kw_aliases(kwargs)) and not dg_node(self._graph, a))")],
                 # nothing is drawn when the request is rejected
                 ensures_on_raise=["ghost_draw.calls == old(ghost_draw).calls"],
                 ensures=[
                     # the back end is called exactly once, with this graph
                     "ghost_draw.calls == old(ghost_draw).calls + 1", "ghost_draw.graph == self._graph",
                     # C17: every OTHER keyword is passed through unchanged (same keys, same values)
                     "forall(Str, lambda k: implies(k != 'spacing' and k != 'aliases' and k != 'pos' and k != 'labels', "
                     "((k in ghost_draw.kwargs) == (k in old(kwargs))) and implies(k in old(kwargs), ghost_draw.kwargs[k] == old(kwargs)[k])))",
                     # neither of the two options of draw() itself reaches the back end
                     "not ('spacing' in ghost_draw.kwargs)", "not ('aliases' in ghost_draw.kwargs)",
                     # 'spacing' becomes pos = spring_layout(graph, k=spacing, iterations=20); without it a caller's own 'pos' is passed through
                     "('pos' in ghost_draw.kwargs) == (('spacing' in old(kwargs)) or ('pos' in old(kwargs)))",
                     "implies('spacing' in old(kwargs), ghost_draw.kwargs['pos'] == spring_pos(self._graph, old(kwargs)['spacing'], 20))",
                     "implies((not ('spacing' in old(kwargs))) and ('pos' in old(kwargs)), ghost_draw.kwargs['pos'] == old(kwargs)['pos'])",
                     # 'aliases' becomes labels = the label map of the property (every module of the graph labelled exactly once, label_ok); independent of 'spacing'
                     "('labels' in ghost_draw.kwargs) == (('aliases' in old(kwargs)) or ('labels' in old(kwargs)))",
                     "implies('aliases' in old(kwargs), forall(Str, lambda m: (m in any_strdict(ghost_draw.kwargs['labels'])) == dg_node(self._graph, m)))",
                     "implies('aliases' in old(kwargs), forall(Str, lambda m: implies(dg_node(self._graph, m), "
                     "label_ok(kw_aliases(old(kwargs)), m, any_strdict(ghost_draw.kwargs['labels'])[m]))))",
                     "implies((not ('aliases' in old(kwargs))) and ('labels' in old(kwargs)), ghost_draw.kwargs['labels'] == old(kwargs)['labels'])",
                 ],
                 opaque=["label_ok"],
                 note="input validity (docstring): kwargs['aliases'], when given, is a dict[str, str]; the **kwargs dict is draw()'s own copy (its mutation is not visible to callers)",
                 properties=["C17"]))

# ---------------------------------------------------------------- EvaluableArchitectureGraph.visualize: pure pass-through to the graph's draw()
REG.add(Contract("AbstractGraph.draw", status="abstract", kind="method", params=dict(self="Graph", kwargs=KWD, ghost_vis="VisLog"), returns="None",
                 modifies=["ghost_vis"], opts=("star_kwargs:kwargs",),
                 ensures=["ghost_vis.calls == old(ghost_vis).calls + 1", "ghost_vis.graph == self", "ghost_vis.kwargs == kwargs"],
                 note="interface method: RECORDS the call (which graph, which keyword dict); what NetworkxGraph.draw does with it is the contract NetworkxGraph.draw (linked by name)"))
EG = "EvaluableArchitectureGraph"
REG.add(Contract(f"{EG}.visualize", module=M_EG, kind="method", params=dict(self=EG, kwargs=KWD, ghost_vis="VisLog"), returns="None",
                 modifies=["ghost_vis"], opts=("star_kwargs:kwargs",),
                 # C17: visualize(**kwargs) is exactly one call graph.draw(**kwargs) on the architecture's own graph, every keyword unchanged
                 ensures=["ghost_vis.calls == old(ghost_vis).calls + 1", "ghost_vis.graph == self._graph",
                          "forall(Str, lambda k: ((k in ghost_vis.kwargs) == (k in kwargs)) and implies(k in kwargs, ghost_vis.kwargs[k] == kwargs[k]))"],
                 properties=["C17"]))
