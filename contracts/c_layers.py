"""Contracts: query_language/layered_architecture_rule.py -- the LayerRule builder's ordering guards (C13, C16).

The layer rule delegates to an inner Rule (contracts in c_rule_builder.py). Under contract here: based_on and every verb / access method:
each raises ImproperlyConfigured exactly when `layers_that` has not been called (the inner rule is None) and otherwise performs exactly the
inner Rule's builder step. layers_that / are_named / LayeredArchitecture (functools.partial, len() of pending layers) are covered by the bounded C16 stand-in."""
from pyvc import vals
from .speclib import REG, Contract

M_LA = "pytestarch.query_language.layered_architecture_rule"
vals.declare_obj("LayerRule", dict(_rule="Opt[Rule]", _architecture="Opt[Opaque[LayeredArchitecture]]", _rule_matcher_class="Opaque[MatcherClass]"))
LR = "LayerRule"
_UNCH = ["self._architecture == old(self)._architecture", "self._rule_matcher_class == old(self)._rule_matcher_class"]
REG.add(Contract(f"{LR}.based_on", module=M_LA, kind="method", params=dict(self=LR, architecture="Opaque[LayeredArchitecture]"), returns=LR, modifies=["self"],
                 # C16: a layer rule is based on exactly one architecture
                 raises=[("ImproperlyConfigured", "not is_none(self._architecture)")],
                 ensures=["self._architecture == architecture", "self._rule == old(self)._rule", "self._rule_matcher_class == old(self)._rule_matcher_class", "result == self"],
                 properties=["C13", "C16"]))


def _cfg_fields():
    return list(vals.OBJ_LAYOUT["RuleConfiguration"])


def _delegation(meth, changes):
    """changes: {configuration field: value} set by the inner Rule's method; everything else unchanged."""
    ens = ["not is_none(self._rule)", "result == self"] + _UNCH
    ens.append("unwrap(self._rule)._rule_matcher_class == unwrap(old(self)._rule)._rule_matcher_class")
    for f in _cfg_fields():
        if f in changes:
            ens.append(f"unwrap(self._rule)._configuration.{f} == {changes[f]}")
        else:
            ens.append(f"unwrap(self._rule)._configuration.{f} == unwrap(old(self)._rule)._configuration.{f}")
    if "_next" in changes:
        ens.append(f"unwrap(self._rule)._modules_to_check_to_be_specified_next == {changes['_next']}")
    else:
        ens.append("unwrap(self._rule)._modules_to_check_to_be_specified_next == unwrap(old(self)._rule)._modules_to_check_to_be_specified_next")
    return Contract(f"{LR}.{meth}", module=M_LA, kind="method", params=dict(self=LR), returns=LR, modifies=["self"],
                    # C13 / C16: every specification step needs `layers_that` first
                    raises=[("ImproperlyConfigured", "is_none(self._rule)")], ensures=ens, properties=["C13", "C16"])


for _verb in ("should", "should_only", "should_not"):
    REG.add(_delegation(_verb, {_verb: "True"}))
REG.add(_delegation("access_layers_that", {"import_": "True", "_next": "False"}))
REG.add(_delegation("be_accessed_by_layers_that", {"import_": "False", "_next": "False"}))
REG.add(_delegation("access_layers_except_layers_that", {"import_": "True", "except_present": "True", "_next": "False"}))
REG.add(_delegation("be_accessed_by_layers_except_layers_that", {"import_": "False", "except_present": "True", "_next": "False"}))
REG.add(_delegation("access_any_layer", {"import_": "True", "rule_object_anything": "True", "_next": "False"}))
REG.add(_delegation("be_accessed_by_any_layer", {"import_": "False", "rule_object_anything": "True", "_next": "False"}))
