"""Contracts: query_language/layered_architecture_rule.py -- the LayerRule builder's ordering guards (C13, C16).

The layer rule delegates to an inner Rule (contracts in c_rule_builder.py). Under contract here: based_on and every verb / access method:
each raises ImproperlyConfigured exactly when `layers_that` has not been called (the inner rule is None) and otherwise performs exactly the
inner Rule's builder step. layers_that / are_named / LayeredArchitecture (functools.partial, len() of pending layers) are covered by the bounded C16 stand-in."""
from pyvc import vals
from .speclib import REG, Contract

M_LA = "pytestarch.query_language.layered_architecture_rule"
vals.declare_obj("LayeredArchitecture", dict(_modules_by_layer_name="Dict[Str,Bag[Filter]]"))
vals.declare_obj("LayerRule", dict(_rule="Opt[Rule]", _architecture="Opt[LayeredArchitecture]", _rule_matcher_class="Opaque[Class]"))
LR = "LayerRule"
_UNCH = ["self._architecture == old(self)._architecture", "self._rule_matcher_class == old(self)._rule_matcher_class"]
REG.add(Contract(f"{LR}.based_on", module=M_LA, kind="method", params=dict(self=LR, architecture="LayeredArchitecture"), returns=LR, modifies=["self"],
                 # C16: a layer rule is based on exactly one architecture
                 raises=[("ImproperlyConfigured", "not is_none(self._architecture)")],
                 ensures=["self._architecture == architecture", "self._rule == old(self)._rule", "self._rule_matcher_class == old(self)._rule_matcher_class", "result == self"],
                 properties=["C13", "C16"]))


def _cfg_fields():
    return list(vals.OBJ_LAYOUT["RuleConfiguration"])


def _delegation(meth, changes):
    """changes: {configuration field: value} set by the inner Rule's method; everything else unchanged."""
    ens = ["not is_none(self._rule)", "result == self"] + _UNCH
    ens.append("unwrap(self._rule)._rule_matcher_class == unwrap(old(self)._rule)._rule_matcher_class")
    for f in _cfg_fields():
        if f in changes:
            ens.append(f"unwrap(self._rule)._configuration.{f} == {changes[f]}")
        else:
            ens.append(f"unwrap(self._rule)._configuration.{f} == unwrap(old(self)._rule)._configuration.{f}")
    if "_next" in changes:
        ens.append(f"unwrap(self._rule)._modules_to_check_to_be_specified_next == {changes['_next']}")
    else:
        ens.append("unwrap(self._rule)._modules_to_check_to_be_specified_next == unwrap(old(self)._rule)._modules_to_check_to_be_specified_next")
    return Contract(f"{LR}.{meth}", module=M_LA, kind="method", params=dict(self=LR), returns=LR, modifies=["self"],
                    # C13 / C16: every specification step needs `layers_that` first
                    raises=[("ImproperlyConfigured", "is_none(self._rule)")], ensures=ens, properties=["C13", "C16"])


for _verb in ("should", "should_only", "should_not"):
    REG.add(_delegation(_verb, {_verb: "True"}))
REG.add(_delegation("access_layers_that", {"import_": "True", "_next": "False"}))
REG.add(_delegation("be_accessed_by_layers_that", {"import_": "False", "_next": "False"}))
REG.add(_delegation("access_layers_except_layers_that", {"import_": "True", "except_present": "True", "_next": "False"}))
REG.add(_delegation("be_accessed_by_layers_except_layers_that", {"import_": "False", "except_present": "True", "_next": "False"}))
REG.add(_delegation("access_any_layer", {"import_": "True", "rule_object_anything": "True", "_next": "False"}))
REG.add(_delegation("be_accessed_by_any_layer", {"import_": "False", "rule_object_anything": "True", "_next": "False"}))

# ---------------------------------------------------------------- LayerRuleViolationDetector (C05): same-layer pairs never count
import z3
from pyvc.vals import V, vbool
M_LD = "pytestarch.rule_assessment.rule_check.layer_rule_violation_detector"
M_EA2 = "pytestarch.eval_structure.evaluable_architecture"
vals.declare_obj("LayerRuleViolationDetector", dict(_module_requirement="ModuleRequirement", _behavior_requirement="BehaviorRequirement",
                                                    _layer_to_module_mapping="Opaque[LayerMapping]"))
LD = "LayerRuleViolationDetector"
# modelling device: the layer detector's record extends the module detector's (same two requirement fields), so the base-class contracts apply to it
REG.class_bases["LayerRuleViolationDetector"] = ["RuleViolationDetector"]
# layer names in the detector's proofs: an uninterpreted sort (the detector only compares / hashes them; in the string view they are str)
vals.TYPE_ALIASES["LayerName"] = ("str",) if vals.STRING_MODE else ("opaque", "LayerName")   # (the message generator of layer rules is verified in the string view: c_messages.py)
REG.add(Contract("LayerMapping.get_layer_for_module_name", module=M_EA2, kind="method", status="bounded", pure=True,
                 params=dict(self="Opaque[LayerMapping]", module_name="Node"), returns="Opt[LayerName]",
                 note="in the layer detector's proofs (names uninterpreted) the lookup is ONE uninterpreted function layer_of(mapping, name); what that function is -- the layer "
                      "listing the module or a DOTTED ancestor of it -- is proved separately on the real code in the string view (contracts/c_layermap.py: "
                      "LayerMapping.get_layer_for_module_name@str, __init__, _get_layer, _get_layer_or_none); the link between the two views is by name, not by proof"))
REG.macro("layer_of", ["L", "n"], "LayerMapping.get_layer_for_module_name(L, n)")
REG.macro("cross_layer", ["L", "x"], "layer_of(L, mid(x[0])) != layer_of(L, mid(x[1]))")
_ld_inner = dict(sig="for dependency in violating_dependencies", invariant=[
    "forall(Dep, lambda x: (x in violating_dependencies_in_different_layers) == ((x in seen) and cross_layer(self._layer_to_module_mapping, x)))"])
c1 = REG.add(Contract(f"{LD}._get_realised_dependencies", module=M_LD, kind="method",
                      params=dict(self=LD, explicitly_requested_dependencies="Dict[Dep,Bag[Dep]]"), returns="Set[Dep]",
                      # C05: imports between modules of the same layer never count
                      ensures=["forall(Dep, lambda x: (x in result) == (realised_rel(self._module_requirement, explicitly_requested_dependencies, x) and cross_layer(self._layer_to_module_mapping, x)))"],
                      locals=dict(violating_dependencies="Set[Dep]", violating_dependencies_in_different_layers="Set[Dep]"),
                      loops={0: _ld_inner}, properties=["C05"]))
c1.alt = REG.add(Contract(f"{LD}._get_realised_dependencies@mod", module=M_LD, qualname=f"{LD}._get_realised_dependencies", kind="method",
                          params=dict(self=LD, explicitly_requested_dependencies="Dict[Mod,Bag[Dep]]"), returns="Set[Dep]",
                          ensures=["forall(Dep, lambda x: (x in result) == (realised_rel_m(self._module_requirement, explicitly_requested_dependencies, x) and cross_layer(self._layer_to_module_mapping, x)))"],
                          locals=dict(violating_dependencies="Set[Dep]", violating_dependencies_in_different_layers="Set[Dep]"),
                          loops={0: _ld_inner}, properties=["C05"]))
REG.add(Contract(f"{LD}._append_missing_dependencies", module=M_LD, kind="method",
                 params=dict(self=LD, not_explicitly_requested_dependencies="Dict[Mod,Bag[Dep]]"), returns="Bag[Dep]",
                 ensures=["forall(Dep, lambda y: (y in result) == exists(Mod, Filter, lambda m, o: (m in not_explicitly_requested_dependencies) and "
                          "(o in self._module_requirement._importees_as_specified_by_user) and y == ((m, f2m(o)) if self._module_requirement._importer_specified_as_rule_subject else (f2m(o), m))))"],
                 locals=dict(dependencies="Bag[Dep]"), cases=["self._module_requirement._importer_specified_as_rule_subject"],
                 loops={
                     0: dict(sig="for module_with_missing_dependencies in not_explicitly_requested_dependencies.keys()", invariant=[
                         "forall(Dep, lambda y: (y in dependencies) == exists(Mod, Filter, lambda m, o: (m in seen) and (o in self._module_requirement._importees_as_specified_by_user) and "
                         "y == ((m, f2m(o)) if self._module_requirement._importer_specified_as_rule_subject else (f2m(o), m))))"]),
                     1: dict(sig="for other_module in self._get_importee_modules_as_specified_by_user()", invariant=[
                         "forall(Dep, lambda y: (y in dependencies) == ((y in pre(dependencies)) or exists(Mod, lambda om: (om in seen) and y == (module_with_missing_dependencies, om))))"]),
                     2: dict(sig="for other_module in self._get_importee_modules_as_specified_by_user()", invariant=[
                         "forall(Dep, lambda y: (y in dependencies) == ((y in pre(dependencies)) or exists(Mod, lambda om: (om in seen) and y == (om, module_with_missing_dependencies))))"]),
                 }, properties=["C05"]))
REG.add(Contract(f"{LD}._get_any_missing_dependencies_in_user_specified_order", module=M_LD, kind="method",
                 params=dict(self=LD, not_explicitly_requested_dependencies="Dict[Mod,Bag[Dep]]"), returns="Set[Dep]",
                 # C05: the required access to 'something else' is satisfied ONLY by an import that leaves the layer (an intra-layer import never counts)
                 ensures=[# exact (both inclusions): one (subject module, user-specified object) pair per key, in user order, iff no reported import leaves the layer
                          "forall(Dep, lambda x: (x in result) == layer_missing_rel(self._module_requirement, self._layer_to_module_mapping, not_explicitly_requested_dependencies, x))"],
                 locals=dict(dependencies="Bag[Dep]"), cases=["self._module_requirement._importer_specified_as_rule_subject"], properties=["C05"]))
for _name, _K, _rel in (("_should_not_requirement_violations", "Dep", "realised_rel"), ("_should_only_requirement_violations_by_not_explicitly_requested_dependency", "Mod", "realised_rel_m"),
                        ("_should_only_except_requirement_violations_due_to_explicit_dependency_present", "Dep", "realised_rel"), ("_should_not_except_requirement_violations", "Mod", "realised_rel_m")):
    from pyvc import extract as _ex
    _fn = _ex.module(M_LD).function(f"{LD}.{_name}")
    _an = [a.arg for a in _fn.args.args] if _fn is not None else ["self", "flag", "deps"]
    REG.add(Contract(f"{LD}.{_name}", module=M_LD, kind="method", params={_an[0]: LD, _an[1]: "Bool", _an[2]: f"Opt[Dict[{_K},Bag[Dep]]]"}, returns="Set[Dep]",
                     # forbidden-import buckets: exactly the reported pairs that cross a layer boundary
                     ensures=[f"forall(Dep, lambda x: (x in result) == ({_an[1]} and (not is_none({_an[2]})) and {_rel}(self._module_requirement, unwrap({_an[2]}), x) and cross_layer(self._layer_to_module_mapping, x)))"],
                     properties=["C05"]))

# ---------------------------------------------------------------- LayeredArchitecture (C16), string view
LA = "LayeredArchitecture"
# class invariant: at most one layer is waiting for its modules (an empty list marks the layer currently being defined)
REG.macro("la_pending", ["a", "l"], "(l in a._modules_by_layer_name) and not nonempty(a._modules_by_layer_name[l])")
REG.macro("la_inv", ["a"], "forall(Str, Str, lambda l1, l2: implies(la_pending(a, l1) and la_pending(a, l2), l1 == l2))")
REG.macro("la_assigned", ["a", "n"], "exists(Str, Filter, lambda l, f: (l in a._modules_by_layer_name) and (f in a._modules_by_layer_name[l]) and fid(f) == n)")
REG.macro("la_others_unchanged", ["a", "b", "l"],
          "forall(Str, lambda k: implies(k != l, ((k in b._modules_by_layer_name) == (k in a._modules_by_layer_name)) and "
          "implies(k in a._modules_by_layer_name, same_elements(b._modules_by_layer_name[k], a._modules_by_layer_name[k]))))")
REG.add(Contract(f"{LA}._get_layers_without_modules", module=M_LA, kind="method", view="string", params=dict(self=LA), returns="Bag[Str]",
                 ensures=["forall(Str, lambda l: (l in result) == la_pending(self, l))"], returns_nodup=True, properties=["C16"]))
REG.add(Contract(f"{LA}.with_layer", module=M_LA, kind="method", view="string", params=dict(self=LA), returns=LA, ensures=["result == self"], properties=["C16"]))
REG.add(Contract(f"{LA}.layer", module=M_LA, kind="method", view="string", params=dict(self=LA, name="Str"), returns=LA, modifies=["self"],
                 requires=["la_inv(self)"],
                 # C16: a layer must receive its modules before the next layer is opened; a layer name can be defined once
                 raises=[("ImproperlyConfigured", "exists(Str, lambda l: la_pending(self, l)) or (name in self._modules_by_layer_name)")],
                 ensures=["name in self._modules_by_layer_name", "not nonempty(self._modules_by_layer_name[name])", "la_others_unchanged(old(self), self, name)", "la_inv(self)", "result == self"],
                 properties=["C16", "C13"]))
REG.add(Contract(f"{LA}._to_module_objects", module=M_LA, kind="method", view="string", params=dict(self=LA, modules="Bag[Str]"), returns="Bag[Filter]",
                 ensures=["forall(Filter, lambda f: (f in result) == exists(Str, lambda n: (n in modules) and f == mk_filter_name(n)))"], properties=["C16"]))
REG.add(Contract(f"{LA}._from_regex_to_module_objects", module=M_LA, kind="method", view="string", params=dict(self=LA, regex="Str"), returns="Bag[Filter]",
                 ensures=["forall(Filter, lambda f: (f in result) == (f == mk_filter_regex(regex)))"], properties=["C16"]))
for _variant, _ptype, _names in (("", "Str", "n == modules"), ("@list", "Bag[Str]", "n in modules")):
    REG.add(Contract(f"{LA}.containing_modules{_variant}", module=M_LA, qualname=f"{LA}.containing_modules", kind="method", view="string",
                     params=dict(self=LA, modules=_ptype), returns=LA, modifies=["self"], requires=["la_inv(self)"],
                     # C16: a module name can be assigned to at most one layer, whether it is passed as a string or inside a list; modules need an open layer
                     raises=[("ImproperlyConfigured", f"(not exists(Str, lambda l: la_pending(self, l))) or exists(Str, lambda n: ({_names}) and la_assigned(self, n))")],
                     ensures=["forall(Str, lambda l: implies(la_pending(old(self), l), (l in self._modules_by_layer_name) and "
                              f"forall(Filter, lambda f: (f in self._modules_by_layer_name[l]) == exists(Str, lambda n: ({_names}) and f == mk_filter_name(n))) and la_others_unchanged(old(self), self, l)))",
                              "la_inv(self)", "result == self"],
                     locals=dict(modules_list="Bag[Str]", layers_without_modules="Bag[Str]"),
                     ghost_asserts=(["not (modules in existing_modules)"] if _ptype == "Str" else []), properties=["C16", "C13"]))
REG.contracts[f"{LA}.containing_modules"].alt = REG.contracts[f"{LA}.containing_modules@list"]
REG.add(Contract(f"{LA}.have_modules_with_names_matching", module=M_LA, kind="method", view="string", params=dict(self=LA, regex="Str"), returns=LA, modifies=["self"],
                 requires=["la_inv(self)"],
                 raises=[("ImproperlyConfigured", "not exists(Str, lambda l: la_pending(self, l))")],
                 ensures=["forall(Str, lambda l: implies(la_pending(old(self), l), (l in self._modules_by_layer_name) and "
                          "forall(Filter, lambda f: (f in self._modules_by_layer_name[l]) == (f == mk_filter_regex(regex))) and la_others_unchanged(old(self), self, l)))",
                          "la_inv(self)", "result == self"],
                 locals=dict(layers_without_modules="Bag[Str]"), properties=["C16", "C13"]))
REG.add(Contract(f"{LA}.__init__", module=M_LA, kind="method", view="string", params=dict(self=LA), returns="None", modifies=["self"],
                 ensures=["not nonempty(self._modules_by_layer_name)", "la_inv(self)"], properties=["C16"],
                 note="establishes the class invariant la_inv, which every mutating method requires and re-establishes: it holds after every finite call sequence"))


# ---------------------------------------------------------------- LayerRule: layers_that / are_named (C13, C16)
REG.add(Contract(f"{LA}.__getitem__", module=M_LA, kind="method", params=dict(self=LA, layer="Str"), returns="Bag[Filter]",
                 # C13: a layer that was never defined is a lookup error
                 raises=[("KeyError", "not (layer in self._modules_by_layer_name)")], defn="self._modules_by_layer_name[layer]", properties=["C13", "C16"]))
REG.add(Contract(f"{LA}.layer_mapping", module=M_LA, kind="property", status="bounded", params=dict(self=LA), returns="Opaque[LayerMapping]",
                 note="LayerMapping(self._modules_by_layer_name): construction and lookup are covered by the bounded C05 / C14 stand-ins"))
REG.add(Contract("partial", status="assumed", params=dict(func="Opaque[Class]", layer_mapping="Opaque[LayerMapping]"), returns="Opaque[Class]",
                 note="functools.partial(matcher class, layer_mapping=...): the matcher class the inner Rule instantiates"))
REG.add(Contract("Rule._add_modules", module="pytestarch.query_language.rule", kind="method",
                 params=dict(self="Rule", modules="Bag[Tuple[Node,Bool]]"), returns="Rule", modifies=["self"],
                 ensures=["result == self", "self._rule_matcher_class == old(self)._rule_matcher_class",
                          "self._modules_to_check_to_be_specified_next == old(self)._modules_to_check_to_be_specified_next",
                          # appended to the side that is being specified: one name filter / regex filter per (identifier, is_regex) pair
                          "implies(unwrap(old(self)._modules_to_check_to_be_specified_next), (not is_none(self._configuration.modules_to_check)) and "
                          "forall(Filter, lambda f: (f in unwrap(self._configuration.modules_to_check)) == (((not is_none(old(self)._configuration.modules_to_check)) and (f in unwrap(old(self)._configuration.modules_to_check))) or "
                          "exists(Node, Bool, lambda n, r: ((n, r) in modules) and f == (mk_filter_regex(n) if r else mk_filter_name(n))))) and "
                          "self._configuration.modules_to_check_against == old(self)._configuration.modules_to_check_against)",
                          "implies(not unwrap(old(self)._modules_to_check_to_be_specified_next), (not is_none(self._configuration.modules_to_check_against)) and "
                          "forall(Filter, lambda f: (f in unwrap(self._configuration.modules_to_check_against)) == (((not is_none(old(self)._configuration.modules_to_check_against)) and (f in unwrap(old(self)._configuration.modules_to_check_against))) or "
                          "exists(Node, Bool, lambda n, r: ((n, r) in modules) and f == (mk_filter_regex(n) if r else mk_filter_name(n))))) and "
                          "self._configuration.modules_to_check == old(self)._configuration.modules_to_check)"]
                 + [f"self._configuration.{f} == old(self)._configuration.{f}" for f in _cfg_fields() if f not in ("modules_to_check", "modules_to_check_against")],
                 requires=["not is_none(self._modules_to_check_to_be_specified_next)"],
                 # the two parallel lists: position i holds the i-th processed module's name and a closure that captured ITS regex flag as a default argument
                 locals=dict(module_names="ASeq[Node]", module_creation_fn="ASeq[Lam[Bool]]"),
                 loops={0: dict(sig="for (module, name_is_regex) in modules", invariant=[
                     "len(module_names) == len(module_creation_fn)", "0 <= len(module_names)",
                     "forall(Int, lambda i: implies(0 <= i and i < len(module_names), (module_names[i], lam_cap0(module_creation_fn[i])) in seen))",
                     "forall(Node, Bool, lambda n, r: implies((n, r) in seen, exists(Int, lambda i: 0 <= i and i < len(module_names) and module_names[i] == n and lam_cap0(module_creation_fn[i]) == r)))"])},
                 properties=["C05", "C16", "C11", "C13"],
                 note="list of closures (late binding was defect F05b): each closure is a Lam[Bool] value carrying its captured default; free variables of the lambda body are read "
                      "from the defining frame at application time, so a late-binding rewrite is REFUTED, not refused. Rule._append_modules is inlined (it applies the closures)."))
REG.add(Contract("Rule._append_modules", module="pytestarch.query_language.rule", kind="method", inline=True,
                 params=dict(self="Rule", module_names="ASeq[Node]", create_module_fns="ASeq[Lam[Bool]]"), locals=dict(modules="Bag[Filter]"),
                 properties=["C05", "C16"]))

REG.add(Contract(f"{LR}._listify", module=M_LA, kind="classmethod", params=dict(layers="Str"), returns="Bag[Str]",
                 ensures=["forall(Str, lambda l: (l in result) == (l == layers))"], properties=["C16"]))
REG.contracts[f"{LR}._listify"].alt = REG.add(Contract(f"{LR}._listify@list", module=M_LA, qualname=f"{LR}._listify", kind="classmethod", params=dict(layers="Bag[Str]"), returns="Bag[Str]",
                                                 ensures=["same_elements(result, layers)"], properties=["C16"]))
REG.add(Contract(f"{LR}._get_all_modules_in_layers", module=M_LA, kind="method", params=dict(self=LR, layers="Bag[Str]"), returns="Bag[Tuple[Node,Bool]]",
                 # C13: EVERY requested layer must be defined -- an undefined one among defined ones is a lookup error, never silently dropped
                 raises=[("ImproperlyConfigured", "is_none(self._architecture)"),
                         ("KeyError", "(not is_none(self._architecture)) and exists(Str, lambda l: (l in layers) and not (l in unwrap(self._architecture)._modules_by_layer_name))")],
                 ensures=["forall(Node, Bool, lambda n, r: ((n, r) in result) == exists(Str, Filter, lambda l, f: (l in layers) and (f in unwrap(self._architecture)._modules_by_layer_name[l]) and n == fid(f) and r == is_regex(f)))"],
                 properties=["C13", "C16", "C05"]))
REG.add(Contract(f"{LR}.layers_that", module=M_LA, kind="method", params=dict(self=LR), returns=LR, modifies=["self"],
                 # C16: a layer rule needs an architecture first
                 raises=[("ImproperlyConfigured", "is_none(self._architecture)")],
                 ensures=["not is_none(self._rule)", "unwrap(self._rule)._modules_to_check_to_be_specified_next == True", "is_none(unwrap(self._rule)._configuration.modules_to_check)",
                          "is_none(unwrap(self._rule)._configuration.modules_to_check_against)", "not unwrap(self._rule)._configuration.should", "not unwrap(self._rule)._configuration.should_only",
                          "not unwrap(self._rule)._configuration.should_not", "is_none(unwrap(self._rule)._configuration.import_)", "not unwrap(self._rule)._configuration.rule_object_anything",
                          "not unwrap(self._rule)._configuration.except_present", "result == self"] + _UNCH,
                 properties=["C13", "C16"]))
for _variant, _ptype, _is_list, _in in (("", "Str", "False", "l == layers"), ("@list", "Bag[Str]", "True", "l in layers")):
    REG.add(Contract(f"{LR}.are_named{_variant}", module=M_LA, qualname=f"{LR}.are_named", kind="method", params=dict(self=LR, layers=_ptype), returns=LR, modifies=["self"],
                     requires=["implies(not is_none(self._rule), not is_none(unwrap(self._rule)._modules_to_check_to_be_specified_next))"],
                     raises=[
                         # C16: exactly one subject layer: never a batch, never a second one; C13: nothing before layers_that
                         ("ImproperlyConfigured", f"is_none(self._rule) or ((not nonempty(unwrap(self._rule)._configuration.modules_to_check)) and {_is_list}) or "
                                                  "(nonempty(unwrap(self._rule)._configuration.modules_to_check) and unwrap(unwrap(self._rule)._modules_to_check_to_be_specified_next)) or is_none(self._architecture)"),
                         ("KeyError", f"(not is_none(self._rule)) and (not ((not nonempty(unwrap(self._rule)._configuration.modules_to_check)) and {_is_list})) and "
                                      "(not (nonempty(unwrap(self._rule)._configuration.modules_to_check) and unwrap(unwrap(self._rule)._modules_to_check_to_be_specified_next))) and (not is_none(self._architecture)) and "
                                      f"exists(Str, lambda l: ({_in}) and not (l in unwrap(self._architecture)._modules_by_layer_name))")],
                     ensures=["not is_none(self._rule)", "result == self"] + _UNCH + [
                         # C05: the modules of the named layers -- one name / regex filter per listed module -- are added on the side that is being specified, the other side is untouched
                         f"implies(unwrap(unwrap(old(self)._rule)._modules_to_check_to_be_specified_next), (not is_none(unwrap(self._rule)._configuration.modules_to_check)) and "
                         f"forall(Filter, lambda f: (f in unwrap(unwrap(self._rule)._configuration.modules_to_check)) == (((not is_none(unwrap(old(self)._rule)._configuration.modules_to_check)) and (f in unwrap(unwrap(old(self)._rule)._configuration.modules_to_check))) or "
                         f"exists(Str, Filter, lambda l, g: ({_in}) and (g in unwrap(self._architecture)._modules_by_layer_name[l]) and f == (mk_filter_regex(fid(g)) if is_regex(g) else mk_filter_name(fid(g)))))) and "
                         f"unwrap(self._rule)._configuration.modules_to_check_against == unwrap(old(self)._rule)._configuration.modules_to_check_against)",
                         f"implies(not unwrap(unwrap(old(self)._rule)._modules_to_check_to_be_specified_next), (not is_none(unwrap(self._rule)._configuration.modules_to_check_against)) and "
                         f"forall(Filter, lambda f: (f in unwrap(unwrap(self._rule)._configuration.modules_to_check_against)) == (((not is_none(unwrap(old(self)._rule)._configuration.modules_to_check_against)) and (f in unwrap(unwrap(old(self)._rule)._configuration.modules_to_check_against))) or "
                         f"exists(Str, Filter, lambda l, g: ({_in}) and (g in unwrap(self._architecture)._modules_by_layer_name[l]) and f == (mk_filter_regex(fid(g)) if is_regex(g) else mk_filter_name(fid(g)))))) and "
                         f"unwrap(self._rule)._configuration.modules_to_check == unwrap(old(self)._rule)._configuration.modules_to_check)"],
                     properties=["C13", "C16", "C05"]))
REG.contracts[f"{LR}.are_named"].alt = REG.contracts[f"{LR}.are_named@list"]

# ================================================================ C05: the layer-rule evaluation pipeline (detector buckets, grouping by layers)
# The detector's proofs keep the layer mapping opaque: layer_of(L, n) (above) and layers_of(L) = the layer names the mapping knows are uninterpreted functions of the
# mapping object. What they ARE on a real LayerMapping is proved in the string view (c_layermap.py: get_layer_for_module_name@str, all_layers@str).
REG.add(Contract("LayerMapping.all_layers", module=M_EA2, kind="property", status="abstraction", pure=True,
                 params=dict(self="Opaque[LayerMapping]"), returns="Bag[LayerName]",
                 note="opaque view of LayerMapping.all_layers (the keys of the layer definition; proved in the string view as LayerMapping.all_layers@str): ONE uninterpreted set layers_of(mapping)"))
REG.macro("layers_of", ["L"], "LayerMapping.all_layers(L)")
# the module of an (importer, importee) pair that decides which OBJECT layer the pair belongs to: the rule object's side
REG.macro("rel_mod_b", ["subj", "k"], "k[1] if subj else k[0]")
REG.macro("dep_layer", ["subj", "L", "k"], "layer_of(L, mid(rel_mod_b(subj, k)))")
# 'no realised import into object layer l': the group of l is non-empty, l is a layer of the mapping, and NO pair of the group has a realisation -> every pair of the group is reported
REG.define("layer_abstract_b", dict(subj="Bool", L="Opaque[LayerMapping]", r="Dict[Dep,Bag[Dep]]", x="Dep"),
           "exists(Dep, lambda k: (k in r) and x == order_b(subj, k) and (not is_none(dep_layer(subj, L, k))) and (unwrap(dep_layer(subj, L, k)) in layers_of(L)) and "
           "grp_unreal_d(subj, L, r, dep_layer(subj, L, k)))")
# no pair of the group of object layer l has a realisation (dict level / graph level)
REG.define("grp_unreal_d", dict(subj="Bool", L="Opaque[LayerMapping]", r="Dict[Dep,Bag[Dep]]", l="Opt[LayerName]"),
           "forall(Dep, lambda k2: implies((k2 in r) and dep_layer(subj, L, k2) == l, not nonempty(r[k2])))")
REG.define("grp_unreal_g", dict(g="Graph", S="Bag[Filter]", O="Bag[Filter]", subj="Bool", L="Opaque[LayerMapping]", l="Opt[LayerName]"),
           "forall(Filter, Filter, lambda s2, o2: implies((s2 in S) and (o2 in O) and dep_layer(subj, L, (f2m(s2), f2m(o2))) == l, not exists(Dep, lambda d: deps_rel_d(g, s2, o2, d))))")
REG.macro("layer_abstract_rel", ["mr", "L", "d", "x"], "layer_abstract_b(mr._importer_specified_as_rule_subject, L, d, x)")
# 'no access to anything else': reported (one pair per subject module and user-specified object) iff NO reported other-import crosses a layer boundary
REG.define("layer_missing_b", dict(subj="Bool", objs="Bag[Filter]", L="Opaque[LayerMapping]", r="Dict[Mod,Bag[Dep]]", x="Dep"),
           "(not exists(Dep, lambda y: realised_m_b(subj, r, y) and cross_layer(L, y))) and exists(Mod, Filter, lambda m, o: (m in r) and (o in objs) and x == (m, f2m(o)))")
REG.macro("layer_missing_rel", ["mr", "L", "d", "x"], "layer_missing_b(mr._importer_specified_as_rule_subject, mr._importees_as_specified_by_user, L, d, x)")

REG.add(Contract(f"{LD}.__init__", module=M_LD, kind="method",
                 params=dict(self=LD, module_requirement="ModuleRequirement", behavior_requirement="BehaviorRequirement", layer_mapping="Opaque[LayerMapping]"),
                 returns="None", modifies=["self"],
                 ensures=["self._module_requirement == module_requirement", "self._behavior_requirement == behavior_requirement", "self._layer_to_module_mapping == layer_mapping"],
                 properties=["C05"]))
REG.add(Contract(f"{LD}._get_module_relevant_for_layer", module=M_LD, kind="method", params=dict(self=LD, dependency="Dep"), returns="Mod",
                 # C05: pairs are grouped by the layer of the RULE OBJECT's side (importee for 'access', importer for 'be accessed by')
                 defn="rel_mod_b(self._module_requirement._importer_specified_as_rule_subject, dependency)", properties=["C05"]))
REG.add(Contract(f"{LD}._get_layer_for_module", module=M_LD, kind="method", params=dict(self=LD, module="Mod"), returns="Opt[LayerName]",
                 defn="layer_of(self._layer_to_module_mapping, mid(module))", properties=["C05"]))
_SUBJ = "self._module_requirement._importer_specified_as_rule_subject"
_LMAP = "self._layer_to_module_mapping"
REG.add(Contract(f"{LD}._get_abstract_dependencies_without_any_realisations", module=M_LD, kind="method",
                 params=dict(self=LD, explicitly_requested_dependencies="Dict[Dep,Bag[Dep]]"), returns="Set[Dep]",
                 # C05: 'access' needs at least ONE import into EACH named object layer: the pairs of an object layer are reported (all of them) iff none of them is realised
                 ensures=[f"forall(Dep, lambda x: (x in result) == layer_abstract_rel(self._module_requirement, {_LMAP}, explicitly_requested_dependencies, x))"],
                 locals=dict(result="Set[Dep]", explicitly_requested_dependencies_by_layers="DDict[Opt[LayerName],Dict[Dep,Bag[Dep]]]", explicitly_requested_dependencies_for_layer="Dict[Dep,Bag[Dep]]"),
                 loops={0: dict(sig="for layer in self._layer_to_module_mapping.all_layers", invariant=[
                     f"forall(Dep, lambda x: (x in result) == exists(Dep, lambda k: (k in explicitly_requested_dependencies) and x == order_b({_SUBJ}, k) and "
                     f"(not is_none(dep_layer({_SUBJ}, {_LMAP}, k))) and (unwrap(dep_layer({_SUBJ}, {_LMAP}, k)) in seen) and "
                     f"forall(Dep, lambda k2: implies((k2 in explicitly_requested_dependencies) and dep_layer({_SUBJ}, {_LMAP}, k2) == dep_layer({_SUBJ}, {_LMAP}, k), "
                     "not nonempty(explicitly_requested_dependencies[k2])))))"])},
                 # proof hints (each is itself an obligation): the group read for this layer is exactly the pairs whose rule object lies in it, and none of them has a realisation
                 ghost_at={"result.update(": [
                     f"forall(Dep, lambda k: (k in explicitly_requested_dependencies_for_layer) == ((k in explicitly_requested_dependencies) and dep_layer({_SUBJ}, {_LMAP}, k) == layer))",
                     "forall(Dep, lambda k: implies(k in explicitly_requested_dependencies_for_layer, len(explicitly_requested_dependencies_for_layer[k]) == 0))",
                     "forall(Dep, lambda k: implies(k in explicitly_requested_dependencies_for_layer, not nonempty(explicitly_requested_dependencies_for_layer[k])))",
                     "forall(Dep, lambda k: implies(k in explicitly_requested_dependencies_for_layer, not nonempty(explicitly_requested_dependencies[k])))"]},
                 properties=["C05"]))
# (quantifiers range over LayerName and the None group separately: a quantified Optional is split into (is-none flag, value), which leaves e-matching without a trigger)
def _grp(res, extra):
    D = "explicitly_requested_dependencies"
    return [f"forall(LayerName, Dep, lambda l, k: ((l in {res}) and (k in {res}[l])) == ({extra}(k in {D}) and dep_layer({_SUBJ}, {_LMAP}, k) == l))",
            f"forall(Dep, lambda k: ((None in {res}) and (k in {res}[None])) == ({extra}(k in {D}) and is_none(dep_layer({_SUBJ}, {_LMAP}, k))))",
            f"forall(LayerName, Dep, lambda l, k: implies((l in {res}) and (k in {res}[l]), same_elements({res}[l][k], {D}[k])))",
            f"forall(Dep, lambda k: implies((None in {res}) and (k in {res}[None]), same_elements({res}[None][k], {D}[k])))",
            f"forall(LayerName, lambda l: implies(l in {res}, exists(Dep, lambda k: k in {res}[l])))",
            f"implies(None in {res}, exists(Dep, lambda k: k in {res}[None]))"]


REG.add(Contract(f"{LD}._group_explicitly_requested_dependencies_by_layers", module=M_LD, kind="method",
                 params=dict(self=LD, explicitly_requested_dependencies="Dict[Dep,Bag[Dep]]"), returns="DDict[Opt[LayerName],Dict[Dep,Bag[Dep]]]",
                 # C05: every abstract pair lands in exactly the group of its rule object's layer (None = the object module is in no layer), with its realisations unchanged;
                 # there are no other groups and no empty ones
                 ensures=_grp("result", ""),
                 locals=dict(result="DDict[Opt[LayerName],Dict[Dep,Bag[Dep]]]"),
                 loops={0: dict(sig="for (abstract_dependency, concrete_dependencies) in explicitly_requested_dependencies.items()",
                                invariant=_grp("result", "((k, explicitly_requested_dependencies[k]) in seen) and "))},
                 properties=["C05"]))
for _name, _K, _rel in (("_should_requirement_violations", "Dep", "layer_abstract_rel"), ("_should_only_requirement_violations_by_no_import", "Dep", "layer_abstract_rel"),
                        ("_should_except_requirement_violations", "Mod", "layer_missing_rel"), ("_should_only_except_requirement_violations_due_to_no_other_imports", "Mod", "layer_missing_rel")):
    _fn = _ex.module(M_LD).function(f"{LD}.{_name}")
    _an = [a.arg for a in _fn.args.args] if _fn is not None else ["self", "flag", "deps"]
    REG.add(Contract(f"{LD}.{_name}", module=M_LD, kind="method", params={_an[0]: LD, _an[1]: "Bool", _an[2]: f"Opt[Dict[{_K},Bag[Dep]]]"}, returns="Set[Dep]",
                     # missing-import buckets of the layer detector: exactly the layer-level relation, and nothing unless the flag is set and the query was made
                     ensures=[f"forall(Dep, lambda x: (x in result) == ({_an[1]} and (not is_none({_an[2]})) and {_rel}(self._module_requirement, {_LMAP}, unwrap({_an[2]}), x)))"],
                     properties=["C05"]))

# ================================================================ C05: LayerRuleMatcher -- regex layers are replaced by the matched modules before judging
# Default view: a LayerMapping is an opaque object with three observers -- layers_of(L) (all_layers), lm_filters(L, layer) (get_module_filters of a mapping built from
# ModuleFilters: the rule's own layer definition), lm_mods(L, layer) (the same accessor of a mapping built from Modules: the UPDATED mapping the detector judges with) --
# and one constructor LayerMapping(dict) that yields a mapping whose observers return exactly the dict's keys / values (what LayerMapping.__init__ / all_layers /
# get_module_filters do is proved on the real code in the string view, c_layermap.py; the link between the two views is by name).
_LMS, _LNS = vals.opaque_sort("LayerMapping"), vals.opaque_sort("LayerName")
_f_lm_filters = z3.Function("lm_filters", _LMS, _LNS, z3.ArraySort(vals.DATA["Filter"]["sort"], z3.BoolSort()))
_f_lm_mods = z3.Function("lm_mods", _LMS, _LNS, z3.ArraySort(vals.DATA["Mod"]["sort"], z3.BoolSort()))


@REG.specfun("lm_filters")
def _lm_filters(eng, st, L, l):
    return V(("bag", ("data", "Filter")), _f_lm_filters(L.x, l.x))


@REG.specfun("lm_mods")
def _lm_mods(eng, st, L, l):
    return V(("bag", ("data", "Mod")), _f_lm_mods(L.x, l.x))


def _layer_mapping_ctor(reg, eng, st, args, kwargs, node):
    """LayerMapping(d) in the default view: a FRESH opaque mapping whose observers return d's keys and values (ASSUMED here, listed as trusted; proved on the real
    constructor / accessors in the string view). Refuses everything but a dict keyed by layer names with lists of filters or of modules."""
    from pyvc.vals import fresh, fresh_name
    from pyvc.state import OutOfSubset
    vs = list(args) + list(kwargs.values())
    if len(vs) != 1 or vs[0].t[0] != "dict" or vs[0].x is None or vs[0].t[1] != ("opaque", "LayerName") or vs[0].t[2] not in (("bag", ("data", "Filter")), ("bag", ("data", "Mod"))):
        raise OutOfSubset("LayerMapping(...) on something else than a dict LayerName -> list of filters / modules")
    d = vs[0]
    L = fresh(("opaque", "LayerMapping"), "lm")
    layers = reg.apply_contract(eng, reg.contracts["LayerMapping.all_layers"], [L], {}, st, node)[0][1]
    obs = _f_lm_filters if d.t[2][1] == ("data", "Filter") else _f_lm_mods
    l = z3.Const(fresh_name("l"), _LNS)
    st.assume(z3.ForAll([l], z3.Select(layers.x, l) == z3.Select(d.x[0], l)))
    st.assume(z3.ForAll([l], z3.Implies(z3.Select(d.x[0], l), obs(L.x, l) == z3.Select(d.x[1], l))))
    eng.assumed.append("LayerMapping(dict)")
    return [(st, L)]


REG.ctors["LayerMapping"] = _layer_mapping_ctor
REG.add(Contract("LayerMapping.get_module_filters", module=M_EA2, kind="method", status="abstraction",
                 params=dict(self="Opaque[LayerMapping]", layer="LayerName"), returns="Bag[Filter]",
                 raises=[("KeyError", "not (layer in layers_of(self))")], defn="lm_filters(self, layer)",
                 note="opaque view of LayerMapping.get_module_filters (self._layer_mapping_for_module_filters[layer]; proved in the string view as LayerMapping.get_module_filters@str)"))

_RM_FIELDS_L = dict(
    _module_requirement="ModuleRequirement", _behavior_requirement="BehaviorRequirement", _updated_module_requirement="ModuleRequirement",
    _conversion_mapping_importers="Dict[Node,Bag[Mod]]", _conversion_mapping_importees="Dict[Node,Bag[Mod]]",
    _layer_mapping="Opaque[LayerMapping]", _updated_layer_mapping="Opaque[LayerMapping]")
vals.declare_obj("LayerRuleMatcher", _RM_FIELDS_L)
M_RM2 = "pytestarch.rule_assessment.rule_check.rule_matcher"
LRM = "LayerRuleMatcher"
# modelling device (as for the detector): the layer matcher's record extends the module matcher's, so the RuleMatcher contracts (stated on DefaultRuleMatcher) apply to it
REG.class_bases["LayerRuleMatcher"] = ["DefaultRuleMatcher"]
REG.add(Contract(f"{LRM}.__init__", module=M_RM2, kind="method",
                 params=dict(self=LRM, module_requirement="ModuleRequirement", behavior_requirement="BehaviorRequirement", layer_mapping="Opaque[LayerMapping]"),
                 returns="None", modifies=["self"],
                 ensures=["self._module_requirement == module_requirement", "self._behavior_requirement == behavior_requirement", "self._layer_mapping == layer_mapping"],
                 properties=["C05"]))
# the modules a layer consists of after regex expansion: a named module / 'sub modules of' filter as itself; a regex filter as the modules the conversion mapping
# lists for it -- NOTHING when the mapping has no entry (a regex layer the rule does not mention was never resolved: F05a; its modules are then in no layer)
REG.macro("lm_expanded", ["F", "C", "m"],
          "exists(Filter, lambda f: (f in F) and (((not is_regex(f)) and m == f2m(f)) or (is_regex(f) and (fid(f) in C) and (m in C[fid(f)]))))")
REG.add(Contract(f"{LRM}._replace_regex_specified_modules_with_actual_modules", module=M_RM2, kind="classmethod",
                 params=dict(layer="LayerName", layer_mapping="Opaque[LayerMapping]", module_name_conversion_mapping="Dict[Node,Bag[Mod]]"), returns="Bag[Mod]",
                 raises=[("KeyError", "not (layer in layers_of(layer_mapping))")],
                 ensures=["forall(Mod, lambda m: (m in result) == lm_expanded(lm_filters(layer_mapping, layer), module_name_conversion_mapping, m))"],
                 locals=dict(result="Bag[Mod]", modules_potentially_with_regexes="Bag[Filter]"),
                 loops={0: dict(sig="for module in modules_potentially_with_regexes", invariant=[
                     "forall(Mod, lambda m: (m in result) == lm_expanded(seen, module_name_conversion_mapping, m))"])},
                 properties=["C05"]))
REG.macro("lm_updated", ["L0", "C", "L1"],
          "forall(LayerName, lambda l: (l in layers_of(L1)) == (l in layers_of(L0))) and "
          "forall(LayerName, Mod, lambda l, m: implies(l in layers_of(L0), (m in lm_mods(L1, l)) == lm_expanded(lm_filters(L0, l), C, m)))")
REG.add(Contract(f"{LRM}._update_layer_mapping", module=M_RM2, kind="classmethod",
                 params=dict(layer_mapping="Opaque[LayerMapping]", module_name_conversion_mapping="Dict[Node,Bag[Mod]]"), returns="Opaque[LayerMapping]",
                 # C05 (F05a): total -- defined for EVERY layer of the architecture, mentioned by the rule or not; same layers, each with its expanded modules
                 ensures=["lm_updated(layer_mapping, module_name_conversion_mapping, result)"], properties=["C05"]))
REG.add(Contract(f"{LRM}._get_rule_violation_detector", module=M_RM2, kind="method",
                 params=dict(self=LRM, module_name_conversion_mapping="Dict[Node,Bag[Mod]]"), returns=LD, modifies=["self"],
                 ensures=["result._module_requirement == self._updated_module_requirement", "result._behavior_requirement == self._behavior_requirement",
                          "result._layer_to_module_mapping == self._updated_layer_mapping",
                          "lm_updated(self._layer_mapping, module_name_conversion_mapping, self._updated_layer_mapping)"]
                 + [f"self.{f} == old(self).{f}" for f in _RM_FIELDS_L if f != "_updated_layer_mapping"],
                 properties=["C05"]))
REG.add(Contract(f"{LRM}._create_rule_violation_message_generator", module=M_RM2, kind="method", status="assumed", params=dict(self=LRM), returns="Opaque[MessageGenerator]",
                 note="message text only: irrelevant for the verdict (C03 covers the records)"))

# ================================================================ C05: the eight buckets of a layer rule, and the verdict of LayerRuleMatcher.match
REG.macro("layer_viol_buckets", ["mr", "b", "L", "expl", "nexpl", "r"],
          "forall(Dep, lambda x: (x in r.should_not_violations) == (b.should_not and (not b.behavior_exception) and (not is_none(expl)) and realised_rel(mr, unwrap(expl), x) and cross_layer(L, x))) "
          "and forall(Dep, lambda x: (x in r.should_violations) == (b.should and (not b.behavior_exception) and (not is_none(expl)) and layer_abstract_rel(mr, L, unwrap(expl), x))) "
          "and forall(Dep, lambda x: (x in r.should_only_violations_by_no_import) == (b.should_only and (not b.behavior_exception) and (not is_none(expl)) and layer_abstract_rel(mr, L, unwrap(expl), x))) "
          "and forall(Dep, lambda x: (x in r.should_only_violations_by_forbidden_import) == (b.should_only and (not b.behavior_exception) and (not is_none(nexpl)) and realised_rel_m(mr, unwrap(nexpl), x) and cross_layer(L, x))) "
          "and forall(Dep, lambda x: (x in r.should_except_violations) == (b.should and b.behavior_exception and (not is_none(nexpl)) and layer_missing_rel(mr, L, unwrap(nexpl), x))) "
          "and forall(Dep, lambda x: (x in r.should_only_except_violations_by_no_import) == (b.should_only and b.behavior_exception and (not is_none(nexpl)) and layer_missing_rel(mr, L, unwrap(nexpl), x))) "
          "and forall(Dep, lambda x: (x in r.should_only_except_violations_by_forbidden_import) == (b.should_only and b.behavior_exception and (not is_none(expl)) and realised_rel(mr, unwrap(expl), x) and cross_layer(L, x))) "
          "and forall(Dep, lambda x: (x in r.should_not_except_violations) == (b.should_not and b.behavior_exception and (not is_none(nexpl)) and realised_rel_m(mr, unwrap(nexpl), x) and cross_layer(L, x)))")
# the inherited get_rule_violation, verified AGAIN with the layer detector as receiver (its bucket methods are the overriding ones)
REG.add(Contract(f"{LD}.get_rule_violation", module="pytestarch.rule_assessment.rule_check.rule_violation_detector", qualname="RuleViolationBaseDetector.get_rule_violation", kind="method",
                 params=dict(self=LD, explicitly_requested_dependencies="Opt[Dict[Dep,Bag[Dep]]]", not_explicitly_requested_dependencies="Opt[Dict[Mod,Bag[Dep]]]"), returns="RuleViolations",
                 ensures=["layer_viol_buckets(self._module_requirement, self._behavior_requirement, self._layer_to_module_mapping, explicitly_requested_dependencies, not_explicitly_requested_dependencies, result)"],
                 opaque=["layer_abstract_b", "layer_missing_b", "realised_b", "realised_m_b"], properties=["C05"]))
# the regex -> modules table handed to the layer matcher: the union of what the two conversions (subjects, objects) found per regex
REG.add(Contract(f"{LRM}._create_module_name_regex_conversion_mapping", module=M_RM2, qualname="RuleMatcher._create_module_name_regex_conversion_mapping", kind="method",
                 params=dict(self=LRM), returns="Dict[Node,Bag[Mod]]",
                 ensures=["forall(Node, lambda k: (k in result) == ((k in self._conversion_mapping_importers) or (k in self._conversion_mapping_importees)))",
                          "forall(Node, Mod, lambda k, x: implies(k in result, (x in result[k]) == (((k in self._conversion_mapping_importers) and (x in self._conversion_mapping_importers[k])) or "
                          "((k in self._conversion_mapping_importees) and (x in self._conversion_mapping_importees[k])))))"],
                 locals=dict(result="Dict[Node,Bag[Mod]]", existing_values="Set[Mod]"),
                 loops={0: dict(sig="for (key, values) in self._conversion_mapping_importees.items()", invariant=[
                     "forall(Node, lambda k: (k in result) == ((k in self._conversion_mapping_importers) or ((k, self._conversion_mapping_importees[k]) in seen)))",
                     "forall(Node, Mod, lambda k, x: implies(k in result, (x in result[k]) == (((k in self._conversion_mapping_importers) and (x in self._conversion_mapping_importers[k])) or "
                     "(((k, self._conversion_mapping_importees[k]) in seen) and (x in self._conversion_mapping_importees[k])))))"])},
                 properties=["C05"]))

# ================================================================ LayerRule.__init__ (C16: a fresh layer rule has neither an architecture nor an inner rule)
REG.add(Contract(f"{LR}.__init__", module=M_LA, kind="method", params=dict(self=LR, rule_matcher_class="Opaque[Class]"), returns="None", modifies=["self"],
                 defaults=dict(rule_matcher_class="LayerRuleMatcher"),
                 ensures=["is_none(self._rule)", "is_none(self._architecture)", "self._rule_matcher_class == rule_matcher_class"], properties=["C05", "C16", "C13"]))

# ================================================================ C05: the layer buckets as functions of the GRAPH (no dicts) -- LayerRuleMatcher._find_rule_violations
# S = importers, O = importees of the converted requirement, objs = the rule objects as specified by the user, L = the updated layer mapping
REG.define("G_layer_abstract_b", dict(g="Graph", S="Bag[Filter]", O="Bag[Filter]", subj="Bool", L="Opaque[LayerMapping]", x="Dep"),
           "exists(Filter, Filter, lambda s, o: (s in S) and (o in O) and x == order_b(subj, (f2m(s), f2m(o))) and (not is_none(dep_layer(subj, L, (f2m(s), f2m(o))))) and "
           "(unwrap(dep_layer(subj, L, (f2m(s), f2m(o)))) in layers_of(L)) and grp_unreal_g(g, S, O, subj, L, dep_layer(subj, L, (f2m(s), f2m(o)))))")
REG.define("G_layer_missing_f", dict(g="Graph", S="Bag[Filter]", O="Bag[Filter]", objs="Bag[Filter]", L="Opaque[LayerMapping]", x="Dep"),
           "(not exists(Dep, lambda y: G_or_f(g, S, O, y) and cross_layer(L, y))) and exists(Filter, Filter, lambda s, ob: (s in S) and (ob in objs) and x == (f2m(s), f2m(ob)))")
REG.define("G_layer_missing_r", dict(g="Graph", S="Bag[Filter]", O="Bag[Filter]", objs="Bag[Filter]", L="Opaque[LayerMapping]", x="Dep"),
           "(not exists(Dep, lambda y: G_or_r(g, S, O, y) and cross_layer(L, y))) and exists(Filter, Filter, lambda o, ob: (o in O) and (ob in objs) and x == (f2m(o), f2m(ob)))")
_LPL = dict(g="Graph", S="Bag[Filter]", O="Bag[Filter]", subj="Bool", L="Opaque[LayerMapping]", r="Dict[Dep,Bag[Dep]]")
REG.lemma("LL_grp", params=_LPL, requires=["GD_post(g, S, O, r)"],
          ensures=["forall(LayerName, lambda l: implies(grp_unreal_d(subj, L, r, l), grp_unreal_g(g, S, O, subj, L, l)))", "forall(LayerName, lambda l: implies(grp_unreal_g(g, S, O, subj, L, l), grp_unreal_d(subj, L, r, l)))"], cases=["subj"], properties=["C05"])
REG.lemma("LL_abstract", params=_LPL, requires=["GD_post(g, S, O, r)"],
          ensures=["forall(Dep, lambda x: layer_abstract_b(subj, L, r, x) == G_layer_abstract_b(g, S, O, subj, L, x))"], use=["LL_grp(g, S, O, subj, L, r)"],
          opaque=["grp_unreal_d", "grp_unreal_g"], cases=["subj"], properties=["C05"])
_LML = dict(g="Graph", S="Bag[Filter]", O="Bag[Filter]", objs="Bag[Filter]", L="Opaque[LayerMapping]", r="Dict[Mod,Bag[Dep]]")
REG.lemma("LL_missing_f", params=_LML, requires=["AD_post(g, S, O, r)"],
          ensures=["forall(Dep, lambda x: layer_missing_b(True, objs, L, r, x) == G_layer_missing_f(g, S, O, objs, L, x))"],
          use=["L_or_f(g, S, O, objs, r)"], opaque=["realised_m_b", "G_or_f"], properties=["C05"])
REG.lemma("LL_missing_r", params=_LML, requires=["AO_post(g, S, O, r)"],
          ensures=["forall(Dep, lambda x: layer_missing_b(False, objs, L, r, x) == G_layer_missing_r(g, S, O, objs, L, x))"],
          use=["L_or_r(g, S, O, objs, r)"], opaque=["realised_m_b", "G_or_r"], properties=["C05"])
REG.macro("G_layer_abstract", ["g", "u", "L", "x"], "G_layer_abstract_b(g, u._importers, u._importees, u._importer_specified_as_rule_subject, L, x)")
REG.macro("G_layer_missing", ["g", "u", "L", "x"],
          "(u._importer_specified_as_rule_subject and G_layer_missing_f(g, u._importers, u._importees, u._importees_as_specified_by_user, L, x)) or "
          "((not u._importer_specified_as_rule_subject) and G_layer_missing_r(g, u._importers, u._importees, u._importees_as_specified_by_user, L, x))")
REG.macro("layer_FV_post", ["g", "u", "b", "L", "r"],
          "forall(Dep, lambda x: (x in r.should_not_violations) == (b.should_not and (not b.behavior_exception) and G_realised(g, u, x) and cross_layer(L, x))) "
          "and forall(Dep, lambda x: (x in r.should_violations) == (b.should and (not b.behavior_exception) and G_layer_abstract(g, u, L, x))) "
          "and forall(Dep, lambda x: (x in r.should_only_violations_by_no_import) == (b.should_only and (not b.behavior_exception) and G_layer_abstract(g, u, L, x))) "
          "and forall(Dep, lambda x: (x in r.should_only_violations_by_forbidden_import) == (b.should_only and (not b.behavior_exception) and G_other_realised(g, u, x) and cross_layer(L, x))) "
          "and forall(Dep, lambda x: (x in r.should_except_violations) == (b.should and b.behavior_exception and G_layer_missing(g, u, L, x))) "
          "and forall(Dep, lambda x: (x in r.should_only_except_violations_by_no_import) == (b.should_only and b.behavior_exception and G_layer_missing(g, u, L, x))) "
          "and forall(Dep, lambda x: (x in r.should_only_except_violations_by_forbidden_import) == (b.should_only and b.behavior_exception and G_realised(g, u, x) and cross_layer(L, x))) "
          "and forall(Dep, lambda x: (x in r.should_not_except_violations) == (b.should_not and b.behavior_exception and G_other_realised(g, u, x) and cross_layer(L, x)))")
# the table handed to _update_layer_mapping, as a relation over the two conversion results (the local dict itself is not visible in the postcondition)
REG.macro("lm_expanded2", ["F", "A", "B", "m"],
          "exists(Filter, lambda f: (f in F) and (((not is_regex(f)) and m == f2m(f)) or (is_regex(f) and (((fid(f) in A) and (m in A[fid(f)])) or ((fid(f) in B) and (m in B[fid(f)]))))))")
REG.macro("lm_updated2", ["L0", "A", "B", "L1"],
          "forall(LayerName, lambda l: (l in layers_of(L1)) == (l in layers_of(L0))) and "
          "forall(LayerName, Mod, lambda l, m: implies(l in layers_of(L0), (m in lm_mods(L1, l)) == lm_expanded2(lm_filters(L0, l), A, B, m)))")
_UM = "self._updated_module_requirement"
REG.add(Contract(f"{LRM}._find_rule_violations", module=M_RM2, qualname="RuleMatcher._find_rule_violations", kind="method",
                 params=dict(self=LRM, evaluable="EvaluableArchitectureGraph"), returns="RuleViolations", modifies=["self"],
                 requires=["WF(evaluable._graph)", f"no_regex({_UM}._importers)", f"no_regex({_UM}._importees)"],
                 raises=[("NetworkXError", f"fv_raises(evaluable._graph, {_UM}, self._behavior_requirement)")],
                 ensures=[f"layer_FV_post(evaluable._graph, {_UM}, self._behavior_requirement, self._updated_layer_mapping, result)",
                          # C05: the mapping the detector judges with has the architecture's layers, regex layers replaced by the modules the two conversions matched
                          "lm_updated2(self._layer_mapping, self._conversion_mapping_importers, self._conversion_mapping_importees, self._updated_layer_mapping)"]
                 + [f"self.{f} == old(self).{f}" for f in _RM_FIELDS_L if f != "_updated_layer_mapping"],
                 use_at_end=[f"{L}(evaluable._graph, {_UM}._importers, {_UM}._importees, {_UM}._importer_specified_as_rule_subject, unwrap(explicitly_requested_dependencies))" for L in ("L_realised",)]
                 + [f"LL_abstract(evaluable._graph, {_UM}._importers, {_UM}._importees, {_UM}._importer_specified_as_rule_subject, self._updated_layer_mapping, unwrap(explicitly_requested_dependencies))"]
                 + [f"{L}(evaluable._graph, {_UM}._importers, {_UM}._importees, {_UM}._importees_as_specified_by_user, unwrap(not_explicitly_requested_dependencies))" for L in ("L_or_f", "L_or_r")]
                 + [f"{L}(evaluable._graph, {_UM}._importers, {_UM}._importees, {_UM}._importees_as_specified_by_user, self._updated_layer_mapping, unwrap(not_explicitly_requested_dependencies))" for L in ("LL_missing_f", "LL_missing_r")],
                 opaque=["realised_b", "realised_m_b", "layer_abstract_b", "layer_missing_b", "G_realised_b", "G_or_f", "G_or_r", "G_layer_abstract_b", "G_layer_missing_f", "G_layer_missing_r"],
                 cases=[f"{_UM}._importer_specified_as_rule_subject", "self._behavior_requirement.behavior_exception"],
                 properties=["C05"]))
