"""Contracts: eval_structure/evaluable_architecture.py -- LayerMapping (C05, C14): which layer a module belongs to.

String view. `get_layer_for_module_name` is the flagged string site of the layer rules: a module belongs to the layer that lists it or lists a DOTTED
ancestor of it (`startswith(p + ".")`, defect F14a was a plain `startswith(p)`). The lookup walks downwards from a `bisect` position in the sorted
list of listed names; that the walk meets EVERY listed dotted ancestor is the proof obligation the loop invariant carries, from two assumed facts
about CPython's string order (lex_le is a total order; a proper prefix is smaller)."""
import z3
from pyvc import vals
from pyvc.vals import V, vbool, to_term, sort_of
from .speclib import REG, Contract, NODE_T

from pyvc.vals import fresh_name, vint
from pyvc.state import OutOfSubset

# ---------------------------------------------------------------- lexicographic order of str (ASSUMED facts about CPython's `<=` on str, used by sorted / bisect)
_S = sort_of(NODE_T)
f_lex_le = z3.Function("lex_le", _S, _S, z3.BoolSort())


def _lex_axioms(st):
    """total order + 'a prefix is not larger' -- the only facts about string order this proof uses; listed in the evidence as an assumed contract"""
    if getattr(st, "_lex_axioms_done", False):
        return
    a, b, c = z3.Const("lx!a", _S), z3.Const("lx!b", _S), z3.Const("lx!c", _S)
    st.assume(z3.ForAll([a, b], z3.Or(f_lex_le(a, b), f_lex_le(b, a))))
    st.assume(z3.ForAll([a, b], z3.Implies(z3.And(f_lex_le(a, b), f_lex_le(b, a)), a == b)))
    st.assume(z3.ForAll([a, b, c], z3.Implies(z3.And(f_lex_le(a, b), f_lex_le(b, c)), f_lex_le(a, c))))
    if _S == z3.StringSort():
        st.assume(z3.ForAll([a, b], z3.Implies(z3.PrefixOf(a, b), f_lex_le(a, b))))


@REG.specfun("lex_le")
def _lex_le(eng, st, a, b):
    _lex_axioms(st)
    return vbool(f_lex_le(to_term(vals.coerce(a, NODE_T)), to_term(vals.coerce(b, NODE_T))))


@REG.specfun("seq_contains")
def _seq_contains(eng, st, s, x):
    j = z3.Int(fresh_name("j"))
    return vbool(z3.Exists([j], z3.And(0 <= j, j < z3.Length(s.x), s.x[j] == to_term(vals.coerce(x, s.t[1])))))


@REG.specfun("seq_at")
def _seq_at(eng, st, s, j):
    """s[j] for an index known to be in range (no negative-index normalisation): specification use only"""
    return vals.from_term(s.t[1], s.x[j.x])


@REG.specfun("seq_sorted")
def _seq_sorted(eng, st, s):
    _lex_axioms(st)
    j, k = z3.Int(fresh_name("j")), z3.Int(fresh_name("k"))
    return vbool(z3.ForAll([j, k], z3.Implies(z3.And(0 <= j, j < k, k < z3.Length(s.x)), f_lex_le(s.x[j], s.x[k]))))


def b_bisect(reg, eng, st, args, kwargs, node):
    """bisect.bisect(xs, x) == bisect_right: on a sorted sequence of str, the index i with xs[:i] <= x < xs[i:] (ASSUMED library contract)"""
    if len(args) != 2 or kwargs or args[0].t[0] != "seq" or sort_of(args[0].t[1]) != _S:
        raise OutOfSubset("bisect on something else than a sequence of names")
    s, x = args[0].x, to_term(vals.coerce(args[1], NODE_T))
    _lex_axioms(st)
    i = z3.Int(fresh_name("bisect"))
    j, k = z3.Int(fresh_name("j")), z3.Int(fresh_name("k"))
    n = z3.Length(s)
    srt = z3.ForAll([j, k], z3.Implies(z3.And(0 <= j, j < k, k < n), f_lex_le(s[j], s[k])))
    st.assume(z3.And(0 <= i, i <= n))
    st.assume(z3.Implies(srt, z3.ForAll([j], z3.Implies(z3.And(0 <= j, j < n), (j < i) == f_lex_le(s[j], x)))))
    eng.assumed.append("bisect")
    return [(st, vint(i))]


from pyvc.builtins_model import BUILTINS
BUILTINS["bisect"] = b_bisect

M_EA = "pytestarch.eval_structure.evaluable_architecture"
vals.declare_obj("LayerMapping", dict(_layer_mapping_for_module_filters="Dict[Str,Bag[Filter]]", _module_filter_mapping="Dict[Filter,Str]",
                                      _sorted_module_filter_names="Seq[Node]"))
LM = "LayerMapping"

# listed(L, n): some key of the filter mapping has identifier n; lm_layer(L, n, l): ... and is mapped to layer l
REG.macro("lm_listed", ["L", "n"], "exists(Filter, lambda f: (f in L._module_filter_mapping) and fid(f) == n)")
REG.macro("lm_layer", ["L", "n", "l"], "exists(Filter, lambda f: (f in L._module_filter_mapping) and fid(f) == n and L._module_filter_mapping[f] == l)")
# anc_layer(L, m, l): a listed DOTTED ancestor of m is mapped to layer l
REG.macro("lm_anc_layer", ["L", "m", "l"], "exists(Filter, lambda f: (f in L._module_filter_mapping) and m.startswith(fid(f) + '.') and L._module_filter_mapping[f] == l)")
# well-formedness of a LayerMapping object (established by __init__ from a LayeredArchitecture, whose guards make identifiers unique across layers -- C16):
#   the sorted list holds exactly the listed identifiers, in lexicographic order; an identifier determines its layer
REG.macro("lm_wf", ["L"],
          "forall(Int, lambda j: implies(0 <= j and j < len(L._sorted_module_filter_names), lm_listed(L, seq_at(L._sorted_module_filter_names, j)))) and "
          "forall(Filter, lambda f: implies(f in L._module_filter_mapping, seq_contains(L._sorted_module_filter_names, fid(f)))) and seq_sorted(L._sorted_module_filter_names) and "
          "forall(Filter, Filter, lambda f, g: implies((f in L._module_filter_mapping) and (g in L._module_filter_mapping) and fid(f) == fid(g), "
          "L._module_filter_mapping[f] == L._module_filter_mapping[g]))")

REG.add(Contract(f"{LM}._get_layer", module=M_EA, kind="method", view="string", params=dict(self=LM, module="Filter"), returns="Str",
                 raises=[("IndexError", "not lm_listed(self, fid(module))")],
                 ensures=["lm_layer(self, fid(module), result)"], properties=["C05", "C14"]))
REG.add(Contract(f"{LM}._get_layer_or_none", module=M_EA, kind="method", view="string", params=dict(self=LM, module_name="Node"), returns="Opt[Str]",
                 ensures=["is_none(result) == (not lm_listed(self, module_name))", "implies(not is_none(result), lm_layer(self, module_name, unwrap(result)))"],
                 locals=dict(layers="Bag[Str]"), properties=["C05", "C14"]))
REG.add(Contract(f"{LM}.get_layer_for_module_name@str", module=M_EA, qualname=f"{LM}.get_layer_for_module_name", kind="method", view="string",
                 params=dict(self=LM, module_name="Node"), returns="Opt[Str]", requires=["lm_wf(self)"],
                 # C05 / C14: the layer that lists the module, else the layer of a listed DOTTED ancestor; two candidate layers are an error, none is None
                 raises=[("LayerMismatch", "(not lm_listed(self, module_name)) and exists(Str, Str, lambda l1, l2: l1 != l2 and lm_anc_layer(self, module_name, l1) and lm_anc_layer(self, module_name, l2))")],
                 ensures=["implies(lm_listed(self, module_name), (not is_none(result)) and lm_layer(self, module_name, unwrap(result)))",
                          "implies(not lm_listed(self, module_name), is_none(result) == (not exists(Str, lambda l: lm_anc_layer(self, module_name, l))))",
                          "implies((not lm_listed(self, module_name)) and not is_none(result), lm_anc_layer(self, module_name, unwrap(result)))"],
                 locals=dict(candidate_parent_modules="Bag[Filter]", candidate_layers="Set[Str]", idx_of_module="Int"),
                 # proof hints (each is itself an obligation): after the walk the candidates are exactly the listed dotted ancestors; their layers are exactly the ancestor layers
                 ghost_at={"if len(candidate_layers) > 1": [
                     "forall(Filter, lambda c: (c in candidate_parent_modules) == (is_name(c) and module_name.startswith(fid(c) + '.') and lm_listed(self, fid(c))))",
                     "forall(Filter, lambda f: implies((f in self._module_filter_mapping) and module_name.startswith(fid(f) + '.'), mk_filter_name(fid(f)) in candidate_parent_modules))",
                     "forall(Filter, lambda f: implies((f in self._module_filter_mapping) and module_name.startswith(fid(f) + '.'), LayerMapping._get_layer(self, mk_filter_name(fid(f))) in candidate_layers))",
                     "forall(Filter, lambda f: implies((f in self._module_filter_mapping) and module_name.startswith(fid(f) + '.'), LayerMapping._get_layer(self, mk_filter_name(fid(f))) == self._module_filter_mapping[f]))",
                     "forall(Str, lambda l: implies(l in candidate_layers, lm_anc_layer(self, module_name, l)))",
                     "forall(Str, lambda l: implies(lm_anc_layer(self, module_name, l), l in candidate_layers))"]},
                 loops={0: dict(sig="while idx_of_module >= 0", invariant=[
                     "idx_of_module >= -1", "idx_of_module < len(self._sorted_module_filter_names)",
                     # everything above the walk's position that is a dotted ancestor has been collected (positions at or after the bisect point are larger than the name)
                     "forall(Filter, lambda c: (c in candidate_parent_modules) == (is_name(c) and module_name.startswith(fid(c) + '.') and "
                     "exists(Int, lambda j: 0 <= j and idx_of_module < j and j < len(self._sorted_module_filter_names) and seq_at(self._sorted_module_filter_names, j) == fid(c))))"])},
                 properties=["C05", "C14"]))

# the input of LayerMapping(...) is LayeredArchitecture._modules_by_layer_name, whose builder guards (C16, proved in c_layers.py: containing_modules raises on a
# module identifier that is already assigned) make an identifier belong to one layer only; that is this constructor's precondition
REG.macro("lm_input_unique", ["M"], "forall(Str, Str, Filter, Filter, lambda l1, l2, f, g: implies((l1 in M) and (l2 in M) and (f in M[l1]) and (g in M[l2]) and fid(f) == fid(g), l1 == l2))")
REG.add(Contract(f"{LM}.__init__", module=M_EA, kind="method", view="string", params=dict(self=LM, layer_mapping_for_module_filters="Dict[Str,Bag[Filter]]"), returns="None",
                 modifies=["self"], requires=["lm_input_unique(layer_mapping_for_module_filters)"], opts=["sorted_as_seq"],
                 ensures=["lm_wf(self)", "self._layer_mapping_for_module_filters == layer_mapping_for_module_filters",
                          # C05: a filter is mapped to the layer that lists it
                          "forall(Filter, lambda f: (f in self._module_filter_mapping) == exists(Str, lambda l: (l in layer_mapping_for_module_filters) and (f in layer_mapping_for_module_filters[l])))",
                          "forall(Filter, lambda f: implies(f in self._module_filter_mapping, (self._module_filter_mapping[f] in layer_mapping_for_module_filters) and "
                          "(f in layer_mapping_for_module_filters[self._module_filter_mapping[f]])))"],
                 properties=["C05", "C14"]))

# the two observers of a layer definition (C05): what the default view's layers_of(L) / lm_filters(L, layer) denote on the real object
REG.add(Contract(f"{LM}.all_layers@str", module=M_EA, qualname=f"{LM}.all_layers", kind="property", view="string", params=dict(self=LM), returns="Bag[Str]",
                 ensures=["forall(Str, lambda l: (l in result) == (l in self._layer_mapping_for_module_filters))"], properties=["C05"]))
REG.add(Contract(f"{LM}.get_module_filters@str", module=M_EA, qualname=f"{LM}.get_module_filters", kind="method", view="string", params=dict(self=LM, layer="Str"), returns="Bag[Filter]",
                 # C13: a layer that was never defined is a lookup error
                 raises=[("KeyError", "not (layer in self._layer_mapping_for_module_filters)")], defn="self._layer_mapping_for_module_filters[layer]", properties=["C05"]))
