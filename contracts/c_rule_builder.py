"""Contracts: query_language/rule.py (the fluent Rule builder and assert_applies)."""
import z3
from pyvc import vals
from pyvc.vals import V, Node
from .speclib import REG, Contract, NODE_T

M_RULE = "pytestarch.query_language.rule"
M_P2R = "pytestarch.utils.partial_match_to_regex_converter"

vals.declare_obj("RuleConfiguration", dict(
    modules_to_check="Opt[Bag[Filter]]", modules_to_check_against="Opt[Bag[Filter]]", should="Bool", should_only="Bool",
    should_not="Bool", except_present="Bool", import_="Opt[Bool]", rule_object_anything="Bool"))
vals.declare_obj("Rule", dict(_rule_matcher_class="Opaque[Class]", _modules_to_check_to_be_specified_next="Opt[Bool]",
                              _configuration="RuleConfiguration"))
RULE = dict(self="Rule")

# names at the opaque level: strict dotted ancestry and the glob->regex translation are uninterpreted here;
# their string-level definitions are verified in c_strings.py (C08, C14)
_f_name_anc = z3.Function("name_anc", Node, Node, z3.BoolSort())
_f_glob2regex = z3.Function("glob2regex", Node, Node)


@REG.specfun("name_anc")
def _name_anc(eng, st, a, b):
    """a is a strict dotted ancestor of b (b == a + '.' + rest). Uninterpreted in the opaque view, defined on strings."""
    if vals.STRING_MODE:
        return V(("bool",), z3.PrefixOf(z3.Concat(a.x, z3.StringVal(".")), b.x))
    return V(("bool",), _f_name_anc(a.x, b.x))


@REG.specfun("glob2regex")
def _glob2regex(eng, st, a):
    return V(NODE_T, _f_glob2regex(a.x))


REG.add(Contract("convert_partial_match_to_regex@node", module=M_P2R, qualname="convert_partial_match_to_regex",
                 status="abstraction", params=dict(match="Node"), returns="Node", defn="glob2regex(match)",
                 note="opaque view of the string function proved in C08 (contract convert_partial_match_to_regex)"))
REG.contracts["convert_partial_match_to_regex"] = REG.contracts.pop("convert_partial_match_to_regex@node")
REG.contracts["convert_partial_match_to_regex"].key = "convert_partial_match_to_regex@node"

# the matcher class stored in a Rule: for module rules it is DefaultRuleMatcher (layer rules: see c_layers.py)
REG.method_family["Class"] = "MatcherClass"   # the only classes used as VALUES are rule matcher classes (Rule(rule_matcher_class=...))
REG.add(Contract("MatcherClass.__call__", module="pytestarch.rule_assessment.rule_check.rule_matcher", status="assumed",
                 kind="method", params=dict(self="Opaque[Class]", module_requirement="ModuleRequirement",
                                            behavior_requirement="BehaviorRequirement"), returns="DefaultRuleMatcher",
                 ensures=["result._module_requirement == module_requirement", "result._behavior_requirement == behavior_requirement"],
                 note="Rule() default: rule_matcher_class=DefaultRuleMatcher; the call is RuleMatcher.__init__ (proved)"))

UNCH = ["self._rule_matcher_class == old(self)._rule_matcher_class"]


def _cfg_unchanged(*changed):
    fields = list(vals.OBJ_LAYOUT["RuleConfiguration"])
    return [f"self._configuration.{f} == old(self)._configuration.{f}" for f in fields if f not in changed]


REG.add(Contract("Rule.__init__", module=M_RULE, kind="method", params=dict(self="Rule", rule_matcher_class="Opaque[Class]"),
                 returns="None", modifies=["self"], defaults=dict(rule_matcher_class="DefaultRuleMatcher"),
                 ensures=["self._rule_matcher_class == rule_matcher_class",
                          "is_none(self._modules_to_check_to_be_specified_next)", "is_none(self._configuration.modules_to_check)",
                          "is_none(self._configuration.modules_to_check_against)", "not self._configuration.should",
                          "not self._configuration.should_only", "not self._configuration.should_not",
                          "not self._configuration.except_present", "is_none(self._configuration.import_)",
                          "not self._configuration.rule_object_anything"], properties=["C13"]))
REG.ctors["RuleConfiguration"] = None  # replaced below


def _rule_configuration_ctor(reg, eng, st, args, kwargs, node):
    from pyvc.vals import VNONE, vbool, coerce
    layout = vals.OBJ_LAYOUT["RuleConfiguration"]
    defaults = dict(modules_to_check=VNONE, modules_to_check_against=VNONE, should=vbool(False), should_only=vbool(False),
                    should_not=vbool(False), except_present=vbool(False), import_=VNONE, rule_object_anything=vbool(False))
    defaults.update(kwargs)
    return [(st, V(("obj", "RuleConfiguration"), {f: eng.typed(v, layout[f]) for f, v in defaults.items()}))]


REG.ctors["RuleConfiguration"] = _rule_configuration_ctor

REG.add(Contract("Rule.rule_subjects", module=M_RULE, kind="property", params=RULE, returns="Opt[Bag[Filter]]",
                 defn="self._configuration.modules_to_check", properties=["C16"]))
REG.add(Contract("Rule.modules_that", module=M_RULE, kind="method", params=RULE, returns="Rule", modifies=["self"],
                 ensures=["self._modules_to_check_to_be_specified_next == True", "self._configuration == old(self)._configuration",
                          "result == self"] + UNCH, properties=["C13"]))

# ---- subject / object setters (two variants each: a single name, a list of names)
REG.add(Contract("Rule._set_modules", module=M_RULE, kind="method", inline=True,
                 params=dict(self="Rule", module_names="Any", create_module_fn="Closure"), locals=dict(modules="Bag[Filter]"),
                 properties=["C13", "C11"]))
_SETTERS = [("are_sub_modules_of", "modules", "mk_filter_parent"), ("are_named", "names", "mk_filter_name"),
            ("have_name_containing", "partial_names", "mk_filter_regex_glob"), ("have_name_matching", "regex", "mk_filter_regex")]
for meth, pname, mk in _SETTERS:
    for variant, ptype, member in (("", "Node", f"f == {mk}({pname})"),
                                   ("@list", "Bag[Node]", f"exists(Node, lambda n: (n in {pname}) and f == {mk}(n))")):
        if meth == "have_name_matching" and variant:
            continue
        new_set = f"forall(Filter, lambda f: (f in unwrap(X)) == ({member}))"
        c = Contract(f"Rule.{meth}{variant}", module=M_RULE, qualname=f"Rule.{meth}", kind="method",
                     params={"self": "Rule", pname: ptype}, returns="Rule", modifies=["self"],
                     raises=[("ImproperlyConfigured", "is_none(self._modules_to_check_to_be_specified_next)")],
                     ensures=[
                         "implies(unwrap(old(self)._modules_to_check_to_be_specified_next), (not is_none(self._configuration.modules_to_check)) and "
                         + new_set.replace("X", "self._configuration.modules_to_check")
                         + " and self._configuration.modules_to_check_against == old(self)._configuration.modules_to_check_against)",
                         "implies(not unwrap(old(self)._modules_to_check_to_be_specified_next), (not is_none(self._configuration.modules_to_check_against)) and "
                         + new_set.replace("X", "self._configuration.modules_to_check_against")
                         + " and self._configuration.modules_to_check == old(self)._configuration.modules_to_check)",
                         "self._modules_to_check_to_be_specified_next == old(self)._modules_to_check_to_be_specified_next",
                         "result == self"] + _cfg_unchanged("modules_to_check", "modules_to_check_against") + UNCH,
                     properties=["C11", "C13"])
        REG.add(c)
    REG.contracts[f"Rule.{meth}"].alt = REG.contracts.get(f"Rule.{meth}@list")

# ---- verbs and import types
for verb in ("should", "should_only", "should_not"):
    REG.add(Contract(f"Rule.{verb}", module=M_RULE, kind="method", params=RULE, returns="Rule", modifies=["self"],
                     ensures=[f"self._configuration.{verb} == True", "result == self",
                              "self._modules_to_check_to_be_specified_next == old(self)._modules_to_check_to_be_specified_next"]
                     + _cfg_unchanged(verb) + UNCH, properties=["C13"]))
for meth, imp, exc in (("import_modules_that", True, False), ("be_imported_by_modules_that", False, False),
                       ("import_modules_except_modules_that", True, True), ("be_imported_by_modules_except_modules_that", False, True)):
    REG.add(Contract(f"Rule.{meth}", module=M_RULE, kind="method", params=RULE, returns="Rule", modifies=["self"],
                     ensures=[f"self._configuration.import_ == {imp}", "self._modules_to_check_to_be_specified_next == False", "result == self"]
                     + (["self._configuration.except_present == True"] if exc else [])
                     + _cfg_unchanged(*(["import_"] + (["except_present"] if exc else []))) + UNCH, properties=["C13"]))
for meth, imp in (("import_anything", True), ("be_imported_by_anything", False)):
    REG.add(Contract(f"Rule.{meth}", module=M_RULE, kind="method", params=RULE, returns="Rule", modifies=["self"],
                     ensures=[f"self._configuration.import_ == {imp}", "self._configuration.rule_object_anything == True",
                              "self._modules_to_check_to_be_specified_next == False", "result == self"]
                     + _cfg_unchanged("import_", "rule_object_anything") + UNCH, properties=["C13", "C12"]))

# ---- evaluation
REG.macro("cfg_incomplete", ["c"],
          "(not (c.should or c.should_only or c.should_not)) or is_none(c.import_) or (not nonempty(c.modules_to_check)) or (not nonempty(c.modules_to_check_against))")
REG.add(Contract("Rule._name_or_empty", module=M_RULE, kind="classmethod", status="assumed",
                 params=dict(empty="Bool", clz="Opaque[Class]"), returns="Str", note="message fragment"))
REG.add(Contract("Rule._assert_required_configuration_present", module=M_RULE, kind="method", params=RULE, returns="None",
                 raises=[("ImproperlyConfigured", "cfg_incomplete(self._configuration) or (self._configuration.rule_object_anything and not self._configuration.should_not)")],
                 properties=["C13"]))
# the 'anything' alias: subjects minus those that have a listed strict dotted ancestor (C12 alias, C14)
REG.macro("dedup_member", ["M", "f"], "(f in M) and not exists(Filter, lambda p: (p in M) and name_anc(fid(p), fid(f)))")
from .speclib import set_function
set_function("dedup", dict(M="Bag[Filter]"), "f", "Filter", "dedup_member(M, f)")
REG.add(Contract("Rule._get_modules_to_check_without_parent_and_submodule_combinations", module=M_RULE, kind="classmethod",
                 view="string", params=dict(configuration="RuleConfiguration"), returns="Opt[Bag[Filter]]",
                 # C14 / C12-alias: a subject is dropped exactly when another listed subject is its strict DOTTED ancestor
                 ensures=["is_none(result) == is_none(configuration.modules_to_check)",
                          "implies(not is_none(result), same_elements(unwrap(result), dedup(unwrap(configuration.modules_to_check))))"],
                 locals=dict(result="Bag[Filter]", module_names="Bag[Node]"),
                 loops={
                     0: dict(sig="for module in configuration.modules_to_check", invariant=[
                         "forall(Filter, lambda f: (f in result) == ((f in seen) and dedup_member(unwrap(configuration.modules_to_check), f)))"]),
                     1: dict(sig="for module_name in module_names", invariant=[
                         "parent_module_found == exists(Node, lambda n: (n in seen) and name_anc(n, fid(module)))"]),
                 },
                 note="flagged site (C14): verified in the string view where name_anc(a, b) is b.startswith(a + '.')",
                 properties=["C12", "C14", "C01"]))
REG.add(Contract("Rule._convert_aliases", module=M_RULE, kind="classmethod", params=dict(configuration="RuleConfiguration"),
                 returns="RuleConfiguration",
                 ensures=["implies(not configuration.rule_object_anything, result == configuration)",
                          "implies(configuration.rule_object_anything, (not result.rule_object_anything) and result.except_present "
                          "and is_none(result.modules_to_check) == is_none(configuration.modules_to_check) "
                          "and implies(not is_none(configuration.modules_to_check), same_elements(unwrap(result.modules_to_check), dedup(unwrap(configuration.modules_to_check)))) "
                          "and result.modules_to_check_against == result.modules_to_check "
                          "and result.should == configuration.should and result.should_only == configuration.should_only "
                          "and result.should_not == configuration.should_not and result.import_ == configuration.import_)"],
                 properties=["C12", "C13", "C15"]))
REG.add(Contract("Rule._prepare_rule_matcher", module=M_RULE, kind="method", params=RULE, returns="DefaultRuleMatcher",
                 requires=["not is_none(self._configuration.modules_to_check)", "not is_none(self._configuration.modules_to_check_against)",
                           "not is_none(self._configuration.import_)"],
                 raises=[("RuleInconsistency", "br_inconsistent4(self._configuration.should, self._configuration.should_only, self._configuration.should_not, self._configuration.except_present)")],
                 ensures=["result._behavior_requirement.should == self._configuration.should",
                          "result._behavior_requirement.should_only == self._configuration.should_only",
                          "result._behavior_requirement.should_not == self._configuration.should_not",
                          "result._behavior_requirement.behavior_exception == self._configuration.except_present",
                          "same_elements(result._module_requirement._importer_as_specified_by_user, unwrap(self._configuration.modules_to_check))",
                          "same_elements(result._module_requirement._importees_as_specified_by_user, unwrap(self._configuration.modules_to_check_against))",
                          "result._module_requirement._importer_specified_as_rule_subject == unwrap(self._configuration.import_)"],
                 properties=["C01", "C12", "C13"]))

# ---- Rule.assert_applies: the whole verdict as a function of (graph, configuration)
REG.macro("eff_exc", ["c"], "c.except_present or c.rule_object_anything")
REG.macro("S_eff", ["c"], "dedup(unwrap(c.modules_to_check)) if c.rule_object_anything else unwrap(c.modules_to_check)")
REG.macro("O_eff", ["c"], "dedup(unwrap(c.modules_to_check)) if c.rule_object_anything else unwrap(c.modules_to_check_against)")
REG.macro("cfg_bad", ["c"],
          "(not (c.should or c.should_only or c.should_not)) or is_none(c.import_) or is_none(c.modules_to_check) or (not nonempty(S_eff(c))) "
          "or ((not c.rule_object_anything) and is_none(c.modules_to_check_against)) or (not nonempty(O_eff(c))) or (c.rule_object_anything and not c.should_not)")
REG.macro("b_eff", ["c"], "new(BehaviorRequirement, should=c.should, should_only=c.should_only, should_not=c.should_not, behavior_exception=eff_exc(c))")
REG.macro("mr_eff", ["c"],
          "new(ModuleRequirement, _importer_as_specified_by_user=S_eff(c), _importees_as_specified_by_user=O_eff(c), "
          "_importers=(S_eff(c) if unwrap(c.import_) else O_eff(c)), _importees=(O_eff(c) if unwrap(c.import_) else S_eff(c)), "
          "_importer_specified_as_rule_subject=unwrap(c.import_))")
REG.macro("rule_ok_cfg", ["c"], "(not cfg_bad(c)) and not br_inconsistent(b_eff(c))")
_OPQ = ["realised_b", "abstract_b", "realised_m_b", "missing_b", "G_realised_b", "G_abstract_b", "G_or_f", "G_or_r", "G_om_f", "G_om_r", "Q_edge", "Q_else_f", "Q_else_r", "some_edge", "some_missing_edge", "some_else_f", "some_else_r", "some_missing_else_f", "some_missing_else_r"]
REG.add(Contract("Rule.assert_applies", module=M_RULE, kind="method",
                 params=dict(self="Rule", evaluable="EvaluableArchitectureGraph"), returns="None", modifies=["self"],
                 requires=["WF(evaluable._graph)"],
                 raises=[
                     # C13: incomplete / contradictory specifications never produce a verdict
                     ("ImproperlyConfigured", "cfg_bad(self._configuration)"),
                     ("RuleInconsistency", "(not cfg_bad(self._configuration)) and br_inconsistent(b_eff(self._configuration))"),
                     ("ImpossibleMatch", "rule_ok_cfg(self._configuration) and mr_unmatched(evaluable._graph, mr_eff(self._configuration))"),
                     ("NetworkXError", "rule_ok_cfg(self._configuration) and (not mr_unmatched(evaluable._graph, mr_eff(self._configuration))) and fv_raises(evaluable._graph, umr_of(evaluable._graph, mr_eff(self._configuration)), b_eff(self._configuration))"),
                     # C01: AssertionError exactly when the (graph-level) violation predicate holds
                     ("AssertionError", "rule_ok_cfg(self._configuration) and (not mr_unmatched(evaluable._graph, mr_eff(self._configuration))) and (not fv_raises(evaluable._graph, umr_of(evaluable._graph, mr_eff(self._configuration)), b_eff(self._configuration))) and viol_Q(evaluable._graph, umr_of(evaluable._graph, mr_eff(self._configuration)), b_eff(self._configuration))"),
                 ],
                 # C15: evaluation rewrites nothing but the alias normalisation of the rule's own configuration
                 ensures=["self._rule_matcher_class == old(self)._rule_matcher_class",
                          "self._modules_to_check_to_be_specified_next == old(self)._modules_to_check_to_be_specified_next",
                          "implies(not old(self)._configuration.rule_object_anything, self._configuration == old(self)._configuration)",
                          "implies(old(self)._configuration.rule_object_anything, (not self._configuration.rule_object_anything) and self._configuration.except_present "
                          "and same_elements(unwrap(self._configuration.modules_to_check), dedup(unwrap(old(self)._configuration.modules_to_check))) "
                          "and self._configuration.modules_to_check_against == self._configuration.modules_to_check "
                          "and self._configuration.should == old(self)._configuration.should and self._configuration.should_only == old(self)._configuration.should_only "
                          "and self._configuration.should_not == old(self)._configuration.should_not and self._configuration.import_ == old(self)._configuration.import_)"],
                 opaque=_OPQ, properties=["C01", "C03", "C11", "C12", "C13", "C15"]))
REG.add(Contract("Rule._assert_anything_only_used_with_should_not", module=M_RULE, kind="method", params=RULE, returns="None",
                 raises=[("ImproperlyConfigured", "self._configuration.rule_object_anything and not self._configuration.should_not")],
                 properties=["C13"]))
