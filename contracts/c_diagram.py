"""Contracts: query_language/multiple_rule_applier.py and diagram_extension/diagram_rule.py (C07), diagram_parser.py merge functions (C06)."""
import z3
from pyvc import vals
from pyvc.vals import V, vbool
from .speclib import REG, Contract

M_MRA = "pytestarch.query_language.multiple_rule_applier"
M_DR = "pytestarch.diagram_extension.diagram_rule"
M_DP = "pytestarch.diagram_extension.diagram_parser"
S = z3.StringSort()

# ---------------------------------------------------------------- RuleApplier: abstract outcome of one rule on one evaluable
RA = vals.opaque_sort("RuleApplier")
EV = vals.opaque_sort("Evaluable")
_f_viol = z3.Function("ra_violated", RA, EV, z3.BoolSort())
_f_err = z3.Function("ra_errors", RA, EV, z3.BoolSort())
_f_msg = z3.Function("ra_message", RA, EV, S)
for _n, _f in (("ra_violated", _f_viol), ("ra_errors", _f_err)):
    def _mk(f):
        return lambda eng, st, r, e: vbool(f(r.x, e.x))
    REG.specfuns[_n] = _mk(_f)
REG.specfuns["ra_message"] = lambda eng, st, r, e: V(("str",), _f_msg(r.x, e.x))
REG.exc_bases["RuleEvaluationError"] = ["Exception"]
REG.add(Contract("RuleApplier.assert_applies", status="abstract", kind="method", params=dict(self="Opaque[RuleApplier]", evaluable="Opaque[Evaluable]"), returns="None",
                 raises=[("RuleEvaluationError", "ra_errors(self, evaluable)"), ("AssertionError", "(not ra_errors(self, evaluable)) and ra_violated(self, evaluable)")],
                 payloads={"AssertionError": "ra_message(self, evaluable)"},
                 note="any rule: configuration / lookup error, architectural violation (AssertionError carrying its message), or normal return"))
vals.declare_obj("MultipleRuleApplier", dict(_rule_appliers="Bag[Opaque[RuleApplier]]"))
MRA = "MultipleRuleApplier"
REG.add(Contract(f"{MRA}.__init__", module=M_MRA, kind="method", params=dict(self=MRA, rule_appliers="Bag[Opaque[RuleApplier]]"), returns="None", modifies=["self"],
                 ensures=["same_elements(self._rule_appliers, rule_appliers)"], properties=["C07"]))
REG.add(Contract(f"{MRA}.assert_applies", module=M_MRA, kind="method", params=dict(self=MRA, evaluable="Opaque[Evaluable]"), returns="None",
                 # C07: ALL rules are evaluated (no stop at the first failure); the aggregate fails iff some rule is violated;
                 # an erroring rule is never turned into a verdict (C13)
                 raises=[("RuleEvaluationError", "exists(Opaque[RuleApplier], lambda r: (r in self._rule_appliers) and ra_errors(r, evaluable))"),
                         ("AssertionError", "(not exists(Opaque[RuleApplier], lambda r: (r in self._rule_appliers) and ra_errors(r, evaluable))) and "
                                            "exists(Opaque[RuleApplier], lambda r: (r in self._rule_appliers) and ra_violated(r, evaluable))")],
                 locals=dict(error_messages="Bag[Str]"),
                 loops={0: dict(sig="for rule_applier in self._rule_appliers", invariant=[
                     "forall(Opaque[RuleApplier], lambda r: implies(r in seen, not ra_errors(r, evaluable)))",
                     # the collected messages are exactly the messages of the violated rules seen so far
                     "forall(Str, lambda m: (m in error_messages) == exists(Opaque[RuleApplier], lambda r: (r in seen) and ra_violated(r, evaluable) and m == ra_message(r, evaluable)))"])},
                 properties=["C07", "C13", "C15"]))

# ---------------------------------------------------------------- ModulePrefixer (string view)
vals.declare_obj("ParsedDependencies", dict(all_modules="Set[Str]", dependencies="Dict[Str,Set[Str]]"))
REG.ctors["ParsedDependencies"] = None


def _pd_ctor(reg, eng, st, args, kwargs, node):
    layout = vals.OBJ_LAYOUT["ParsedDependencies"]
    vs = dict(zip(["all_modules", "dependencies"], args))
    vs.update(kwargs)
    return [(st, V(("obj", "ParsedDependencies"), {f: eng.typed(v, layout[f]) for f, v in vs.items()}))]


REG.ctors["ParsedDependencies"] = _pd_ctor
REG.macro("prefixed", ["prefix", "m"], "m if is_none(prefix) else (unwrap(prefix) + '.' + m)")
REG.add(Contract("ModulePrefixer._add_prefix_to_module", module=M_DR, kind="classmethod", view="string", params=dict(module_name="Str", prefix="Opt[Str]"), returns="Str",
                 # C07: with_base_module(p) behaves exactly like writing every component as p.name
                 defn="prefixed(prefix, module_name)", properties=["C07", "C14"]))
REG.add(Contract("ModulePrefixer.prefix", module=M_DR, kind="classmethod", view="string", params=dict(parsed_dependencies="ParsedDependencies", prefix="Opt[Str]"),
                 returns="ParsedDependencies",
                 ensures=["forall(Str, lambda x: (x in result.all_modules) == exists(Str, lambda m: (m in parsed_dependencies.all_modules) and x == prefixed(prefix, m)))",
                          "forall(Str, lambda k: (k in result.dependencies) == exists(Str, lambda m: (m in parsed_dependencies.dependencies) and k == prefixed(prefix, m)))",
                          "forall(Str, Str, lambda m, x: implies(m in parsed_dependencies.dependencies, (x in result.dependencies[prefixed(prefix, m)]) == "
                          "exists(Str, lambda v: (v in parsed_dependencies.dependencies[m]) and x == prefixed(prefix, v))))"],
                 locals=dict(modules="Set[Str]", dependencies="Dict[Str,Set[Str]]"), aliases_ok=["modules", "dependencies"],
                 properties=["C07", "C14"]))
