"""Contracts: query_language/multiple_rule_applier.py and diagram_extension/diagram_rule.py (C07), diagram_parser.py merge functions (C06)."""
import z3
from pyvc import vals
from pyvc.vals import V, vbool
from .speclib import REG, Contract

M_MRA = "pytestarch.query_language.multiple_rule_applier"
M_DR = "pytestarch.diagram_extension.diagram_rule"
M_DP = "pytestarch.diagram_extension.diagram_parser"
S = z3.StringSort()

# ---------------------------------------------------------------- RuleApplier: abstract outcome of one rule on one evaluable
RA = vals.opaque_sort("RuleApplier")
EV = vals.opaque_sort("Evaluable")
_f_viol = z3.Function("ra_violated", RA, EV, z3.BoolSort())
_f_err = z3.Function("ra_errors", RA, EV, z3.BoolSort())
_f_msg = z3.Function("ra_message", RA, EV, S)
for _n, _f in (("ra_violated", _f_viol), ("ra_errors", _f_err)):
    def _mk(f):
        return lambda eng, st, r, e: vbool(f(r.x, e.x))
    REG.specfuns[_n] = _mk(_f)
REG.specfuns["ra_message"] = lambda eng, st, r, e: V(("str",), _f_msg(r.x, e.x))
REG.exc_bases["RuleEvaluationError"] = ["Exception"]
REG.add(Contract("RuleApplier.assert_applies", status="abstract", kind="method", params=dict(self="Opaque[RuleApplier]", evaluable="Opaque[Evaluable]"), returns="None",
                 raises=[("RuleEvaluationError", "ra_errors(self, evaluable)"), ("AssertionError", "(not ra_errors(self, evaluable)) and ra_violated(self, evaluable)")],
                 payloads={"AssertionError": "ra_message(self, evaluable)"},
                 note="any rule: configuration / lookup error, architectural violation (AssertionError carrying its message), or normal return"))
vals.declare_obj("MultipleRuleApplier", dict(_rule_appliers="Bag[Opaque[RuleApplier]]"))
MRA = "MultipleRuleApplier"
REG.add(Contract(f"{MRA}.__init__", module=M_MRA, kind="method", params=dict(self=MRA, rule_appliers="Bag[Opaque[RuleApplier]]"), returns="None", modifies=["self"],
                 ensures=["same_elements(self._rule_appliers, rule_appliers)"], properties=["C07"]))
REG.add(Contract(f"{MRA}.assert_applies", module=M_MRA, kind="method", params=dict(self=MRA, evaluable="Opaque[Evaluable]"), returns="None",
                 # C07: ALL rules are evaluated (no stop at the first failure); the aggregate fails iff some rule is violated;
                 # an erroring rule is never turned into a verdict (C13)
                 raises=[("RuleEvaluationError", "exists(Opaque[RuleApplier], lambda r: (r in self._rule_appliers) and ra_errors(r, evaluable))"),
                         ("AssertionError", "(not exists(Opaque[RuleApplier], lambda r: (r in self._rule_appliers) and ra_errors(r, evaluable))) and "
                                            "exists(Opaque[RuleApplier], lambda r: (r in self._rule_appliers) and ra_violated(r, evaluable))")],
                 locals=dict(error_messages="Bag[Str]"),
                 loops={0: dict(sig="for rule_applier in self._rule_appliers", invariant=[
                     "forall(Opaque[RuleApplier], lambda r: implies(r in seen, not ra_errors(r, evaluable)))",
                     # the collected messages are exactly the messages of the violated rules seen so far
                     "forall(Str, lambda m: (m in error_messages) == exists(Opaque[RuleApplier], lambda r: (r in seen) and ra_violated(r, evaluable) and m == ra_message(r, evaluable)))"])},
                 properties=["C07", "C13", "C15"]))

# ---------------------------------------------------------------- ModulePrefixer (string view)
vals.declare_obj("ParsedDependencies", dict(all_modules="Set[Node]", dependencies="Dict[Node,Set[Node]]"))   # Node = Str in the string view
REG.ctors["ParsedDependencies"] = None


def _pd_ctor(reg, eng, st, args, kwargs, node):
    layout = vals.OBJ_LAYOUT["ParsedDependencies"]
    vs = dict(zip(["all_modules", "dependencies"], args))
    vs.update(kwargs)
    return [(st, V(("obj", "ParsedDependencies"), {f: eng.typed(v, layout[f]) for f, v in vs.items()}))]


REG.ctors["ParsedDependencies"] = _pd_ctor
REG.macro("prefixed", ["prefix", "m"], "m if is_none(prefix) else (unwrap(prefix) + '.' + m)")
REG.add(Contract("ModulePrefixer._add_prefix_to_module", module=M_DR, kind="classmethod", view="string", params=dict(module_name="Str", prefix="Opt[Str]"), returns="Str",
                 # C07: with_base_module(p) behaves exactly like writing every component as p.name
                 defn="prefixed(prefix, module_name)", properties=["C07", "C14"]))
REG.add(Contract("ModulePrefixer.prefix", module=M_DR, kind="classmethod", view="string", params=dict(parsed_dependencies="ParsedDependencies", prefix="Opt[Str]"),
                 returns="ParsedDependencies",
                 ensures=["forall(Str, lambda x: (x in result.all_modules) == exists(Str, lambda m: (m in parsed_dependencies.all_modules) and x == prefixed(prefix, m)))",
                          "forall(Str, lambda k: (k in result.dependencies) == exists(Str, lambda m: (m in parsed_dependencies.dependencies) and k == prefixed(prefix, m)))",
                          "forall(Str, Str, lambda m, x: implies(m in parsed_dependencies.dependencies, (x in result.dependencies[prefixed(prefix, m)]) == "
                          "exists(Str, lambda v: (v in parsed_dependencies.dependencies[m]) and x == prefixed(prefix, v))))"],
                 locals=dict(modules="Set[Str]", dependencies="Dict[Str,Set[Str]]"), aliases_ok=["modules", "dependencies"],
                 properties=["C07", "C14"]))

# ---------------------------------------------------------------- PumlParser: alias resolution and merge (C06), string view
vals.declare_data("PumlModule", [("pm_name", ("str",)), ("pm_alias", ("opt", ("str",)))])
PM = vals.DATA["PumlModule"]
REG.method_family["PumlModule"] = "Module@puml"
REG.specfuns["pm_name"] = lambda eng, st, m: V(("str",), PM["fields"]["pm_name"][0](m.x))
REG.specfuns["pm_alias"] = lambda eng, st, m: vals.from_term(("opt", ("str",)), PM["fields"]["pm_alias"][0](m.x))
REG.add(Contract("Module@puml.name", status="assumed", kind="property", params=dict(self="PumlModule"), returns="Str", defn="pm_name(self)", note="dataclass field"))
REG.add(Contract("Module@puml.alias", status="assumed", kind="property", params=dict(self="PumlModule"), returns="Opt[Str]", defn="pm_alias(self)", note="dataclass field"))
vals.declare_obj("PumlParser", dict())
PP = "PumlParser"
# resolve(a, m): the component name an identifier stands for
REG.macro("resolved", ["A", "m"], "A[m] if (m in A) else m")
REG.add(Contract(f"{PP}._unify_module", module=M_DP, kind="classmethod", view="string", params=dict(module="Str", all_aliases="Dict[Str,Str]"), returns="Str",
                 defn="resolved(all_aliases, module)", properties=["C06"]))
REG.add(Contract(f"{PP}._get_modules_by_alias", module=M_DP, kind="classmethod", view="string", params=dict(modules="Set[PumlModule]"), returns="Dict[Str,Str]",
                 ensures=["forall(Str, lambda a: (a in result) == exists(PumlModule, lambda m: (m in modules) and (not is_none(pm_alias(m))) and unwrap(pm_alias(m)) == a))",
                          "forall(Str, lambda a: implies(a in result, exists(PumlModule, lambda m: (m in modules) and (not is_none(pm_alias(m))) and unwrap(pm_alias(m)) == a and result[a] == pm_name(m))))"],
                 properties=["C06"]))
REG.add(Contract(f"{PP}._get_unified_modules", module=M_DP, kind="classmethod", view="string",
                 params=dict(modules="Set[PumlModule]", unified_dependencies="Dict[Str,Set[Str]]"), returns="Set[Str]",
                 # components = declared names + dependors + dependees
                 ensures=["forall(Str, lambda x: (x in result) == (exists(PumlModule, lambda m: (m in modules) and x == pm_name(m)) or (x in unified_dependencies) "
                          "or exists(Str, lambda k: (k in unified_dependencies) and (x in unified_dependencies[k]))))"],
                 locals=dict(all_modules="Set[Str]"),
                 loops={0: dict(sig="for dependee_modules in unified_dependencies.values()", invariant=[
                     "forall(Str, lambda x: (x in all_modules) == (exists(PumlModule, lambda m: (m in modules) and x == pm_name(m)) or (x in unified_dependencies) "
                     "or exists(Set[Str], lambda D: (D in seen) and (x in D))))"])},
                 properties=["C06"]))
REG.macro("by_alias_ok", ["modules", "A"],
          "forall(Str, lambda a: (a in A) == exists(PumlModule, lambda m: (m in modules) and (not is_none(pm_alias(m))) and unwrap(pm_alias(m)) == a))")
# every alias stands for the name of SOME declaration that carries it
REG.macro("alias_values_ok", ["modules", "A"],
          "forall(Str, lambda a: implies(a in A, exists(PumlModule, lambda m: (m in modules) and (not is_none(pm_alias(m))) and unwrap(pm_alias(m)) == a and A[a] == pm_name(m))))")
REG.add(Contract(f"{PP}._unify", module=M_DP, kind="method", view="string",
                 params=dict(self=PP, modules="Set[PumlModule]", dependencies="Dict[Str,Set[Str]]"), returns="Tuple[Set[Str],Dict[Str,Set[Str]]]",
                 # C06: the dependencies of a component are the union over ALL lines that name it as dependor -- by alias or by name --, every identifier resolved
                 ensures=["exists(Dict[Str,Str], lambda A: by_alias_ok(modules, A) and alias_values_ok(modules, A) and "
                          "forall(Str, lambda k: (k in result[1]) == exists(Str, lambda d: (d in dependencies) and k == resolved(A, d))) and "
                          "forall(Str, Str, lambda k, x: implies(k in result[1], (x in result[1][k]) == exists(Str, Str, lambda d, e: (d in dependencies) and resolved(A, d) == k and (e in dependencies[d]) and x == resolved(A, e)))))",
                          # components = declared names + dependors + dependees (all resolved)
                          "forall(Str, lambda x: (x in result[0]) == (exists(PumlModule, lambda m: (m in modules) and x == pm_name(m)) or (x in result[1]) "
                          "or exists(Str, lambda k: (k in result[1]) and (x in result[1][k]))))"],
                 locals=dict(unified_dependencies="Dict[Str,Set[Str]]", unified_dependees="Set[Str]"),
                 loops={0: dict(sig="for (dependor, dependees) in dependencies.items()", invariant=[
                     "forall(Str, lambda k: (k in unified_dependencies) == exists(Str, lambda d: ((d, dependencies[d]) in seen) and k == resolved(all_aliases, d)))",
                     "forall(Str, Str, lambda k, x: implies(k in unified_dependencies, (x in unified_dependencies[k]) == exists(Str, Str, lambda d, e: ((d, dependencies[d]) in seen) and resolved(all_aliases, d) == k and (e in dependencies[d]) and x == resolved(all_aliases, e))))"])},
                 # the witness of the existential: the alias map the function computed (each conjunct is an obligation of its own first)
                 ghost_at={"return (unified_modules, unified_dependencies)": [
                     "by_alias_ok(modules, all_aliases)", "alias_values_ok(modules, all_aliases)",
                     "forall(Str, lambda k: (k in unified_dependencies) == exists(Str, lambda d: (d in dependencies) and k == resolved(all_aliases, d)))",
                     "forall(Str, Str, lambda k, x: implies(k in unified_dependencies, (x in unified_dependencies[k]) == exists(Str, Str, lambda d, e: (d in dependencies) and resolved(all_aliases, d) == k and (e in dependencies[d]) and x == resolved(all_aliases, e))))"]},
                 properties=["C06"]))

# ---------------------------------------------------------------- DependencyToRuleConverter._generate_rule (C07): the rule generated for one component with arrows
M_D2R = "pytestarch.diagram_extension.dependency_to_rule_converter"
vals.declare_obj("DependencyToRuleConverter", dict(_should_only_rule="Bool"))
D2R = "DependencyToRuleConverter"
# the class object DefaultRuleMatcher as a value (the same constant the engine uses for the global name, cf. Registry.global_value)
REG.specfuns["class_DefaultRuleMatcher"] = lambda eng, st: V(("opaque", "Class"), z3.Const("class_DefaultRuleMatcher", vals.sort_of(("opaque", "Class"))))
REG.add(Contract(f"{D2R}._generate_rule", module=M_D2R, kind="method", params=dict(self=D2R, importer="Node", importees="Set[Node]"), returns="Rule",
                 # C07: 'a imports exactly its drawn targets': subject a (by name), verb should_only in the default mode / should otherwise, direction import, objects = the drawn targets
                 ensures=["forall(Filter, lambda f: (f in unwrap(result._configuration.modules_to_check)) == (f == mk_filter_name(importer)))",
                          "not is_none(result._configuration.modules_to_check)", "not is_none(result._configuration.modules_to_check_against)",
                          "forall(Filter, lambda f: (f in unwrap(result._configuration.modules_to_check_against)) == exists(Node, lambda t: (t in importees) and f == mk_filter_name(t)))",
                          "result._configuration.should_only == self._should_only_rule", "result._configuration.should == (not self._should_only_rule)", "not result._configuration.should_not",
                          "result._configuration.import_ == True", "not result._configuration.except_present", "not result._configuration.rule_object_anything",
                          "result._modules_to_check_to_be_specified_next == False", "result._rule_matcher_class == class_DefaultRuleMatcher()"],
                 properties=["C07"]))

# ---------------------------------------------------------------- DependencyToRuleConverter: the LIST of generated rules (C07)
# A list of Rule objects is modelled as the bag of the records (snapshots) of its elements; every Rule in these lists is a temporary built by one
# call chain, so its snapshot is its final state (the engine refuses to store a record that is still reachable under a name).


def _set_fn(name, ctx, idx, elem, elem_type, body):
    """A set-valued specification function  name[ctx](idx) = {elem | body}.  The CONTEXT arguments (records / dicts / sets: e.g. the parsed diagram) must be
    closed terms of the verification condition; they are baked into the symbol (one symbol per distinct context, named by a digest of the context terms), and the
    definitional axiom quantifies over the INDEX arguments and the element only -- never over arrays, which keeps the VCs inside the fragment where z3 / cvc5 can
    also find counter-models (an axiom quantified over an array-valued argument makes every 'sat' answer 'unknown'). Conservative extension per context."""
    import hashlib
    from pyvc.vals import parse_type, sort_of, to_term
    from pyvc.state import OutOfSubset
    ctypes_ = {k: parse_type(v) for k, v in ctx.items()}
    itypes = {k: parse_type(v) for k, v in idx.items()}
    et = parse_type(elem_type)
    rng = z3.ArraySort(sort_of(et), z3.BoolSort())
    syms = {}

    def fn(eng, st, *args):
        cvs = [eng.reg.as_membership(eng, a_) if t[0] in ("bag", "set") else eng.typed(a_, t) for a_, t in zip(args[:len(ctypes_)], ctypes_.values())]
        ivs = [eng.typed(a_, t) for a_, t in zip(args[len(ctypes_):], itypes.values())]
        cterms = [t for v in cvs for t in eng.reg.flatten(v)]
        iterms = [t for v in ivs for t in eng.reg.flatten(v)]
        text = " ".join(t.sexpr() for t in cterms)
        if "@" in text:
            raise OutOfSubset(f"specification function {name}: context argument depends on a bound variable")
        key = name + ("!" + hashlib.md5(text.encode()).hexdigest()[:8] if cterms else "")
        if key not in syms:
            syms[key] = z3.Function(key, *[t.sort() for t in iterms], rng) if iterms else z3.Const(key, rng)
        f_ = syms[key]
        if key not in eng.axioms_used:
            eng.axioms_used[key] = z3.BoolVal(True)
            saved_bound, saved_spec, saved_q = dict(eng.bound), eng.spec, getattr(eng, "qdepth", 0)
            eng.spec, eng.qdepth = True, 80
            try:
                pvs = {pn: eng.bvar("ax!" + pn, pt) for pn, pt in itypes.items()}
                ev_ = eng.bvar("ax!" + elem, et)
                eng.bound = dict(zip(ctypes_, cvs))
                eng.bound.update(pvs)
                eng.bound[elem] = ev_
                eng.qdepth = 81
                from pyvc.state import State as _S
                b_ = eng.truth(eng.ev1(eng.reg.parse_spec(body), _S()))
                consts = [c for v in pvs.values() for c in eng.reg.consts_of(v)] + eng.reg.consts_of(ev_)
                arr = f_(*[t for v in pvs.values() for t in eng.reg.flatten(v)]) if iterms else f_
                app = z3.Select(arr, to_term(ev_))
                eng.axioms_used[key] = z3.ForAll(consts, app == b_, patterns=[app])
            finally:
                eng.bound, eng.spec, eng.qdepth = saved_bound, saved_spec, saved_q
        return V(("bag", et), f_(*iterms) if iterms else f_)

    REG.specfuns[name] = fn
    return fn


PD = "ParsedDependencies"
_set_fn("one_filter", {}, dict(a="Node"), "f", "Filter", "f == mk_filter_name(a)")
# is_not_drawn(pd, a, t): t is ANOTHER component that a has NO arrow to:  t in K - {a} - T(a)
REG.macro("is_not_drawn", ["pd", "a", "t"], "(t in pd.all_modules) and t != a and not ((a in pd.dependencies) and (t in pd.dependencies[a]))")
# the name filters of the drawn targets of a / of the other components a has no arrow to, in the diagram pd
_set_fn("pos_objs", dict(pd=PD), dict(a="Node"), "f", "Filter", "exists(Node, lambda t: (t in pd.dependencies[a]) and f == mk_filter_name(t))")
_set_fn("neg_objs", dict(pd=PD), dict(a="Node"), "f", "Filter", "exists(Node, lambda t: is_not_drawn(pd, a, t) and f == mk_filter_name(t))")
# rule_rec(a, O, s, so, sn): THE record of a finished rule 'modules named a <verb> import modules <O>': subject = exactly the component a (by name),
# direction import, the verb flags, no 'except', no 'anything', default matcher, object side closed. Every field is fixed, so equality with it pins the whole Rule.
REG.macro("rule_rec", ["a", "O", "v_should", "v_should_only", "v_should_not"],
          "new(Rule, _rule_matcher_class=class_DefaultRuleMatcher(), _modules_to_check_to_be_specified_next=False, _configuration=new(RuleConfiguration, "
          "modules_to_check=one_filter(a), modules_to_check_against=O, should=v_should, should_only=v_should_only, should_not=v_should_not, "
          "except_present=False, import_=True, rule_object_anything=False))")
# R+(a): the positive rule of a component with arrows: objects = exactly its drawn targets, should_only in the default mode / should otherwise
REG.macro("rule_pos", ["pd", "a", "so"], "rule_rec(a, pos_objs(pd, a), not so, so, False)")
# R-(a): the should_not rule of a component: objects = exactly the other components it has no arrow to
REG.macro("rule_neg", ["pd", "a"], "rule_rec(a, neg_objs(pd, a), False, False, True)")
REG.macro("has_neg", ["pd", "a"], "exists(Node, lambda t: is_not_drawn(pd, a, t))")
REG.macro("pos_rules_are", ["R", "pd", "so"], "forall(Rule, lambda r: (r in R) == exists(Node, lambda a: (a in pd.dependencies) and r == rule_pos(pd, a, so)))")
REG.macro("neg_rules_are", ["R", "pd", "K"], "forall(Rule, lambda r: (r in R) == exists(Node, lambda a: (a in K) and has_neg(pd, a) and r == rule_neg(pd, a)))")
REG.add(Contract(f"{D2R}.__init__", module=M_D2R, kind="method", params=dict(self=D2R, should_only_rule="Bool"), returns="None", modifies=["self"],
                 ensures=["self._should_only_rule == should_only_rule"], properties=["C07"]))
REG.add(Contract(f"{D2R}._convert_should_rules", module=M_D2R, kind="method", params=dict(self=D2R, dependencies=PD), returns="Bag[Rule]",
                 # C07: exactly one positive rule per component with arrows, towards exactly its drawn targets, verb by mode
                 ensures=["pos_rules_are(result, dependencies, self._should_only_rule)"], properties=["C07"]))
REG.add(Contract(f"{D2R}._convert_should_not_rules", module=M_D2R, kind="classmethod", params=dict(parsed_dependencies=PD), returns="Bag[Rule]",
                 # C07: for EVERY component (with or without arrows) one should_not rule towards exactly the other components it has no arrow to
                 # (none when it has an arrow to every other component)
                 ensures=["neg_rules_are(result, parsed_dependencies, parsed_dependencies.all_modules)"],
                 locals=dict(rules="Bag[Rule]", imported="Set[Node]", all_other_modules="Set[Node]", not_imported="Set[Node]", sorted_not_imported="Bag[Node]"),
                 loops={0: dict(sig="for possible_importer in sorted(parsed_dependencies.all_modules)", invariant=["neg_rules_are(rules, parsed_dependencies, seen)"])},
                 # the forbidden objects of a component, stated on plain sets of names (a decidable fragment: a wrong set is REFUTED with a small model, not merely undecided)
                 ghost_at={"if not_imported": ["forall(Node, lambda t: (t in not_imported) == is_not_drawn(parsed_dependencies, possible_importer, t))"],
                           "rules.append(": ["forall(Node, lambda t: (t in sorted_not_imported) == is_not_drawn(parsed_dependencies, possible_importer, t))"]},
                 properties=["C07"]))
REG.add(Contract(f"{D2R}._convert_should_not_rules@sets", qualname=f"{D2R}._convert_should_not_rules", module=M_D2R, kind="classmethod", params=dict(parsed_dependencies=PD), returns="Bag[Rule]",
                 # second contract of the SAME function, nothing assumed about the rule list (trivial invariant, no postcondition): only the set-level facts of one iteration, so
                 # their VCs have no quantifier over rule records and a wrong set of forbidden objects is REFUTED with a small model (in the full contract above the same ghost
                 # assertions sit behind the invariant over rule records, where the solvers can prove but not find counter-models)
                 locals=dict(rules="Bag[Rule]", imported="Set[Node]", all_other_modules="Set[Node]", not_imported="Set[Node]", sorted_not_imported="Bag[Node]"),
                 loops={0: dict(sig="for possible_importer in sorted(parsed_dependencies.all_modules)", invariant=["True"])},
                 ghost_at={"if not_imported": ["forall(Node, lambda t: (t in not_imported) == is_not_drawn(parsed_dependencies, possible_importer, t))"],
                           "rules.append(": ["forall(Node, lambda t: (t in sorted_not_imported) == is_not_drawn(parsed_dependencies, possible_importer, t))",
                                             "exists(Node, lambda t: is_not_drawn(parsed_dependencies, possible_importer, t))"]},
                 properties=["C07"]))
REG.add(Contract(f"{D2R}.convert", module=M_D2R, kind="method", params=dict(self=D2R, dependencies=PD), returns="Bag[Rule]",
                 # C07: the rule list is exactly {R+(a) | a has arrows} + {R-(a) | a in K, K - {a} - T(a) non-empty}
                 ensures=["forall(Rule, lambda r: (r in result) == (exists(Node, lambda a: (a in dependencies.dependencies) and r == rule_pos(dependencies, a, self._should_only_rule)) or "
                          "exists(Node, lambda a: (a in dependencies.all_modules) and has_neg(dependencies, a) and r == rule_neg(dependencies, a))))"],
                 locals=dict(should_rules="Bag[Rule]", should_not_rules="Bag[Rule]"),
                 properties=["C07"]))

# ---------------------------------------------------------------- DiagramRule (C07, C13): builder, configuration check, composition
# A Rule IS-A RuleApplier: applier_of(record of the rule) is the interface object whose outcome on an evaluable is ra_errors / ra_violated / ra_message.
_f_applier_of = z3.Function("applier_of", vals.sort_of(("obj", "Rule")), RA)
REG.specfuns["applier_of"] = lambda eng, st, r: V(("opaque", "RuleApplier"), _f_applier_of(vals.to_term(r)))
REG.upcasts[(("obj", "Rule"), ("opaque", "RuleApplier"))] = _f_applier_of
PATH = vals.opaque_sort("Path")
# the diagram file: its text as read (open(p).read().strip(), library: assumed) and whether that text has a non-empty part between @startuml and @enduml
# (puml_text / puml_tagged: macros defined with the parser contracts below)
REG.ctors["PumlParser"] = lambda reg, eng, st, args, kwargs, node: [(st, V(("obj", "PumlParser"), {}))]   # class without __init__, no state
vals.declare_obj("DiagramRule", dict(_file_path="Opt[Opaque[Path]]", _name_relative_to_root="Opt[Node]", _should_only_rule="Bool"))
DR = "DiagramRule"
REG.class_bases[DR] = ["FileRule", "BaseModuleSpecifier", "RuleApplier"]
_DR_SAME = lambda *changed: [f"self.{f} == old(self).{f}" for f in ("_file_path", "_name_relative_to_root", "_should_only_rule") if f not in changed]
# the abstract fluent interface (query_language/base_language.py): bodies are 'pass'; the interface promises nothing beyond the types
M_BL = "pytestarch.query_language.base_language"
REG.add(Contract("FileRule.from_file", status="abstract", kind="method", params=dict(self="Opaque[FileRule]", file_path="Opaque[Path]"), returns="Opaque[BaseModuleSpecifier]",
                 note="abstract: sets the file the rules are read from"))
REG.add(Contract("BaseModuleSpecifier.with_base_module", status="abstract", kind="method", params=dict(self="Opaque[BaseModuleSpecifier]", name_relative_to_root="Node"),
                 returns="Opaque[RuleApplier]", note="abstract: component names are relative to this module"))
REG.add(Contract("BaseModuleSpecifier.base_module_included_in_module_names", status="abstract", kind="method", params=dict(self="Opaque[BaseModuleSpecifier]"),
                 returns="Opaque[RuleApplier]", note="abstract: component names are fully qualified"))
REG.add(Contract(f"{DR}.__init__", module=M_DR, kind="method", view="string", params=dict(self=DR, should_only_rule="Bool"), defaults=dict(should_only_rule="True"), returns="None",
                 modifies=["self"], ensures=["is_none(self._file_path)", "is_none(self._name_relative_to_root)", "self._should_only_rule == should_only_rule"],
                 properties=["C07", "C13"]))
REG.add(Contract(f"{DR}.from_file", module=M_DR, kind="method", view="string", params=dict(self=DR, file_path="Opaque[Path]"), returns=DR, modifies=["self"],
                 ensures=["(not is_none(self._file_path)) and unwrap(self._file_path) == file_path", "result == self"] + _DR_SAME("_file_path"),
                 impl_of="FileRule.from_file", properties=["C07", "C13"]))
REG.add(Contract(f"{DR}.with_base_module", module=M_DR, kind="method", view="string", params=dict(self=DR, name_relative_to_root="Node"), returns=DR, modifies=["self"],
                 ensures=["(not is_none(self._name_relative_to_root)) and unwrap(self._name_relative_to_root) == name_relative_to_root", "result == self"] + _DR_SAME("_name_relative_to_root"),
                 impl_of="BaseModuleSpecifier.with_base_module", properties=["C07", "C13"]))
REG.add(Contract(f"{DR}.base_module_included_in_module_names", module=M_DR, kind="method", view="string", params=dict(self=DR), returns=DR,
                 ensures=["result == self"], impl_of="BaseModuleSpecifier.base_module_included_in_module_names", properties=["C07", "C13"]))
REG.add(Contract(f"{DR}._assert_required_configuration_present", module=M_DR, kind="method", view="string", params=dict(self=DR), returns="None",
                 # C13: a diagram rule without a file never produces a verdict
                 raises=[("ImproperlyConfigured", "is_none(self._file_path)")], properties=["C07", "C13"]))
_PFX = lambda pd, p: [
    f"forall(Str, lambda x: (x in result.all_modules) == exists(Str, lambda m: (m in {pd}.all_modules) and x == prefixed({p}, m)))",
    f"forall(Str, lambda k: (k in result.dependencies) == exists(Str, lambda m: (m in {pd}.dependencies) and k == prefixed({p}, m)))",
    f"forall(Str, Str, lambda m, x: implies(m in {pd}.dependencies, (x in result.dependencies[prefixed({p}, m)]) == "
    f"exists(Str, lambda v: (v in {pd}.dependencies[m]) and x == prefixed({p}, v))))"]
REG.add(Contract(f"{DR}._add_base_module_path", module=M_DR, kind="method", view="string", params=dict(self=DR, parsed_dependencies=PD), returns=PD, pure=True,
                 # C07: with_base_module(p) == writing every component (declared, dependor, dependee) as p.name; without it the names stay as written
                 ensures=_PFX("parsed_dependencies", "self._name_relative_to_root"), properties=["C07"]))
_CONV = ("forall(Rule, lambda r: (r in result) == (exists(Node, lambda a: (a in dependencies.dependencies) and r == rule_pos(dependencies, a, self._should_only_rule)) or "
         "exists(Node, lambda a: (a in dependencies.all_modules) and has_neg(dependencies, a) and r == rule_neg(dependencies, a))))")
REG.add(Contract(f"{DR}._convert_to_rules", module=M_DR, kind="method", view="string", params=dict(self=DR, dependencies=PD), returns="Bag[Rule]",
                 ensures=[_CONV], properties=["C07"]))
_ERR = "exists(Rule, lambda r: (r in RULES) and ra_errors(applier_of(r), evaluable))"
_VIOL = "exists(Rule, lambda r: (r in RULES) and ra_violated(applier_of(r), evaluable))"
_DERR = "exists(Rule, lambda r: in_dr_rules(self, r) and ra_errors(applier_of(r), evaluable))"
_DVIOL = "exists(Rule, lambda r: in_dr_rules(self, r) and ra_violated(applier_of(r), evaluable))"
REG.add(Contract(f"{DR}._apply_rules", module=M_DR, kind="classmethod", view="string", params=dict(rule_appliers="Bag[Rule]", evaluable="Opaque[Evaluable]"), returns="None",
                 # C07: ALL rules are evaluated; the aggregate fails iff some rule is violated; an erroring rule is never a verdict
                 raises=[("RuleEvaluationError", _ERR.replace("RULES", "rule_appliers")),
                         ("AssertionError", "(not " + _ERR.replace("RULES", "rule_appliers") + ") and " + _VIOL.replace("RULES", "rule_appliers"))],
                 properties=["C07", "C13"]))
# the rules a configured DiagramRule stands for: converted rules of the prefixed parse result of its file
REG.macro("dr_pd", ["d"], "d._add_base_module_path(PumlParser().parse(unwrap(d._file_path)))")
REG.macro("in_dr_rules", ["d", "r"], "exists(Node, lambda a: (a in dr_pd(d).dependencies) and r == rule_pos(dr_pd(d), a, d._should_only_rule)) or "
          "exists(Node, lambda a: (a in dr_pd(d).all_modules) and has_neg(dr_pd(d), a) and r == rule_neg(dr_pd(d), a))")
REG.macro("dr_file_ok", ["d"], "(not is_none(d._file_path)) and puml_tagged(puml_text(unwrap(d._file_path)))")
REG.add(Contract(f"{DR}.assert_applies", module=M_DR, kind="method", view="string", params=dict(self=DR, evaluable="Opaque[Evaluable]"), returns="None",
                 raises=[
                     # C13: no file / no diagram between the tags -> configuration / parsing error, never a verdict (whether or not a base module was chosen)
                     ("ImproperlyConfigured", "is_none(self._file_path)"),
                     ("PumlParsingError", "(not is_none(self._file_path)) and not puml_tagged(puml_text(unwrap(self._file_path)))"),
                     # C07: otherwise exactly the outcome of MultipleRuleApplier over the converted rules of the prefixed parse result
                     ("RuleEvaluationError", "dr_file_ok(self) and " + _DERR),
                     ("AssertionError", "dr_file_ok(self) and (not " + _DERR + ") and " + _DVIOL)],
                 impl_of="RuleApplier.assert_applies", properties=["C07", "C13"]))

# ---------------------------------------------------------------- PumlParser.parse: the structure around the regex tokenisation (C06, C13)
# Library (assumed): re.compile with flags, re.search, re.finditer, Match.group; open / read (c_parser.py); str.strip (engine model: an uninterpreted function).
# The regular expressions themselves are opaque here: a compiled pattern is re_compiled(text of the regex, flags); what re.search / re.finditer return for a pattern
# and a text is an uninterpreted relation (the 'token relation' of DESIGN section 4, C06). What is PROVED is everything the parser does around it.
PATTERN = vals.opaque_sort("Pattern")
MATCH = vals.opaque_sort("Match")
I_ = z3.IntSort()
_f_re_compiled = z3.Function("re_compiled", S, I_, PATTERN)
_f_re_search_none = z3.Function("re_search_none", PATTERN, S, z3.BoolSort())
_f_re_search_val = z3.Function("re_search_val", PATTERN, S, MATCH)
_f_re_found = z3.Function("re_found", PATTERN, S, MATCH, z3.BoolSort())
_f_group_i = z3.Function("match_group_i", MATCH, I_, S)
_f_group_none = z3.Function("match_group_none", MATCH, S, z3.BoolSort())
_f_group_val = z3.Function("match_group_val", MATCH, S, S)
REG.module_constants["re.DOTALL"] = V(("int",), z3.IntVal(16))      # the real values of the flags (int(re.DOTALL) == 16, int(re.MULTILINE) == 8)
REG.module_constants["re.MULTILINE"] = V(("int",), z3.IntVal(8))
REG.specfuns["re_compiled"] = lambda eng, st, p, f: V(("opaque", "Pattern"), _f_re_compiled(p.x, f.x))
REG.specfuns["re_search_obj"] = lambda eng, st, p, s: V(("opt", ("opaque", "Match")), (_f_re_search_none(p.x, s.x), V(("opaque", "Match"), _f_re_search_val(p.x, s.x))))
REG.specfuns["re_found"] = lambda eng, st, p, s, m: vbool(_f_re_found(p.x, s.x, m.x))
REG.specfuns["match_group_i"] = lambda eng, st, m, i: V(("str",), _f_group_i(m.x, i.x))
REG.specfuns["match_group"] = lambda eng, st, m, g: V(("opt", ("str",)), (_f_group_none(m.x, g.x), V(("str",), _f_group_val(m.x, g.x))))
REG.add(Contract("re.compile@flags", qualname="re.compile", status="assumed", params=dict(pattern="Str", flags="Int"), returns="Opaque[Pattern]", defn="re_compiled(pattern, flags)",
                 note="re.compile(regex, flags): the compiled pattern is a function of the regex text and the flags"))
REG.contracts["re.compile"].alt = REG.contracts["re.compile@flags"]
REG.add(Contract("re.search", status="assumed", params=dict(pattern="Opaque[Pattern]", string="Str"), returns="Opt[Opaque[Match]]", defn="re_search_obj(pattern, string)",
                 note="re.search: None or a match object, a function of pattern and text (uninterpreted)"))
REG.add(Contract("re.finditer", status="assumed", params=dict(pattern="Opaque[Pattern]", string="Str"), returns="Bag[Opaque[Match]]",
                 ensures=["forall(Opaque[Match], lambda m: (m in result) == re_found(pattern, string, m))"],
                 note="re.finditer: the match objects of the pattern in the text, as a collection (the callers only add what they extract to sets / dicts, so the order is irrelevant); "
                      "WHICH matches there are is the uninterpreted token relation re_found"))
REG.method_family["Match"] = "Match"
REG.add(Contract("Match.group", status="assumed", kind="method", params=dict(self="Opaque[Match]", group="Str"), returns="Opt[Str]", defn="match_group(self, group)",
                 note="m.group(name): the text captured by the named group, None when the group did not take part in the match"))
REG.add(Contract("Match.group@int", qualname="Match.group", status="assumed", kind="method", params=dict(self="Opaque[Match]", group="Int"), returns="Str", defn="match_group_i(self, group)",
                 note="m.group(i) for a group that takes part in EVERY match of its pattern (the only use: group 1 of '.*@startuml(.+)@enduml.*', which is not optional): a str"))
REG.contracts["Match.group"].alt = REG.contracts["Match.group@int"]

# the three regular expressions as the source builds them (evaluated from the module constants on every run; a changed constant changes these terms)
TAG_REGEX = r"'.*' + '@startuml' + '(' + '.+' + ')' + '@enduml' + '.*'"
REG.macro("tag_pattern", [], f"re_compiled({TAG_REGEX}, 16)")
# text has a (non-empty) diagram between the tags  /  that diagram text
REG.macro("puml_has_tags", ["text"], "not is_none(re_search_obj(tag_pattern(), text))")
REG.macro("puml_inner", ["text"], "match_group_i(unwrap(re_search_obj(tag_pattern(), text)), 1)")
REG.add(Contract(f"{PP}._named_group", module=M_DP, kind="classmethod", view="string", params=dict(name="Str", content="Str"), returns="Str",
                 defn="'(?P<' + name + '>' + content + ')'", properties=["C06"]))
REG.add(Contract(f"{PP}._component_optional_brackets", module=M_DP, kind="classmethod", view="string", params=dict(group_name="Str"), returns="Str",
                 # an optional '[' , the named group over [\\w\\d.]+ , an optional ']'
                 defn=r"'(\\[)?' + '(?P<' + group_name + '>' + '(\\w|\\d|\\.)+' + ')' + '(\\])?'", properties=["C06"]))
REG.add(Contract(f"{PP}._remove_content_outside_start_and_end_tags", module=M_DP, kind="classmethod", view="string", params=dict(content="Str"), returns="Str",
                 # C06 / C13: a text without '@startuml <something> @enduml' is rejected with a parsing error; otherwise exactly the text between the tags (group 1) is kept
                 raises=[("PumlParsingError", "not puml_has_tags(content)")], ensures=["result == puml_inner(content)"],
                 properties=["C06", "C13"]))
# the two tokenising loops: bounded (native stand-in native/diagrams.py bounded_puml); their results enter parse as two uninterpreted functions of the diagram text
_f_decl = z3.Function("puml_decl_tokens", S, z3.ArraySort(PM["sort"], z3.BoolSort()))
_f_dep_dom = z3.Function("puml_dep_dom", S, z3.ArraySort(S, z3.BoolSort()))
_f_dep_val = z3.Function("puml_dep_val", S, z3.ArraySort(S, z3.ArraySort(S, z3.BoolSort())))
REG.specfuns["puml_decl_tokens"] = lambda eng, st, t: V(("set", ("data", "PumlModule")), _f_decl(t.x))
REG.specfuns["puml_dep_tokens"] = lambda eng, st, t: V(("dict", ("str",), ("set", ("str",))), (_f_dep_dom(t.x), _f_dep_val(t.x)))
REG.add(Contract(f"{PP}._retrieve_modules_declared_outside_dependencies", module=M_DP, kind="classmethod", view="string", status="bounded", params=dict(content="Str"),
                 returns="Set[PumlModule]", defn="puml_decl_tokens(content)",
                 note="BOUNDED (re.finditer over the whole text with capture groups): the declared (name, alias) pairs are a function of the diagram text; which pairs -- native stand-in C06.puml-parse-vs-generated-relation"))
REG.add(Contract(f"{PP}._retrieve_dependencies_and_inline_modules", module=M_DP, kind="classmethod", view="string", status="bounded", params=dict(content="Str"),
                 returns="Dict[Str,Set[Str]]", defn="puml_dep_tokens(content)",
                 note="BOUNDED (re.finditer over the whole text with capture groups): the drawn dependor -> dependees map as written (aliases unresolved) is a function of the diagram text"))
REG.macro("puml_text", ["p"], "str_strip(file_read(file_of(p)))")
REG.specfuns["str_strip"] = lambda eng, st, s: V(("str",), z3.Function("str_strip", S, S)(s.x))
REG.macro("puml_tagged", ["t"], "puml_has_tags(t)")
REG.macro("parse_ok", ["pd", "modules", "dependencies"],
          "exists(Dict[Str,Str], lambda A: by_alias_ok(modules, A) and alias_values_ok(modules, A) and "
          "forall(Str, lambda k: (k in pd.dependencies) == exists(Str, lambda d: (d in dependencies) and k == resolved(A, d))) and "
          "forall(Str, Str, lambda k, x: implies(k in pd.dependencies, (x in pd.dependencies[k]) == exists(Str, Str, lambda d, e: (d in dependencies) and resolved(A, d) == k and (e in dependencies[d]) and x == resolved(A, e))))) and "
          "forall(Str, lambda x: (x in pd.all_modules) == (exists(PumlModule, lambda m: (m in modules) and x == pm_name(m)) or (x in pd.dependencies) "
          "or exists(Str, lambda k: (k in pd.dependencies) and (x in pd.dependencies[k]))))")
REG.add(Contract(f"{PP}.parse", module=M_DP, kind="method", view="string", params=dict(self=PP, file_path="Opaque[Path]"), returns=PD, pure=True,
                 # C13: a file without the tags is rejected, never parsed to an empty diagram
                 raises=[("PumlParsingError", "not puml_has_tags(puml_text(file_path))")],
                 # C06: components and dependencies are exactly those of the tokens found BETWEEN the tags, aliases resolved, lines merged
                 ensures=["parse_ok(result, puml_decl_tokens(puml_inner(puml_text(file_path))), puml_dep_tokens(puml_inner(puml_text(file_path))))"],
                 locals=dict(content="Str", relevant_content="Str", modules="Set[PumlModule]", dependencies="Dict[Str,Set[Str]]"),
                 note="pure: within one interpreter run the result is a function of the file (with two declarations of ONE alias for different names the choice depends on the hash seed: reported)",
                 impl_of="DiagramParser.parse", properties=["C06", "C13", "C07"]))
REG.add(Contract("DiagramParser.parse", status="abstract", kind="method", params=dict(self="Opaque[DiagramParser]", file_path="Opaque[Path]"), returns=PD,
                 note="abstract base (body: pass): a diagram parser maps a file to components and dependencies"))

# ---------------------------------------------------------------- C06: per-line language facts about the regexes the parser builds (regex as data)
# On every run the REAL functions are executed once on the empty text with re.compile intercepted (child interpreter, PYTHONPATH = the source under
# verification): that yields the regex texts and flags the current source builds. They are parsed with CPython's own re._parser and the fragment they use
# (literals, \w \d \s, '.', groups, ?, +, *, |, ^ $) is translated to SMT-LIB RegLan. Two translations: LO (an under-approximation: \w \d \s restricted to
# ASCII) for 'this line IS matched' claims, HI (an over-approximation: the non-ASCII characters are allowed in every class) for 'every match of the whole
# line binds the groups to ...' claims. ^ and $ are the empty word: the lemmas are about ONE line without a newline matched as a whole.
# NOT covered (bounded stand-in only): which of several possible matches re.finditer picks in a multi-line text (leftmost, greedy, the unanchored second
# alternative, \s+ running across newlines).
_PUML_RE = {}


def _puml_regexes():
    if not _PUML_RE:
        import subprocess, sys, json, os
        src = os.environ.get("PYVC_REPO_SRC", "/repo/src")
        script = ("import re, json\n"
                  "from pytestarch.diagram_extension import diagram_parser as dp\n"
                  "pats = []\n"
                  "orig = re.compile\n"
                  "def cap(p, flags=0):\n"
                  "    pats.append((p, int(flags)))\n"
                  "    return orig(p, flags)\n"
                  "dp.re.compile = cap\n"
                  "dp.PumlParser._retrieve_modules_declared_outside_dependencies('')\n"
                  "dp.PumlParser._retrieve_dependencies_and_inline_modules('')\n"
                  "print(json.dumps(pats))\n")
        env = dict(os.environ, PYTHONPATH=src)
        out = subprocess.run([sys.executable, "-c", script], env=env, capture_output=True, text=True, timeout=60)
        pats = json.loads(out.stdout.strip().splitlines()[-1])
        _PUML_RE["module"], _PUML_RE["dependency"] = pats[0], pats[1]
    return _PUML_RE


_RS = z3.ReSort(S)


def _rng(a, b):
    return z3.Range(z3.StringVal(a), z3.StringVal(b))


def _cls(cat, hi):
    """character class of a CATEGORY_*; hi=True: over-approximation (every non-ASCII character allowed), else ASCII only"""
    name = str(cat)
    if name.endswith("WORD"):
        lo = z3.Union(_rng("a", "z"), _rng("A", "Z"), _rng("0", "9"), z3.Re(z3.StringVal("_")))
    elif name.endswith("DIGIT"):
        lo = _rng("0", "9")
    elif name.endswith("SPACE"):
        lo = z3.Union(*[z3.Re(z3.StringVal(c)) for c in " \t\n\r\f\v"])
    else:
        raise ValueError(f"regex category {name} outside the translated fragment")
    return z3.Union(lo, _rng("\x80", "\U0002ffff")) if hi else lo


def _re2smt(tree, hi):
    import re._constants as sc
    parts = []
    for op, av in tree:
        if op is sc.LITERAL:
            parts.append(z3.Re(z3.StringVal(chr(av))))
        elif op is sc.ANY:
            parts.append(z3.Union(_rng("\x00", "\t"), _rng("\x0b", "\U0002ffff")))   # '.' without DOTALL: anything but newline
        elif op is sc.IN:
            alts = []
            for o2, a2 in av:
                if o2 is sc.LITERAL:
                    alts.append(z3.Re(z3.StringVal(chr(a2))))
                elif o2 is sc.CATEGORY:
                    alts.append(_cls(a2, hi))
                else:
                    raise ValueError(f"regex set item {o2} outside the translated fragment")
            parts.append(alts[0] if len(alts) == 1 else z3.Union(*alts))
        elif op is sc.MAX_REPEAT:
            lo_, hi_, body = av
            b = _re2smt(body, hi)
            if (lo_, hi_) == (0, 1):
                parts.append(z3.Option(b))
            elif lo_ == 1 and hi_ == sc.MAXREPEAT:
                parts.append(z3.Plus(b))
            elif lo_ == 0 and hi_ == sc.MAXREPEAT:
                parts.append(z3.Star(b))
            else:
                raise ValueError("regex repeat bounds outside the translated fragment")
        elif op is sc.SUBPATTERN:
            parts.append(_re2smt(av[3], hi))
        elif op is sc.BRANCH:
            parts.append(z3.Union(*[_re2smt(b, hi) for b in av[1]]))
        elif op is sc.AT:
            parts.append(z3.Re(z3.StringVal("")))
        else:
            raise ValueError(f"regex construct {op} outside the translated fragment")
    if not parts:
        return z3.Re(z3.StringVal(""))
    return parts[0] if len(parts) == 1 else z3.Concat(*parts)


def _puml_lang(which, hi=False):
    import re._parser as sp
    pat, flags = _puml_regexes()[which]
    if flags != 8:
        raise ValueError("the parser's line regexes are expected to be compiled with re.MULTILINE only")
    return _re2smt(sp.parse(pat, flags), hi)


REG.specfuns["puml_dep_line"] = lambda eng, st, line: vbool(z3.InRe(line.x, _puml_lang("dependency")))
REG.specfuns["puml_decl_line"] = lambda eng, st, line: vbool(z3.InRe(line.x, _puml_lang("module")))
# component names of the property: non-empty words over letters, digits, '_' and '.' (single identifiers or dotted module names); arrow texts: \w+; aliases: identifiers
_NAME = z3.Plus(z3.Union(_rng("a", "z"), _rng("A", "Z"), _rng("0", "9"), z3.Re(z3.StringVal("_")), z3.Re(z3.StringVal("."))))
_WORD = z3.Plus(z3.Union(_rng("a", "z"), _rng("A", "Z"), _rng("0", "9"), z3.Re(z3.StringVal("_"))))
REG.specfuns["puml_name"] = lambda eng, st, x: vbool(z3.InRe(x.x, _NAME))
REG.specfuns["puml_word"] = lambda eng, st, x: vbool(z3.InRe(x.x, _WORD))
_DEP_FORMS = {
    "bracketed_long_right": "'[' + a + '] --> [' + b + ']'", "bracketed_short_right": "'[' + a + '] -> [' + b + ']'", "bare_right": "a + ' --> ' + b",
    "text_right": "'[' + a + '] -' + t + '-> [' + b + ']'", "mixed_right": "a + ' -> [' + b + ']'",
    "bracketed_long_left": "'[' + b + '] <-- [' + a + ']'", "bracketed_short_left": "'[' + b + '] <- [' + a + ']'", "bare_left": "b + ' <-- ' + a",
    "text_left": "'[' + b + '] <-' + t + '- [' + a + ']'", "mixed_left": "'[' + b + '] <- ' + a"}
for _nm, _line in _DEP_FORMS.items():
    REG.lemma(f"puml_dependency_regex_accepts_{_nm}", params=dict(a="Str", b="Str", t="Str"), requires=["puml_name(a)", "puml_name(b)", "puml_word(t)"],
              ensures=[f"puml_dep_line({_line})"], view="string", properties=["C06"],
              note="the dependency-line regex built by the current source matches this documented arrow form as a whole line, for ALL component names over the stated alphabet")
_DECL_FORMS = {
    "component_name": "'component ' + a", "brackets": "'[' + a + ']'", "component_brackets": "'component [' + a + ']'",
    "component_name_as": "'component ' + a + ' as ' + t", "brackets_as": "'[' + a + '] as ' + t", "component_brackets_as": "'component [' + a + '] as ' + t"}
for _nm, _line in _DECL_FORMS.items():
    REG.lemma(f"puml_declaration_regex_accepts_{_nm}", params=dict(a="Str", t="Str"), requires=["puml_name(a)", "puml_word(t)"],
              ensures=[f"puml_decl_line({_line})"], view="string", properties=["C06"],
              note="the component-declaration regex built by the current source matches this documented declaration form as a whole line")


# ---- direction: a right-arrow line is matched (as a whole line) by the FIRST alternative only, a left-arrow line by the SECOND only (HI translation: an
# over-approximation of the alternative's language, so 'not matched' is sound). Hence for '[a] --> [b]' the groups dependor2 / dependee2 are None and the pair
# is read from dependor1 / dependee1, and conversely. WHICH substrings the two groups of the matching alternative capture is not proved (see notes).
def _puml_alt(which, i, hi):
    import re._parser as sp, re._constants as sc
    pat, flags = _puml_regexes()[which]
    tree = list(sp.parse(pat, flags))
    if len(tree) != 1 or tree[0][0] is not sc.BRANCH or len(tree[0][1][1]) != 2:
        raise ValueError("the line regex is expected to be one top-level alternation of two alternatives")
    return _re2smt(tree[0][1][1][i], hi)


REG.specfuns["puml_dep_alt1"] = lambda eng, st, line: vbool(z3.InRe(line.x, _puml_alt("dependency", 0, True)))
REG.specfuns["puml_dep_alt2"] = lambda eng, st, line: vbool(z3.InRe(line.x, _puml_alt("dependency", 1, True)))
REG.specfuns["puml_dep_alt1_lo"] = lambda eng, st, line: vbool(z3.InRe(line.x, _puml_alt("dependency", 0, False)))
REG.specfuns["puml_dep_alt2_lo"] = lambda eng, st, line: vbool(z3.InRe(line.x, _puml_alt("dependency", 1, False)))
for _nm, _line in _DEP_FORMS.items():
    _right = _nm.endswith("right")
    REG.lemma(f"puml_dependency_regex_direction_{_nm}", params=dict(a="Str", b="Str", t="Str"), requires=["puml_name(a)", "puml_name(b)", "puml_word(t)"],
              ensures=[f"puml_dep_alt{1 if _right else 2}_lo({_line})", f"not puml_dep_alt{2 if _right else 1}({_line})"], view="string", properties=["C06"],
              note="the arrow direction selects the alternative: the other alternative does not match the line, so its dependor / dependee groups are None")
