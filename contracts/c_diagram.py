"""Contracts: query_language/multiple_rule_applier.py and diagram_extension/diagram_rule.py (C07), diagram_parser.py merge functions (C06)."""
import z3
from pyvc import vals
from pyvc.vals import V, vbool
from .speclib import REG, Contract

M_MRA = "pytestarch.query_language.multiple_rule_applier"
M_DR = "pytestarch.diagram_extension.diagram_rule"
M_DP = "pytestarch.diagram_extension.diagram_parser"
S = z3.StringSort()

# ---------------------------------------------------------------- RuleApplier: abstract outcome of one rule on one evaluable
RA = vals.opaque_sort("RuleApplier")
EV = vals.opaque_sort("Evaluable")
_f_viol = z3.Function("ra_violated", RA, EV, z3.BoolSort())
_f_err = z3.Function("ra_errors", RA, EV, z3.BoolSort())
_f_msg = z3.Function("ra_message", RA, EV, S)
for _n, _f in (("ra_violated", _f_viol), ("ra_errors", _f_err)):
    def _mk(f):
        return lambda eng, st, r, e: vbool(f(r.x, e.x))
    REG.specfuns[_n] = _mk(_f)
REG.specfuns["ra_message"] = lambda eng, st, r, e: V(("str",), _f_msg(r.x, e.x))
REG.exc_bases["RuleEvaluationError"] = ["Exception"]
REG.add(Contract("RuleApplier.assert_applies", status="abstract", kind="method", params=dict(self="Opaque[RuleApplier]", evaluable="Opaque[Evaluable]"), returns="None",
                 raises=[("RuleEvaluationError", "ra_errors(self, evaluable)"), ("AssertionError", "(not ra_errors(self, evaluable)) and ra_violated(self, evaluable)")],
                 payloads={"AssertionError": "ra_message(self, evaluable)"},
                 note="any rule: configuration / lookup error, architectural violation (AssertionError carrying its message), or normal return"))
vals.declare_obj("MultipleRuleApplier", dict(_rule_appliers="Bag[Opaque[RuleApplier]]"))
MRA = "MultipleRuleApplier"
REG.add(Contract(f"{MRA}.__init__", module=M_MRA, kind="method", params=dict(self=MRA, rule_appliers="Bag[Opaque[RuleApplier]]"), returns="None", modifies=["self"],
                 ensures=["same_elements(self._rule_appliers, rule_appliers)"], properties=["C07"]))
REG.add(Contract(f"{MRA}.assert_applies", module=M_MRA, kind="method", params=dict(self=MRA, evaluable="Opaque[Evaluable]"), returns="None",
                 # C07: ALL rules are evaluated (no stop at the first failure); the aggregate fails iff some rule is violated;
                 # an erroring rule is never turned into a verdict (C13)
                 raises=[("RuleEvaluationError", "exists(Opaque[RuleApplier], lambda r: (r in self._rule_appliers) and ra_errors(r, evaluable))"),
                         ("AssertionError", "(not exists(Opaque[RuleApplier], lambda r: (r in self._rule_appliers) and ra_errors(r, evaluable))) and "
                                            "exists(Opaque[RuleApplier], lambda r: (r in self._rule_appliers) and ra_violated(r, evaluable))")],
                 locals=dict(error_messages="Bag[Str]"),
                 loops={0: dict(sig="for rule_applier in self._rule_appliers", invariant=[
                     "forall(Opaque[RuleApplier], lambda r: implies(r in seen, not ra_errors(r, evaluable)))",
                     # the collected messages are exactly the messages of the violated rules seen so far
                     "forall(Str, lambda m: (m in error_messages) == exists(Opaque[RuleApplier], lambda r: (r in seen) and ra_violated(r, evaluable) and m == ra_message(r, evaluable)))"])},
                 properties=["C07", "C13", "C15"]))

# ---------------------------------------------------------------- ModulePrefixer (string view)
vals.declare_obj("ParsedDependencies", dict(all_modules="Set[Str]", dependencies="Dict[Str,Set[Str]]"))
REG.ctors["ParsedDependencies"] = None


def _pd_ctor(reg, eng, st, args, kwargs, node):
    layout = vals.OBJ_LAYOUT["ParsedDependencies"]
    vs = dict(zip(["all_modules", "dependencies"], args))
    vs.update(kwargs)
    return [(st, V(("obj", "ParsedDependencies"), {f: eng.typed(v, layout[f]) for f, v in vs.items()}))]


REG.ctors["ParsedDependencies"] = _pd_ctor
REG.macro("prefixed", ["prefix", "m"], "m if is_none(prefix) else (unwrap(prefix) + '.' + m)")
REG.add(Contract("ModulePrefixer._add_prefix_to_module", module=M_DR, kind="classmethod", view="string", params=dict(module_name="Str", prefix="Opt[Str]"), returns="Str",
                 # C07: with_base_module(p) behaves exactly like writing every component as p.name
                 defn="prefixed(prefix, module_name)", properties=["C07", "C14"]))
REG.add(Contract("ModulePrefixer.prefix", module=M_DR, kind="classmethod", view="string", params=dict(parsed_dependencies="ParsedDependencies", prefix="Opt[Str]"),
                 returns="ParsedDependencies",
                 ensures=["forall(Str, lambda x: (x in result.all_modules) == exists(Str, lambda m: (m in parsed_dependencies.all_modules) and x == prefixed(prefix, m)))",
                          "forall(Str, lambda k: (k in result.dependencies) == exists(Str, lambda m: (m in parsed_dependencies.dependencies) and k == prefixed(prefix, m)))",
                          "forall(Str, Str, lambda m, x: implies(m in parsed_dependencies.dependencies, (x in result.dependencies[prefixed(prefix, m)]) == "
                          "exists(Str, lambda v: (v in parsed_dependencies.dependencies[m]) and x == prefixed(prefix, v))))"],
                 locals=dict(modules="Set[Str]", dependencies="Dict[Str,Set[Str]]"), aliases_ok=["modules", "dependencies"],
                 properties=["C07", "C14"]))

# ---------------------------------------------------------------- PumlParser: alias resolution and merge (C06), string view
vals.declare_data("PumlModule", [("pm_name", ("str",)), ("pm_alias", ("opt", ("str",)))])
PM = vals.DATA["PumlModule"]
REG.method_family["PumlModule"] = "Module@puml"
REG.specfuns["pm_name"] = lambda eng, st, m: V(("str",), PM["fields"]["pm_name"][0](m.x))
REG.specfuns["pm_alias"] = lambda eng, st, m: vals.from_term(("opt", ("str",)), PM["fields"]["pm_alias"][0](m.x))
REG.add(Contract("Module@puml.name", status="assumed", kind="property", params=dict(self="PumlModule"), returns="Str", defn="pm_name(self)", note="dataclass field"))
REG.add(Contract("Module@puml.alias", status="assumed", kind="property", params=dict(self="PumlModule"), returns="Opt[Str]", defn="pm_alias(self)", note="dataclass field"))
vals.declare_obj("PumlParser", dict())
PP = "PumlParser"
# resolve(a, m): the component name an identifier stands for
REG.macro("resolved", ["A", "m"], "A[m] if (m in A) else m")
REG.add(Contract(f"{PP}._unify_module", module=M_DP, kind="classmethod", view="string", params=dict(module="Str", all_aliases="Dict[Str,Str]"), returns="Str",
                 defn="resolved(all_aliases, module)", properties=["C06"]))
REG.add(Contract(f"{PP}._get_modules_by_alias", module=M_DP, kind="classmethod", view="string", params=dict(modules="Set[PumlModule]"), returns="Dict[Str,Str]",
                 ensures=["forall(Str, lambda a: (a in result) == exists(PumlModule, lambda m: (m in modules) and (not is_none(pm_alias(m))) and unwrap(pm_alias(m)) == a))",
                          "forall(Str, lambda a: implies(a in result, exists(PumlModule, lambda m: (m in modules) and (not is_none(pm_alias(m))) and unwrap(pm_alias(m)) == a and result[a] == pm_name(m))))"],
                 properties=["C06"]))
REG.add(Contract(f"{PP}._get_unified_modules", module=M_DP, kind="classmethod", view="string",
                 params=dict(modules="Set[PumlModule]", unified_dependencies="Dict[Str,Set[Str]]"), returns="Set[Str]",
                 # components = declared names + dependors + dependees
                 ensures=["forall(Str, lambda x: (x in result) == (exists(PumlModule, lambda m: (m in modules) and x == pm_name(m)) or (x in unified_dependencies) "
                          "or exists(Str, lambda k: (k in unified_dependencies) and (x in unified_dependencies[k]))))"],
                 locals=dict(all_modules="Set[Str]"),
                 loops={0: dict(sig="for dependee_modules in unified_dependencies.values()", invariant=[
                     "forall(Str, lambda x: (x in all_modules) == (exists(PumlModule, lambda m: (m in modules) and x == pm_name(m)) or (x in unified_dependencies) "
                     "or exists(Set[Str], lambda D: (D in seen) and (x in D))))"])},
                 properties=["C06"]))
REG.macro("by_alias_ok", ["modules", "A"],
          "forall(Str, lambda a: (a in A) == exists(PumlModule, lambda m: (m in modules) and (not is_none(pm_alias(m))) and unwrap(pm_alias(m)) == a))")
REG.add(Contract(f"{PP}._unify", module=M_DP, kind="method", view="string",
                 params=dict(self=PP, modules="Set[PumlModule]", dependencies="Dict[Str,Set[Str]]"), returns="Tuple[Set[Str],Dict[Str,Set[Str]]]",
                 # C06: the dependencies of a component are the union over ALL lines that name it as dependor -- by alias or by name --, every identifier resolved
                 ensures=["exists(Dict[Str,Str], lambda A: by_alias_ok(modules, A) and "
                          "forall(Str, lambda k: (k in result[1]) == exists(Str, lambda d: (d in dependencies) and k == resolved(A, d))) and "
                          "forall(Str, Str, lambda k, x: implies(k in result[1], (x in result[1][k]) == exists(Str, Str, lambda d, e: (d in dependencies) and resolved(A, d) == k and (e in dependencies[d]) and x == resolved(A, e)))))"],
                 locals=dict(unified_dependencies="Dict[Str,Set[Str]]", unified_dependees="Set[Str]"),
                 loops={0: dict(sig="for (dependor, dependees) in dependencies.items()", invariant=[
                     "forall(Str, lambda k: (k in unified_dependencies) == exists(Str, lambda d: ((d, dependencies[d]) in seen) and k == resolved(all_aliases, d)))",
                     "forall(Str, Str, lambda k, x: implies(k in unified_dependencies, (x in unified_dependencies[k]) == exists(Str, Str, lambda d, e: ((d, dependencies[d]) in seen) and resolved(all_aliases, d) == k and (e in dependencies[d]) and x == resolved(all_aliases, e))))"])},
                 properties=["C06"]))

# ---------------------------------------------------------------- DependencyToRuleConverter._generate_rule (C07): the rule generated for one component with arrows
M_D2R = "pytestarch.diagram_extension.dependency_to_rule_converter"
vals.declare_obj("DependencyToRuleConverter", dict(_should_only_rule="Bool"))
D2R = "DependencyToRuleConverter"
REG.add(Contract(f"{D2R}._generate_rule", module=M_D2R, kind="method", params=dict(self=D2R, importer="Node", importees="Set[Node]"), returns="Rule",
                 # C07: 'a imports exactly its drawn targets': subject a (by name), verb should_only in the default mode / should otherwise, direction import, objects = the drawn targets
                 ensures=["forall(Filter, lambda f: (f in unwrap(result._configuration.modules_to_check)) == (f == mk_filter_name(importer)))",
                          "not is_none(result._configuration.modules_to_check)", "not is_none(result._configuration.modules_to_check_against)",
                          "forall(Filter, lambda f: (f in unwrap(result._configuration.modules_to_check_against)) == exists(Node, lambda t: (t in importees) and f == mk_filter_name(t)))",
                          "result._configuration.should_only == self._should_only_rule", "result._configuration.should == (not self._should_only_rule)", "not result._configuration.should_not",
                          "result._configuration.import_ == True", "not result._configuration.except_present", "not result._configuration.rule_object_anything"],
                 properties=["C07"]))
