"""C01: the verdict specification equals the documented rule semantics on pairwise unrelated subjects/objects."""
from .speclib import REG

P = ["C01"]
# documented semantics (LANGUAGE_DEFINITION.md / module_import_checks.md), written over the import relation only
REG.macro("in_set", ["g", "f", "n"], "desc(g, fid(f), n) and not (is_parent(f) and n == fid(f))")   # named: itself + descendants; 'sub modules of X': strict descendants
REG.define("D_edge", dict(g="Graph", s="Filter", o="Filter"),
           "exists(Node, Node, lambda n, c: in_set(g, s, n) and in_set(g, o, c) and imp(g, n, c))")
REG.define("D_else_f", dict(g="Graph", s="Filter", O="Bag[Filter]"),
           "exists(Node, Node, lambda n, c: in_set(g, s, n) and imp(g, n, c) and (not desc(g, fid(s), c)) and forall(Filter, lambda o: implies(o in O, not in_set(g, o, c))))")
REG.define("D_else_r", dict(g="Graph", S="Bag[Filter]", o="Filter"),
           "exists(Node, Node, lambda p, n: in_set(g, o, n) and imp(g, p, n) and (not desc(g, fid(o), p)) and forall(Filter, lambda s: implies(s in S, not in_set(g, s, p))))")
REG.macro("unrelated", ["g", "a", "b"], "(not desc(g, fid(a), fid(b))) and (not desc(g, fid(b), fid(a)))")
# the documentation leaves open whether X itself is "inside" 'sub modules of X'; the strict oracle excludes imports between X and its own descendants
REG.macro("no_parent_self_import", ["g", "f"], "implies(is_parent(f), forall(Node, lambda n: implies(desc(g, fid(f), n), (not imp(g, fid(f), n)) and (not imp(g, n, fid(f))))))")
REG.macro("pairwise_unrelated", ["g", "F"], "forall(Filter, Filter, lambda a, b: implies((a in F) and (b in F) and a != b, unrelated(g, a, b)))")

REG.lemma("Doc_edge", params=dict(g="Graph", s="Filter", o="Filter"), requires=["WF(g)", "unrelated(g, s, o)"],
          ensures=["Q_edge(g, s, o) == D_edge(g, s, o)"], properties=P)
REG.lemma("Doc_else_f", params=dict(g="Graph", s="Filter", O="Bag[Filter]"),
          requires=["WF(g)", "pairwise_unrelated(g, O)", "forall(Filter, lambda o: implies(o in O, unrelated(g, s, o)))", "no_parent_self_import(g, s)"],
          ensures=["Q_else_f(g, s, O) == D_else_f(g, s, O)"], properties=P)
REG.lemma("Doc_else_r", params=dict(g="Graph", S="Bag[Filter]", o="Filter"),
          requires=["WF(g)", "pairwise_unrelated(g, S)", "forall(Filter, lambda s: implies(s in S, unrelated(g, s, o)))", "no_parent_self_import(g, o)"],
          ensures=["Q_else_r(g, S, o) == D_else_r(g, S, o)"], properties=P)

# the documented verdict: same shape table as viol_Q, over the documented questions
REG.macro("viol_D", ["g", "u", "b"],
          "(b.should_not and (not b.behavior_exception) and exists(Filter, Filter, lambda s, o: (s in u._importers) and (o in u._importees) and D_edge(g, s, o))) or "
          "(b.should and (not b.behavior_exception) and exists(Filter, Filter, lambda s, o: (s in u._importers) and (o in u._importees) and not D_edge(g, s, o))) or "
          "(b.should_only and (not b.behavior_exception) and (exists(Filter, Filter, lambda s, o: (s in u._importers) and (o in u._importees) and not D_edge(g, s, o)) or "
          "   (exists(Filter, lambda s: (s in u._importers) and D_else_f(g, s, u._importees)) if u._importer_specified_as_rule_subject else exists(Filter, lambda o: (o in u._importees) and D_else_r(g, u._importers, o))))) or "
          "(b.should and b.behavior_exception and nonempty(u._importees_as_specified_by_user) and "
          "   (exists(Filter, lambda s: (s in u._importers) and not D_else_f(g, s, u._importees)) if u._importer_specified_as_rule_subject else exists(Filter, lambda o: (o in u._importees) and not D_else_r(g, u._importers, o)))) or "
          "(b.should_only and b.behavior_exception and ((nonempty(u._importees_as_specified_by_user) and "
          "   (exists(Filter, lambda s: (s in u._importers) and not D_else_f(g, s, u._importees)) if u._importer_specified_as_rule_subject else exists(Filter, lambda o: (o in u._importees) and not D_else_r(g, u._importers, o)))) "
          "   or exists(Filter, Filter, lambda s, o: (s in u._importers) and (o in u._importees) and D_edge(g, s, o)))) or "
          "(b.should_not and b.behavior_exception and "
          "   (exists(Filter, lambda s: (s in u._importers) and D_else_f(g, s, u._importees)) if u._importer_specified_as_rule_subject else exists(Filter, lambda o: (o in u._importees) and D_else_r(g, u._importers, o))))")
REG.macro("U_rule", ["g", "S", "O"],
          "pairwise_unrelated(g, S) and pairwise_unrelated(g, O) and forall(Filter, Filter, lambda s, o: implies((s in S) and (o in O), unrelated(g, s, o))) "
          "and forall(Filter, lambda f: implies((f in S) or (f in O), no_parent_self_import(g, f)))")
_QO = ["Q_edge", "Q_else_f", "Q_else_r", "D_edge", "D_else_f", "D_else_r"]
REG.lemma("C01_verdict_is_documented_semantics",
          params=dict(g="Graph", S="Bag[Filter]", O="Bag[Filter]", objs="Bag[Filter]", subj="Bool", b="BehaviorRequirement"),
          requires=["WF(g)", "U_rule(g, S, O)"],
          ensures=["viol_Q(g, new(ModuleRequirement, _importer_as_specified_by_user=S, _importees_as_specified_by_user=objs, _importers=S, _importees=O, _importer_specified_as_rule_subject=subj), b) "
                   "== viol_D(g, new(ModuleRequirement, _importer_as_specified_by_user=S, _importees_as_specified_by_user=objs, _importers=S, _importees=O, _importer_specified_as_rule_subject=subj), b)"],
          use=["Doc_edge_all(g, S, O)", "Doc_else_f_all(g, S, O)", "Doc_else_r_all(g, S, O)"], opaque=_QO, cases=["subj"], properties=P,
          note="S/O are importers/importees (after the be-imported-by swap); 12 verb x direction x except shapes are the cases of b and subj")
# quantified forms of the three question lemmas (what the main lemma instantiates)
REG.lemma("Doc_edge_all", params=dict(g="Graph", S="Bag[Filter]", O="Bag[Filter]"), requires=["WF(g)", "U_rule(g, S, O)"],
          ensures=["forall(Filter, Filter, lambda s, o: implies((s in S) and (o in O), Q_edge(g, s, o) == D_edge(g, s, o)))"],
          properties=P)
REG.lemma("Doc_else_f_all", params=dict(g="Graph", S="Bag[Filter]", O="Bag[Filter]"), requires=["WF(g)", "U_rule(g, S, O)"],
          ensures=["forall(Filter, lambda s: implies(s in S, Q_else_f(g, s, O) == D_else_f(g, s, O)))"], properties=P)
REG.lemma("Doc_else_r_all", params=dict(g="Graph", S="Bag[Filter]", O="Bag[Filter]"), requires=["WF(g)", "U_rule(g, S, O)"],
          ensures=["forall(Filter, lambda o: implies(o in O, Q_else_r(g, S, o) == D_else_r(g, S, o)))"], properties=P)
