"""Contracts (string view): the entry points and the glue between the proved stages (C04, C08, C09, C10, C13).

pytestarch.py: get_evaluable_architecture / get_evaluable_architecture_for_module_objects (option validation, delegation);
graph_generator.py: generate_graph, _get_absolute_import_prefix, _get_imports_from_ast, _get_all_ast_modules (composition of the stages);
parser.py: Parser.__init__, Parser._get_module_name; evaluable_graph.py: EvaluableArchitectureGraph.__init__.

Ghost state. What the code hands to the graph constructor is observable only at the constructor call. The assumed contract
`NetworkxGraph.__init__@ctor-call` therefore RECORDS its arguments in a ghost log (`ghost_ctor`, a parameter that the code never passes: the engine
threads it from the caller's state). The postconditions of generate_graph and of the entry points are statements about that log."""
import z3
from pyvc import vals
from pyvc.vals import V, vbool, vstr
from .speclib import REG, Contract
from .c_filters import PT, IMP, _f_path_str, _f_path_name  # noqa
from . import c_parser, c_converter, c_strings, c_networkx, c_rules  # noqa  (vocabulary: fs_contrib, imp_contrib, count_sep, NetworkxGraph, EvaluableArchitectureGraph)

M_PT = "pytestarch.pytestarch"
M_GG = "pytestarch.eval_structure_generation.graph_generation.graph_generator"
M_PA = "pytestarch.eval_structure_generation.file_import.parser"
M_EG = "pytestarch.eval_structure.evaluable_graph"
S = z3.StringSort()

# ---------------------------------------------------------------- pathlib / os (assumed, minimal): Path(s), parent, relative_to, os.sep, os.path.dirname
_f_path_of = z3.Function("path_of", S, PT)
_f_path_parent = z3.Function("path_parent", PT, PT)
_f_path_rel = z3.Function("path_rel", PT, PT, PT)
_f_path_below = z3.Function("path_below", PT, PT, z3.BoolSort())
_f_os_dirname = z3.Function("os_dirname", S, S)
_c_os_sep = z3.Const("os_sep", S)
REG.specfuns["path_of"] = lambda eng, st, s: V(("opaque", "Path"), _f_path_of(s.x))
REG.specfuns["path_parent"] = lambda eng, st, p: V(("opaque", "Path"), _f_path_parent(p.x))
REG.specfuns["path_rel"] = lambda eng, st, p, q: V(("opaque", "Path"), _f_path_rel(p.x, q.x))
REG.specfuns["path_below"] = lambda eng, st, p, q: vbool(_f_path_below(p.x, q.x))
REG.specfuns["os_dirname"] = lambda eng, st, s: V(("str",), _f_os_dirname(s.x))
REG.specfuns["os_sep"] = lambda eng, st: V(("str",), _c_os_sep)
_P = dict(self="Opaque[Path]")
REG.add(Contract("Path", status="assumed", params=dict(s="Str"), returns="Opaque[Path]", defn="path_of(s)",
                 note="pathlib.Path(s): some path determined by the string (no claim about normalisation)"))
REG.add(Contract("Path.parent", status="assumed", kind="property", params=_P, returns="Opaque[Path]", defn="path_parent(self)", note="pathlib: logical parent"))
REG.add(Contract("Path.relative_to", status="assumed", kind="method", params=dict(self="Opaque[Path]", other="Opaque[Path]"), returns="Opaque[Path]",
                 raises=[("ValueError", "not path_below(self, other)")], defn="path_rel(self, other)",
                 # a path strictly below `other`: its parent is at or below other's parent (other is a prefix of parent(self), parent(other) a prefix of other)
                 ensures=["implies(path_str(result) != '.', path_below(path_parent(self), path_parent(other)))"],
                 note="pathlib: ValueError iff self is not `other` or located below it (path_below); str() of the result is '.' iff the two are the same path; "
                      "conformance of the parent fact checked natively on sample paths (notes/ctr-entry.md)"))
REG.add(Contract("os.sep", status="assumed", kind="property", params={}, returns="Str", defn="os_sep()", ensures=["len(result) == 1"],
                 note="the platform's path separator: one fixed character"))
REG.add(Contract("os.path.dirname", status="assumed", params=dict(p="Str"), returns="Str", defn="os_dirname(p)", note="uninterpreted function of the path string"))
MT = vals.opaque_sort("ModuleType")
_f_mod_file = z3.Function("module_file", MT, S)
REG.specfuns["module_file"] = lambda eng, st, m: V(("str",), _f_mod_file(m.x))
REG.add(Contract("ModuleType.__file__", status="assumed", kind="property", params=dict(self="Opaque[ModuleType]"), returns="Str", defn="module_file(self)",
                 note="regular packages / modules: __file__ is a str (a namespace package has none: os.path.dirname then fails with TypeError before anything is built)"))
# the dotted spelling of a relative path: separators replaced by '.'
def _sep_to_dot(eng, st, s):
    """s.replace(os.sep, '.') as SMT-LIB str.replace_all (os.sep is one character: assumed contract os.sep)."""
    ctx = s.x.ctx
    return V(("str",), z3.SeqRef(z3.Z3_mk_seq_replace_all(ctx.ref(), s.x.as_ast(), _c_os_sep.as_ast(), z3.StringVal(".").as_ast()), ctx))


REG.specfuns["sep_to_dot"] = _sep_to_dot
REG.macro("dotted_path", ["p"], "sep_to_dot(path_str(p))")

# ---------------------------------------------------------------- ghost log of the graph-constructor call; abstraction NetworkxGraph -> Graph
vals.declare_obj("CtorLog", dict(calls="Int", modules="Bag[Str]", imports="Bag[Imp]", limit="Opt[Int]", made="Graph"))
_graph_of_fn = {}


def _graph_of_term(v):
    terms = REG.flatten(v)
    key = tuple(str(t.sort()) for t in terms)
    if key not in _graph_of_fn:
        _graph_of_fn[key] = z3.Function("graph_of", *[t.sort() for t in terms], vals.Graph)
    return _graph_of_fn[key](*terms)


REG.specfuns["graph_of"] = lambda eng, st, g: V(("graph",), _graph_of_term(g))


def _nx_as_graph(v, t):
    """A NetworkxGraph record where the abstract Graph is expected (EvaluableArchitectureGraph(NetworkxGraph(...))): the abstraction function graph_of."""
    if t == ("graph",) and v.t == ("obj", "NetworkxGraph"):
        return V(("graph",), _graph_of_term(v))
    return None


vals.COERCE_HOOKS.append(_nx_as_graph)
NG = "NetworkxGraph"
REG.add(Contract(f"{NG}.__init__@ctor-call", status="assumed", kind="method", qualname=f"{NG}.__init__",
                 params=dict(self=NG, all_modules="Bag[Str]", imports="Bag[Imp]", level_limit="Opt[Int]", ghost_ctor="CtorLog"), returns="None",
                 defaults=dict(level_limit="None"), modifies=["self", "ghost_ctor"],
                 ensures=["self._level_limit == level_limit",
                          "ghost_ctor.calls == old(ghost_ctor).calls + 1", "ghost_ctor.modules == all_modules", "ghost_ctor.imports == imports",
                          "ghost_ctor.limit == level_limit", "ghost_ctor.made == graph_of(self)"],
                 note="FRAME ONLY, placeholder until NetworkxGraph.__init__ is under contract: the constructor stores the module list, the import list and the level limit "
                      "(recorded in the ghost log ghost_ctor; ghost_ctor.made is the abstract graph of the constructed object). Nothing is claimed about nodes and edges."))


def _nx_ctor(reg, eng, st, args, kwargs, node):
    return reg.instantiate(eng, NG, REG.contracts[f"{NG}.__init__@ctor-call"], args, kwargs, st, node)


REG.ctors[NG] = _nx_ctor
REG.ctors["ImportConverter"] = lambda reg, eng, st, args, kwargs, node: [(st, V(("obj", "ImportConverter"), {}))]

EG = "EvaluableArchitectureGraph"
REG.add(Contract(f"{EG}.__init__", module=M_EG, kind="method", params=dict(self=EG, graph="Graph"), returns="None", modifies=["self"],
                 ensures=["self._graph == graph"], properties=["C04", "C17"]))

# ---------------------------------------------------------------- parser.py: Parser.__init__
REG.add(Contract("Parser.__init__", module=M_PA, kind="method", view="string", params=dict(self="Parser", filter="FileFilter", source_root="Opaque[Path]"), returns="None",
                 modifies=["self"], ensures=["self._filter == filter", "self._source_root == source_root"], properties=["C04", "C08"]))

# ---------------------------------------------------------------- graph_generator.py: the stages' glue
_GRAMMAR = "forall(Opaque[Ast], lambda n: implies(is_ast_importfrom(n) and ast_level(n) == 0, not is_none(ast_module(n))))"
_GRAMMAR_NOTE = "requires: the grammar fact that 'from X import ...' with level 0 always has a module (precondition of ImportConverter.convert)"
REG.macro("scanned", ["exclusions", "root_path", "module_path", "n"], "fs_contrib(exclusions, root_path, module_path, n)")
REG.macro("parsed", ["exclusions", "root_path", "module_path", "m"], "fs_ast_contrib(exclusions, root_path, module_path, m)")
REG.add(Contract("_get_all_ast_modules", module=M_GG, view="string",
                 params=dict(module_path="Opaque[Path]", root_path="Opaque[Path]", exclusions="Bag[Str]"), returns="Tuple[Bag[Str],Bag[NamedModule]]",
                 # C04 / C08: the module list is the scan of module_path, named from root_path, pruned by exactly the given patterns
                 ensures=["forall(Str, lambda n: (n in result[0]) == scanned(exclusions, root_path, module_path, n))",
                          # C08: the files handed to the import converter are exactly the non-excluded .py files of that scan
                          "forall(NamedModule, lambda m: (m in result[1]) == parsed(exclusions, root_path, module_path, m))"],
                 properties=["C04", "C08"]))
REG.macro("converted", ["asts", "prefix", "internal", "i"],
          "exists(NamedModule, lambda m: (m in asts) and imp_contrib(prefix, internal, nm_ast(m), nm_name(m), i))")
REG.add(Contract("_get_imports_from_ast", module=M_GG, view="string",
                 params=dict(ast="Bag[NamedModule]", absolute_import_prefix="Str", all_internal_modules="Set[Str]"), returns="Bag[Imp]", modifies=["ast"],
                 requires=[_GRAMMAR],
                 ensures=["forall(Imp, lambda i: (i in result) == converted(old(ast), absolute_import_prefix, all_internal_modules, i))"],
                 note=_GRAMMAR_NOTE + "; the list of parsed files is the converter's worklist: it is consumed", properties=["C02", "C04"]))
REG.macro("abs_prefix", ["diff", "root_path", "module_path"],
          "'' if diff == '.' else dotted_path(path_rel(path_parent(module_path), path_parent(root_path)))")
REG.add(Contract("_get_absolute_import_prefix", module=M_GG, view="string",
                 params=dict(path_diff_between_root_and_module="Str", root_path="Opaque[Path]", module_path="Opaque[Path]"), returns="Str",
                 raises=[("ValueError", "path_diff_between_root_and_module != '.' and not path_below(path_parent(module_path), path_parent(root_path))")],
                 # C04: '' when module_path is root_path, else the dotted path of module_path's parent relative to root_path's parent
                 defn="abs_prefix(path_diff_between_root_and_module, root_path, module_path)", properties=["C04"]))

# ---------------------------------------------------------------- generate_graph: what reaches the graph constructor
REG.specfuns["rstrip_dots"] = lambda eng, st, s: V(("str",), z3.Function("rstrip_char", S, S, S)(s.x, z3.StringVal(".")))
REG.macro("int_prefix", ["diff", "root_path"], "path_name(root_path) + '.' + ('' if diff == '.' else diff)")
# an import leaves the scanned tree: its importee is neither the scanned package itself nor below it (whole dotted components)
REG.macro("leaves_tree", ["prefix", "i"], "not (imp_importee(i) + '.').startswith(rstrip_dots(prefix) + '.')")
REG.macro("opt_pat", ["o", "p"], "(not is_none(o)) and (p in unwrap(o))")
REG.macro("adjusted_limit", ["lim", "level_limit", "diff"],
          "(is_none(lim) == is_none(level_limit)) and implies(not is_none(level_limit), unwrap(lim) == unwrap(level_limit) + (0 if diff == '.' else count_sep(diff, '.') + 1))")
REG.macro("scan_converted", ["exclusions", "root_path", "module_path", "prefix", "internal", "i"],
          "exists(NamedModule, lambda m: parsed(exclusions, root_path, module_path, m) and imp_contrib(prefix, internal, nm_ast(m), nm_name(m), i))")
REG.macro("scan_internal", ["exclusions", "root_path", "module_path", "diff"],
          "_get_all_internal_modules(setof(Str, lambda n: scanned(exclusions, root_path, module_path, n)), int_prefix(diff, root_path))")


# The composition postcondition 'what reaches the graph constructor', one macro per clause, over: the root / module paths, the dotted path difference, EX = the
# effective exclusion regexes (a set), eel = exclude_external_libraries, the level limit the CALLER passed, XT = the effective external exclusion regexes (a set),
# the ghost log of the constructor call. One vocabulary for generate_graph and for the two entry points, so the three statements cannot drift apart. (The sets are
# macro ARGUMENTS so that they are evaluated once, outside every binder.)
_PP = ["root", "module", "diff", "EX", "eel", "limit", "XT", "log"]
_CONV = "scan_converted(EX, root, module, abs_prefix(diff, root, module), scan_internal(EX, root, module, diff), i)"
_PP_CLAUSES = {
    # C09: the constructor receives the ADJUSTED limit (levels are counted below module_path)
    "pp_limit": "adjusted_limit(log.limit, limit, diff)",
    # C04 / C08 / C10 frame: every scanned module reaches the constructor, whatever the external options are
    "pp_scan_kept": "forall(Str, lambda n: implies(scanned(EX, root, module, n), n in log.modules))",
    # C10: externals excluded -> the module list IS the scan (nothing external reaches the constructor)
    "pp_only_scan": "implies(eel, forall(Str, lambda n: (n in log.modules) == scanned(EX, root, module, n)))",
    # C10: externals included -> the additional modules are exactly the importees (and their dotted ancestors) of the imports that reach the
    # constructor and leave the scanned tree, minus those matching an external exclusion pattern
    "pp_externals": "implies(not eel, forall(Str, lambda n: implies(not scanned(EX, root, module, n), (n in log.modules) == "
                    "(exists(Imp, lambda i: (i in log.imports) and leaves_tree(int_prefix(diff, root), i) and (not (path_str(root) in imp_importee(i))) "
                    "and (n == imp_importee(i) or str_anc(n, imp_hname(i)))) and not exists(Str, lambda p: (p in XT) and re_match(p, n))))))",
    # C10: externals excluded (and no pattern) -> no import to an external module reaches the constructor
    "pp_no_external_import": "implies(eel and not nonempty(XT), forall(Imp, lambda i: implies(i in log.imports, raw_internal(int_prefix(diff, root), imp_importee(i)))))",
    # C02 / C08 / C10: the import list handed to the constructor is the converter's output for exactly the parsed files of the scan (closed form) and
    # the internal modules of the scan (scan_internal: _get_all_internal_modules, a pure function under a sandwich contract, applied to the scanned
    # module list), filtered: nothing is invented, every import into the scanned tree survives EVERY external option, and without exclusion of
    # externals nothing is dropped at all
    "pp_imports_converted": f"forall(Imp, lambda i: implies(i in log.imports, {_CONV}))",
    "pp_internal_imports_kept": f"forall(Imp, lambda i: implies({_CONV} and dotted_internal(int_prefix(diff, root), imp_importee(i)), i in log.imports))",
    "pp_unfiltered": f"implies((not eel) and not nonempty(XT), forall(Imp, lambda i: implies({_CONV}, i in log.imports)))",
}
for _k, _b in _PP_CLAUSES.items():
    REG.macro(_k, _PP, _b)


def _pipeline_post(root, module, diff, excl, eel, limit, xt):
    args = ", ".join([root, module, diff, excl, eel, limit, xt, "ghost_ctor"])
    # exactly one graph is constructed and it is the one returned
    return ["ghost_ctor.calls == old(ghost_ctor).calls + 1", "result._graph == ghost_ctor.made"] + [f"{k}({args})" for k in _PP_CLAUSES]


_GG_ARGS = ("root_path", "module_path", "path_diff_between_root_and_module", "exclusions", "exclude_external_libraries")
REG.add(Contract("generate_graph", module=M_GG, view="string",
                 params=dict(root_path="Opaque[Path]", module_path="Opaque[Path]", path_diff_between_root_and_module="Str", exclusions="Bag[Str]",
                             exclude_external_libraries="Bool", level_limit="Opt[Int]", external_exclusions="Opt[Bag[Str]]", ghost_ctor="CtorLog"),
                 returns=EG, modifies=["ghost_ctor"], requires=[_GRAMMAR],
                 raises=[("ValueError", "path_diff_between_root_and_module != '.' and not path_below(path_parent(module_path), path_parent(root_path))")],
                 ensures_on_raise=["ghost_ctor.calls == old(ghost_ctor).calls"],
                 locals=dict(external_exclusions="Opt[Bag[Str]]"),
                 ghost_at={
                           # C09, stated where the context is still small (so that a violation is REFUTED with a model, not merely undecided): from here on the
                           # local level_limit is the adjusted limit
                           "all_modules, ast = _get_all_ast_modules(": ["adjusted_limit(level_limit, old(level_limit), path_diff_between_root_and_module)"],
                           # proof hints (obligations themselves): the scanned module list, as a collection, IS the set the postconditions name
                           "imports = _get_imports_from_ast(": ["same_elements(all_modules, setof(Str, lambda n: scanned(exclusions, root_path, module_path, n)))",
                                                               "all_modules == setof(Str, lambda n: scanned(exclusions, root_path, module_path, n))"],
                           # ... and the converter's output is the closed form the postconditions name
                           "if external_exclusions is None": [
                               "forall(Imp, lambda i: (i in imports) == scan_converted(exclusions, root_path, module_path, abs_prefix(path_diff_between_root_and_module, root_path, module_path), "
                               "scan_internal(exclusions, root_path, module_path, path_diff_between_root_and_module), i))"]},
                 ensures=_pipeline_post(*_GG_ARGS, "level_limit", "setof(Str, lambda p: opt_pat(external_exclusions, p))"),
                 note=_GRAMMAR_NOTE, properties=["C04", "C08", "C09", "C10"]))

# ---------------------------------------------------------------- pytestarch.py: the two entry points
if vals.STRING_MODE:
    # in the string view the glob converter is the function proved under C08 (result == glob_regex(match)), not its opaque abstraction glob2regex
    REG.contracts["convert_partial_match_to_regex"] = REG.contracts["convert_partial_match_to_regex@str"]
REG.macro("truthy_opt", ["o"], "(not is_none(o)) and nonempty(unwrap(o))")
# C13: the three invalid option combinations
REG.macro("gea_invalid", ["excl", "rexcl", "eel", "ext", "rext"],
          "(truthy_opt(rexcl) and nonempty(excl)) or (truthy_opt(rext) and truthy_opt(ext)) or (eel and (truthy_opt(ext) or truthy_opt(rext)))")
# C08: the effective exclusion regexes: the translated glob patterns when `exclusions` is non-empty, else regex_exclusions (None and () both mean: no pattern)
REG.macro("eff_excl", ["excl", "rexcl", "q"],
          "(exists(Str, lambda g: (g in excl) and q == convert_partial_match_to_regex(g))) if nonempty(excl) else opt_pat(rexcl, q)")
# C10: the effective external exclusion regexes, likewise
REG.macro("eff_ext", ["ext", "rext", "q"],
          "(exists(Str, lambda g: (g in unwrap(ext)) and q == convert_partial_match_to_regex(g))) if truthy_opt(ext) else opt_pat(rext, q)")
REG.macro("gea_diff", ["root_path", "module_path"], "dotted_path(path_rel(path_of(module_path), path_of(root_path)))")
_OPTS = dict(exclusions="Bag[Str]", exclude_external_libraries="Bool", level_limit="Opt[Int]", regex_exclusions="Opt[Bag[Str]]",
             external_exclusions="Opt[Bag[Str]]", regex_external_exclusions="Opt[Bag[Str]]")
_OPT_DEFAULTS = dict(exclusions="DEFAULT_EXCLUSIONS", exclude_external_libraries="True", level_limit="None", regex_exclusions="None", external_exclusions="None", regex_external_exclusions="None")
_INVALID = "gea_invalid(exclusions, regex_exclusions, exclude_external_libraries, external_exclusions, regex_external_exclusions)"


def _entry_post(root_str, module_str):
    return _pipeline_post(f"path_of({root_str})", f"path_of({module_str})", f"gea_diff({root_str}, {module_str})",
                          "setof(Str, lambda q: eff_excl(exclusions, regex_exclusions, q))", "exclude_external_libraries", "level_limit",
                          "setof(Str, lambda q: eff_ext(external_exclusions, regex_external_exclusions, q))") + [
        # C10 (validation + composition): with external libraries excluded NO import to a module outside the scanned tree reaches the constructor
        f"implies(exclude_external_libraries, forall(Imp, lambda i: implies(i in ghost_ctor.imports, "
        f"raw_internal(int_prefix(gea_diff({root_str}, {module_str}), path_of({root_str})), imp_importee(i)))))"]


def _entry_raises(root_str, module_str):
    return [
        # C13 / C08 / C10: mutually exclusive exclusion options; external patterns while externals are excluded
        ("ImproperlyConfigured", _INVALID),
        # C13: module_path outside root_path
        ("ValueError", f"(not {_INVALID}) and not path_below(path_of({module_str}), path_of({root_str}))")]


REG.add(Contract("get_evaluable_architecture", module=M_PT, view="string",
                 params=dict(root_path="Str", module_path="Str", **_OPTS, ghost_ctor="CtorLog"), defaults=_OPT_DEFAULTS,
                 returns=EG, modifies=["ghost_ctor"], requires=[_GRAMMAR],
                 raises=_entry_raises("root_path", "module_path"),
                 # C13: an invalid request never builds (let alone returns) an architecture
                 ensures_on_raise=["ghost_ctor.calls == old(ghost_ctor).calls"],
                 locals=dict(regex_exclusions="Opt[Bag[Str]]", regex_external_exclusions="Opt[Bag[Str]]"),
                 ghost_at={
                     # C13 / C08 / C10: no invalid option combination gets past the validation (stated right after the three checks, where the context is
                     # small, so that a violation is REFUTED with a model and not merely undecided)
                     "if exclusions:": ["not gea_invalid(exclusions, regex_exclusions, exclude_external_libraries, external_exclusions, regex_external_exclusions)"],
                     "root_as_path = Path(root_path)": [
                     # proof hints (obligations themselves; stated before the pipeline runs, where the context is small): the local regex_exclusions is the
                     # effective exclusion set, the local regex_external_exclusions the effective external one
                     "not is_none(regex_exclusions)",
                     "same_elements(unwrap(regex_exclusions), setof(Str, lambda q: eff_excl(exclusions, old(regex_exclusions), q)))",
                     "unwrap(regex_exclusions) == setof(Str, lambda q: eff_excl(exclusions, old(regex_exclusions), q))",
                     "same_elements(setof(Str, lambda p: opt_pat(regex_external_exclusions, p)), setof(Str, lambda q: eff_ext(external_exclusions, old(regex_external_exclusions), q)))",
                     "setof(Str, lambda p: opt_pat(regex_external_exclusions, p)) == setof(Str, lambda q: eff_ext(external_exclusions, old(regex_external_exclusions), q))"]},
                 ensures=_entry_post("root_path", "module_path"),
                 note=_GRAMMAR_NOTE,
                 properties=["C04", "C08", "C09", "C10", "C13"]))
# C04: the module-object entry point builds the architecture of the path entry point on the modules' directories: it raises in exactly the same cases and its
# constructor log satisfies literally the path entry point's postcondition with root_path := dirname(root_module.__file__), module_path := dirname(module.__file__)
# and every option in its own position (a swapped or dropped option changes the raises-condition or the effective pattern sets)
_RD, _MD = "os_dirname(module_file(root_module))", "os_dirname(module_file(module))"
REG.add(Contract("get_evaluable_architecture_for_module_objects", module=M_PT, view="string",
                 params=dict(root_module="Opaque[ModuleType]", module="Opaque[ModuleType]", **_OPTS, ghost_ctor="CtorLog"), defaults=_OPT_DEFAULTS,
                 returns=EG, modifies=["ghost_ctor"], requires=[_GRAMMAR],
                 raises=_entry_raises(_RD, _MD), ensures_on_raise=["ghost_ctor.calls == old(ghost_ctor).calls"],
                 ensures=_entry_post(_RD, _MD), note=_GRAMMAR_NOTE, properties=["C04", "C13"]))

# ---------------------------------------------------------------- parser.py: Parser._get_module_name, string view (C04): the module name of a path
# Callers (Parser.parse, _parse_file) use the assumed contract `Parser._get_module_name` (c_parser.py: result == mod_name(root, path), never raises). Here the REAL
# function is verified against the string-level statement of what mod_name IS: the root directory's own name for the root itself, else root name + '.' + the path
# relative to the root with the file suffix removed and every separator replaced by '.'. Linked by name (ModNameDef is the definition of the otherwise
# uninterpreted spec function mod_name). What remains assumed in the callers' contract: paths met during a scan lie below the source root (no ValueError).
_f_strip_suffix = z3.Function("path_without_suffix", PT, PT)
REG.specfuns["path_without_suffix"] = lambda eng, st, p: V(("opaque", "Path"), _f_strip_suffix(p.x))
REG.add(Contract("Path.with_suffix", status="assumed", kind="method", params=dict(self="Opaque[Path]", suffix="Str"), returns="Opaque[Path]", requires=["suffix == ''"],
                 defn="path_without_suffix(self)", note="pathlib: with_suffix('') removes the final component's suffix (only this use is modelled)"))
REG.macro("mod_name_text", ["root", "p"],
          "path_name(root) if path_str(path_rel(p, root)) == '.' else path_name(root) + '.' + dotted_path(path_without_suffix(path_rel(p, root)))")


@REG.specfun("ModNameDef", schema=True)
def _mod_name_def(eng, st, root, p):
    """Definition (ground instance) of the spec function mod_name(root, p) used by the contracts of Parser.parse / _parse_file."""
    return vbool(c_parser.f_modname(root.x, p.x) == eng.ev1(REG.parse_spec("mod_name_text(mn_root, mn_p)"), st).x)


def _mod_name_def_wrapped(eng, st, root, p):
    saved = dict(eng.bound)
    eng.bound.update(dict(mn_root=root, mn_p=p))
    try:
        return _mod_name_def(eng, st, root, p)
    finally:
        eng.bound = saved


REG.specfuns["ModNameDef"] = _mod_name_def_wrapped
REG.add(Contract("Parser._get_module_name@str", module=M_PA, qualname="Parser._get_module_name", kind="method", view="string",
                 params=dict(self="Parser", path="Opaque[Path]"), returns="Str",
                 raises=[("ValueError", "not path_below(path, self._source_root)")],
                 use_at_start=["ModNameDef(self._source_root, path)"],
                 # C04: named from root_path: root name, '.', dotted relative path without the file suffix
                 ensures=["result == mod_name_text(self._source_root, path)", "result == mod_name(self._source_root, path)"],
                 properties=["C04"]))
