"""String view (PYVC_NODE=str): the functions that inspect module names / paths character-wise (C08, C14 flagged sites).

Contracts here have view="string": the sort of module names is z3's String, `name_anc` and `glob2regex` are *defined*
(not uninterpreted), so what the opaque-level contracts assume about them is proved here on the real code."""
import z3
from pyvc import vals
from pyvc.vals import V, vbool, vstr
from .speclib import REG, Contract

M_P2R = "pytestarch.utils.partial_match_to_regex_converter"
M_RULE = "pytestarch.query_language.rule"
S = z3.StringSort()

# ---------------------------------------------------------------- library: re
_f_re_escape = z3.Function("re_escape", S, S)
_f_re_match = z3.Function("re_match", S, S, z3.BoolSort())


@REG.specfun("re_escape")
def _re_escape(eng, st, s):
    return V(("str",), _f_re_escape(s.x))


@REG.specfun("re_match")
def _re_match(eng, st, pattern, s):
    """re.match(pattern, s) is not None (pattern: str or compiled pattern of that str)."""
    return vbool(_f_re_match(pattern.x, s.x))


REG.add(Contract("re.escape", status="assumed", params=dict(pattern="Str"), returns="Str", defn="re_escape(pattern)",
                 note="re.escape: uninterpreted here; its denotation Den(re.escape(t)) = {t} is the assumption of lemma glob_shape_*"))

# ---------------------------------------------------------------- C08: glob -> regex
REG.macro("glob_mid", ["m"], "m[(1 if m.startswith('*') else 0):((len(m) - 1) if m.endswith('*') else len(m))]")
REG.macro("glob_regex", ["m"],
          "('.*' if m.startswith('*') else '') + re_escape(glob_mid(m)) + ('.*' if m.endswith('*') else '$')")
REG.add(Contract("convert_partial_match_to_regex@str", module=M_P2R, qualname="convert_partial_match_to_regex", view="string",
                 params=dict(match="Str"), returns="Str",
                 # C08: leading * -> any prefix, trailing * -> any suffix, everything between escaped (literal), '$' unless trailing *
                 ensures=["result == glob_regex(match)"],
                 properties=["C08", "C11", "C10"]))

# Denotation of the produced regex under re.match (anchored at the start): the assumed contract of `re` for the three
# building blocks the converter emits -- '.*' = any string without newline, re.escape(t) = exactly t, '$' = end of string
# -- composed with z3's regular-expression theory. The lemma: for EVERY literal text t (any characters, including regex
# metacharacters and '*') the four shapes mean equality / suffix / prefix / substring.


@REG.specfun("glob_den")
def _glob_den(eng, st, star_start, star_end, t, x):
    """x is matched by  ('.*' if star_start) escape(t) ('.*' if star_end else '$')  under re.match semantics."""
    # '.*' is [^\n]*; on strings without a newline (precondition of every lemma that uses glob_den) that coincides
    # with Sigma*: a prefix / suffix / infix of a newline-free string is newline-free
    full = z3.Full(z3.ReSort(S))
    anyc = full
    eps = z3.Re(z3.StringVal(""))
    lit = z3.Re(t.x)
    def lang(ss, ee):
        # re.match: anchored at the start only; without '$' any remainder of x is allowed after the match
        parts = ([anyc] if ss else []) + [lit] + ([anyc, full] if ee else [])
        r = parts[0]
        for p in parts[1:]:
            r = z3.Concat(r, p)
        return r
    s_, e_ = eng.truth(star_start), eng.truth(star_end)
    return vbool(z3.If(s_, z3.If(e_, z3.InRe(x.x, lang(True, True)), z3.InRe(x.x, lang(True, False))),
                       z3.If(e_, z3.InRe(x.x, lang(False, True)), z3.InRe(x.x, lang(False, False)))))


REG.macro("no_newline", ["x"], "not ('\\n' in x)")
for _nm, _s, _e, _sem in (("exact", False, False, "x == t"), ("suffix", True, False, "x.endswith(t)"),
                          ("prefix", False, True, "x.startswith(t)"), ("infix", True, True, "t in x")):
    REG.lemma(f"glob_shape_{_nm}", params=dict(t="Str", x="Str"), requires=["no_newline(x)"],
              ensures=[f"glob_den({_s}, {_e}, t, x) == ({_sem})"], view="string", properties=["C08"],
              note="paths and module names contain no newline (stated input validity)")

# ---------------------------------------------------------------- C14: strict dotted ancestry on strings
REG.macro("str_anc", ["a", "b"], "b.startswith(a + '.')")

# ---------------------------------------------------------------- eval_structure/types.py: get_parent_modules (C02, C04, C10, C14)
M_TY = "pytestarch.eval_structure.types"
REG.add(Contract("get_parent_modules", module=M_TY, view="string", params=dict(module="Str"), returns="Bag[Str]",
                 # C14: the parents of a name are exactly its strict DOTTED ancestors (module == p + '.' + rest)
                 ensures=["forall(Str, lambda p: (p in result) == str_anc(p, module))"],
                 locals=dict(parent_modules="Bag[Str]", parent="Str"),
                 loops={0: dict(sig="for char in module", invariant=[
                     "parent == module[0:idx]",
                     "forall(Str, lambda p: (p in parent_modules) == (str_anc(p, module) and len(p) < idx))"])},
                 note="the local 'parent' (a list of characters that is only appended to and joined with '') is modelled by its concatenation",
                 properties=["C02", "C04", "C10", "C14"]))

# ---------------------------------------------------------------- str.split on a literal separator: only the NUMBER of pieces is modelled
_f_count = z3.Function("count_sep", S, S, z3.IntSort())


def _split_fn(eng, st, recv, sep):
    """s.split(sep): a sequence of count(sep in s) + 1 pieces (the pieces themselves are left unconstrained)."""
    res = z3.Const(vals.fresh_name("pieces"), z3.SeqSort(S))
    cnt = _f_count(recv.x, sep.x)
    st.assume(z3.And(cnt >= 0, z3.Length(res) == cnt + 1))
    return res


REG.split_fn = _split_fn
REG.specfuns["count_sep"] = lambda eng, st, s, sep: V(("int",), _f_count(s.x, sep.x))
M_GG2 = "pytestarch.eval_structure_generation.graph_generation.graph_generator"
REG.add(Contract("_add_extra_levels_to_limit_if_root_and_module_path_differ", module=M_GG2, view="string",
                 params=dict(level_limit="Opt[Int]", path_diff_between_root_and_module="Str"), returns="Opt[Int]",
                 # C09: the limit counts levels below module_path: it is raised by the number of dotted components between root_path and module_path
                 ensures=["is_none(result) == is_none(level_limit)",
                          "implies(not is_none(level_limit), unwrap(result) == unwrap(level_limit) + (0 if path_diff_between_root_and_module == '.' else count_sep(path_diff_between_root_and_module, '.') + 1))"],
                 properties=["C09"]))

# ---------------------------------------------------------------- message records (C03), string view: RuleViolationMessageGenerator
from .speclib import MOD as _MOD
M_MG2 = "pytestarch.rule_assessment.error_message.message_generator"
vals.declare_data("RVM", [("rvm_subject", ("str",)), ("rvm_verb", ("str",)), ("rvm_object", ("str",))])
_RVM = vals.DATA["RVM"]
REG.ctors["RuleViolatedMessage"] = lambda reg, eng, st, args, kwargs, node: [(st, V(("data", "RVM"), _RVM["ctor"](*[vals.coerce(a, ("str",)).x for a in args])))]
REG.specfuns["mk_rvm"] = lambda eng, st, a, b, c: V(("data", "RVM"), _RVM["ctor"](a.x, b.x, c.x))
REG.method_family["RVM"] = "RuleViolatedMessage"
for _f, _n in (("rule_subject", "rvm_subject"), ("rule_verb", "rvm_verb"), ("rule_object", "rvm_object")):
    REG.specfuns[_n] = (lambda nn: (lambda eng, st, m: V(("str",), _RVM["fields"][nn][0](m.x))))(_n)
    REG.add(Contract(f"RuleViolatedMessage.{_f}", status="assumed", kind="property", params=dict(self="RVM"), returns="Str", defn=f"{_n}(self)", note="dataclass field"))
_f_vp = z3.Function("verb_prefix", z3.BoolSort(), z3.BoolSort(), z3.BoolSort(), S)
REG.specfuns["verb_prefix"] = lambda eng, st, a, b, c: V(("str",), _f_vp(eng.truth(a), eng.truth(b), eng.truth(c)))
RMG2 = "RuleViolationMessageGenerator"
_G = dict(self=RMG2)
REG.macro("quoted", ["n"], "'\"' + n + '\"'")
REG.add(Contract(f"{RMG2}._get_quoted_name", module=M_MG2, kind="method", view="string", params=dict(self=RMG2, name="Str"), returns="Str", defn="quoted(name)", properties=["C03"]))
REG.add(Contract(f"{RMG2}._get_module_name", module=M_MG2, kind="method", view="string", params=dict(self=RMG2, module="Mod"), returns="Str", defn="mid(module)", properties=["C03"]))
REG.add(Contract(f"{RMG2}._get_suffix", module=M_MG2, kind="method", view="string", params=dict(self=RMG2, xbject="Str"), returns="Str", defn="''", properties=["C03"]))
REG.add(Contract(f"{RMG2}._get_verb_prefix", module=M_MG2, kind="method", status="assumed", params=dict(self=RMG2, negated="Bool", subject_singular="Bool"), returns="Str",
                 defn="verb_prefix(self._import_rule, negated, subject_singular)", note="text fragment from the module-level PREFIX_MAPPING table (is / is not / does not / ...)"))
REG.add(Contract(f"{RMG2}._get_verb_suffix", module=M_MG2, kind="method", view="string", params=dict(self=RMG2, subject_singular="Bool"), returns="Str",
                 defn="'s' if (subject_singular and self._import_rule) else ''", properties=["C03"]))
REG.add(Contract(f"{RMG2}._concatenate_verb", module=M_MG2, kind="method", view="string", params=dict(self=RMG2, verb="Str", prefix="Str", suffix="Str"), returns="Str",
                 defaults=dict(prefix="''", suffix="''"), defn="prefix + verb + suffix", properties=["C03"]))
REG.add(Contract(f"{RMG2}._get_rule_subject_and_object_of_dependency", module=M_MG2, kind="method", view="string", params=dict(self=RMG2, dependency="Dep"), returns="Tuple[Str,Str]",
                 ensures=["result[0] == quoted(mid(dependency[0]))", "result[1] == quoted(mid(dependency[1]))"], properties=["C03"]))
REG.macro("imports_verb", ["g"], "verb_prefix(g._import_rule, False, True) + g._base_verb + ('s' if g._import_rule else '')")
REG.add(Contract(f"{RMG2}._create_other_violating_dependencies_message", module=M_MG2, kind="method", view="string",
                 params=dict(self=RMG2, violating_dependencies="Bag[Dep]"), returns="Bag[RVM]",
                 # C03: the 'X imports Y' / 'X is imported by Y' records are exactly the image of the violating pairs: every reported line is a pair of the set,
                 # every pair of the set is reported (quoting is injective, so records and pairs correspond one to one)
                 ensures=["forall(RVM, lambda m: (m in result) == exists(Dep, lambda d: (d in violating_dependencies) and m == mk_rvm(quoted(mid(d[0])), imports_verb(self), quoted(mid(d[1])))))"],
                 locals=dict(messages="Bag[RVM]"),
                 loops={0: dict(sig="for dependency in violating_dependencies", invariant=[
                     "forall(RVM, lambda m: (m in messages) == exists(Dep, lambda d: (d in seen) and m == mk_rvm(quoted(mid(d[0])), rule_verb, quoted(mid(d[1])))))"])},
                 properties=["C03"]))
