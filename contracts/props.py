"""Which functions / lemmas / bounded parts decide which property."""
from __future__ import annotations

PROPS = {}


def keys_for(reg, pid):
    """All contracts that are verified (functions under contract and lemmas) for this property."""
    out = set(PROPS.get(pid, {}).get("roots", []))
    for k, c in reg.contracts.items():
        if pid in c.properties and (c.is_lemma or (c.status == "verify" and not c.inline)):
            out.add(k)
    return sorted(out)


def prop(pid, **kw):
    PROPS[pid] = kw


_TB = ["pyvc VC generator and its CPython builtin models", "z3 5.1 / cvc5 1.0.3 / z3 4.8.12"]

prop("C12", level="proof",
     level_text="Unbounded proof: every function between Rule.assert_applies and the three graph searches is verified against a contract "
                "(pre/post, exact raises-iff, loop invariants), and the five algebra laws are lemmas over the verdict specification "
                "those contracts establish; holds for all graphs, all subject/object sets, related or not.",
     level_note="Assumed: AbstractGraph accessor contracts (networkx DiGraph), dataclass field access, re.match as an uninterpreted "
                "relation, the string-level meaning of name_anc/glob2regex (proved separately at string level), pyvc itself. "
                "Partial correctness (termination of the worklist loops is not proved).",
     explanation="Rule algebra laws as lemmas over the contracts of the verdict pipeline.",
     roots=["Rule.assert_applies"],
     trusted_base=_TB)
