"""Which functions / lemmas / bounded parts decide which property."""
from __future__ import annotations

PROPS = {}


def keys_for(reg, pid):
    """All contracts that are verified (functions under contract and lemmas) for this property."""
    out = set(PROPS.get(pid, {}).get("roots", []))
    for k, c in reg.contracts.items():
        if pid in c.properties and (c.is_lemma or (c.status == "verify" and not c.inline)):
            out.add(k)
    return sorted(out)


def prop(pid, **kw):
    PROPS[pid] = kw


def _b(modname, fn):
    def run(tier, seed):
        import importlib
        return getattr(importlib.import_module("native." + modname), fn)(tier, seed)
    run.__name__ = f"{modname}.{fn}"
    return run


_TB = ["pyvc VC generator and its CPython builtin models", "z3 5.1 / cvc5 1.0.3 / z3 4.8.12"]

prop("C12", level="proof",
     level_text="Unbounded proof: every function between Rule.assert_applies and the three graph searches is verified against a contract "
                "(pre/post, exact raises-iff, loop invariants), and the five algebra laws are lemmas over the verdict specification "
                "those contracts establish; holds for all graphs, all subject/object sets, related or not.",
     level_note="Assumed: AbstractGraph accessor contracts (networkx DiGraph), dataclass field access, re.match as an uninterpreted "
                "relation, the string-level meaning of name_anc/glob2regex (proved separately at string level), pyvc itself. "
                "Partial correctness (termination of the worklist loops is not proved).",
     explanation="Rule algebra laws as lemmas over the contracts of the verdict pipeline.",
     roots=["Rule.assert_applies"], bounded=[_b("rules", "bounded_algebra")],
     trusted_base=_TB)

_RULE_NOTE = ("Assumed: AbstractGraph accessor contracts (networkx DiGraph), dataclass field access, re.match as an uninterpreted "
              "relation, pyvc itself. Partial correctness (termination of the worklist loops is not proved).")
prop("C01", level="proof",
     level_text="Unbounded proof: Rule.assert_applies and every function between it and the three graph searches are verified against "
                "contracts (pre/post, exact raises-iff, loop invariants); the verdict specification they establish is proved equal to the "
                "documented semantics (lemma C01_verdict_is_documented_semantics) for all graphs and all finite subject/object sets that "
                "are pairwise unrelated, both filter kinds, all 12 shapes and the two 'anything' aliases.",
     level_note=_RULE_NOTE, explanation="Verdict = documented semantics, as a lemma over the contracts of the verdict pipeline.",
     roots=["Rule.assert_applies", "C01_verdict_is_documented_semantics"], bounded=[_b("rules", "bounded_verdicts")], trusted_base=_TB)
prop("C11", level="proof",
     level_text="Unbounded proof: ModuleNameConverter.convert is verified (regex -> one name filter per matching module, ImpossibleMatch iff a "
                "regex matches nothing); expansion, batch-subjects and batch-objects laws are lemmas over the verdict specification "
                "Rule.assert_applies is proved against; have_name_containing configures exactly the translated regex filter.",
     level_note=_RULE_NOTE + " The glob->regex translation itself is verified at string level under C08.",
     explanation="Regex/batch specifications equal their expansions: lemmas over proved contracts.",
     roots=["Rule.assert_applies", "ModuleNameConverter.convert"], bounded=[_b("rules", "bounded_expansion")], trusted_base=_TB)
