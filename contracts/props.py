"""Which functions / lemmas / bounded parts decide which property."""
from __future__ import annotations

PROPS = {}


def keys_for(reg, pid):
    """All contracts that are verified (functions under contract and lemmas) for this property."""
    out = set(PROPS.get(pid, {}).get("roots", []))
    for k, c in reg.contracts.items():
        if pid in c.properties and (c.is_lemma or (c.status == "verify" and not c.inline)):
            out.add(k)
    return sorted(out)


def prop(pid, **kw):
    PROPS[pid] = kw


def _b(modname, fn):
    def run(tier, seed):
        import importlib
        return getattr(importlib.import_module("native." + modname), fn)(tier, seed)
    run.__name__ = f"{modname}.{fn}"
    return run


_TB = ["pyvc VC generator and its CPython builtin models", "z3 5.1 / cvc5 1.0.3 / z3 4.8.12"]

prop("C12", level="proof",
     level_text="Unbounded proof: every function between Rule.assert_applies and the three graph searches is verified against a contract "
                "(pre/post, exact raises-iff, loop invariants), and the five algebra laws are lemmas over the verdict specification "
                "those contracts establish; holds for all graphs, all subject/object sets, related or not.",
     level_note="Assumed: AbstractGraph accessor contracts (networkx DiGraph), dataclass field access, re.match as an uninterpreted "
                "relation, the string-level meaning of name_anc/glob2regex (proved separately at string level), pyvc itself. "
                "Partial correctness (termination of the worklist loops is not proved).",
     explanation="Rule algebra laws as lemmas over the contracts of the verdict pipeline.",
     roots=["Rule.assert_applies"], bounded=[_b("rules", "bounded_algebra")],
     trusted_base=_TB)

_RULE_NOTE = ("Assumed: AbstractGraph accessor contracts (networkx DiGraph), dataclass field access, re.match as an uninterpreted "
              "relation, pyvc itself. Partial correctness (termination of the worklist loops is not proved).")
prop("C01", level="proof",
     level_text="Unbounded proof: Rule.assert_applies and every function between it and the three graph searches are verified against "
                "contracts (pre/post, exact raises-iff, loop invariants); the verdict specification they establish is proved equal to the "
                "documented semantics (lemma C01_verdict_is_documented_semantics) for all graphs and all finite subject/object sets that "
                "are pairwise unrelated, both filter kinds, all 12 shapes and the two 'anything' aliases.",
     level_note=_RULE_NOTE, explanation="Verdict = documented semantics, as a lemma over the contracts of the verdict pipeline.",
     roots=["Rule.assert_applies", "C01_verdict_is_documented_semantics"], bounded=[_b("rules", "bounded_verdicts")], trusted_base=_TB)
prop("C11", level="proof",
     level_text="Unbounded proof: ModuleNameConverter.convert is verified (regex -> one name filter per matching module, ImpossibleMatch iff a "
                "regex matches nothing); expansion, batch-subjects and batch-objects laws are lemmas over the verdict specification "
                "Rule.assert_applies is proved against; have_name_containing configures exactly the translated regex filter.",
     level_note=_RULE_NOTE + " The glob->regex translation itself is verified at string level under C08.",
     explanation="Regex/batch specifications equal their expansions: lemmas over proved contracts.",
     roots=["Rule.assert_applies", "ModuleNameConverter.convert"], bounded=[_b("rules", "bounded_expansion")], trusted_base=_TB)

prop("C03", level="proof",
     level_text="Unbounded proof at the level of the reported PAIRS: the three searches return exactly the property's violating sets (both inclusions; in particular every "
                "reported pair has its subject-side endpoint inside the subject's own set), the detector buckets are exactly the images of those sets in user order. "
                "MESSAGES (string view, contracts/c_messages.py): every function of message_generator.py is under contract. Records: each forbidden-import bucket yields exactly one record "
                "(quoted importer, verb, quoted importee) per pair and nothing else; each missing-import bucket yields, for every subject with a missing pair, a record whose subject text "
                "names that subject and whose object text is a ', '-join of exactly the texts of the objects IT is missing, and no other record. Composition: the record list of "
                "_create_violation_messages consists of records of the eight buckets in their roles (every record stems from some bucket, every entry of every bucket has its record); "
                "a bucket contributes records iff it is non-empty (lemmas C03_*_bucket_reported_iff_nonempty, C03_records_iff_some_bucket_nonempty); "
                "create_rule_violation_messages renders each record as 'subject verb object.', every line is such a rendering, every bucket entry has its line, no line occurs twice; "
                "create_rule_violation_message / RuleMatcher._create_rule_violation_message return a newline-join of exactly those lines for the generator of the rule's direction. "
                "The verb wording ('imports' / 'does not import' / 'is [not] imported by' / plural forms) is the documented table, against which the source's PREFIX_MAPPING is verified. "
                "NOT modelled (bounded only): the ORDER of lines and of the objects within a line (sorted / list.sort) and multiplicities inside a joined text; "
                "the bounded stand-in parses real messages and compares them with the reference violating set.",
     level_note=_RULE_NOTE + " Message layer: sep.join over a list seen as a collection is the uninterpreted relation is_join(text, sep, elements) (order and multiplicities unmodelled); "
                "Bounded (not proved): order of lines / objects.",
     explanation="Search/detector postconditions are the violating sets; message records, lines and text under contract (which names in which role); order and wording compared natively.",
     roots=["Rule.assert_applies", "RuleViolationBaseDetector.get_rule_violation", "RuleViolationMessageGenerator._create_other_violating_dependencies_message",
            "RuleViolationMessageGenerator._get_violating_rule_subjects_and_objects", "RuleViolationMessageBaseGenerator.create_rule_violation_message",
            "RuleViolationMessageBaseGenerator.create_rule_violation_messages", "RuleViolationMessageBaseGenerator._create_violation_messages",
            "RuleMatcher._create_rule_violation_message@str", "C03_records_iff_some_bucket_nonempty"], bounded=[_b("rules", "bounded_reports")], trusted_base=_TB)
prop("C13", level="proof",
     level_text="Unbounded proof for module rules: Rule.assert_applies raises ImproperlyConfigured / RuleInconsistency / ImpossibleMatch / NetworkXError exactly in the "
                "incomplete, contradictory, unmatched-regex and unknown-name cases (exact raises-iff contracts down to the graph searches), so none of them yields a verdict; "
                "every builder method is under contract, hence the claim holds after every finite call sequence. Entry-point options (PROVED, string view): "
                "get_evaluable_architecture raises ImproperlyConfigured exactly when glob and regex exclusions are both non-empty, or glob and regex external exclusions are both "
                "non-empty, or externals are excluded and an external pattern is given (None and the empty tuple both mean 'no pattern'), raises ValueError exactly when the request is "
                "otherwise valid and module_path is not root_path or below it (assumed pathlib relative_to contract), and in all those cases the graph constructor is never called "
                "(ghost log of constructor calls unchanged), so no architecture exists that could produce a verdict; get_evaluable_architecture_for_module_objects raises in exactly the "
                "same cases on the modules' directories. Which names ARE nodes is proved on the graph constructor (NetworkxGraph.__init__: exactly the flattened modules, their dotted ancestors and the dotted ancestors of importers; never an importee that is not one of these), modulo the bounded truncation. Layer rules and diagram rules: bounded stand-ins against specification automata.",
     level_note=_RULE_NOTE + " Bounded (not proved): call chains of LayerRule / DiagramRule. Assumed for the entry points: pathlib.Path(s), Path.relative_to (ValueError iff not below), "
                "os.sep, os.path.dirname, module.__file__; in the entry-point proofs the graph constructor call is a recording placeholder contract (NetworkxGraph.__init__@ctor-call), the constructor itself is proved separately (NetworkxGraph.__init__).",
     explanation="No verdict from undefined or incomplete specifications: exact exceptional postconditions + builder contracts.",
     roots=["Rule.assert_applies", "C13_unknown_name_never_a_verdict", "C13_outcomes_exclusive", "C13_should_not_with_other_verb_is_contradictory",
            "get_evaluable_architecture", "get_evaluable_architecture_for_module_objects"],
     bounded=[_b("builders", "bounded_rule_chains"), _b("builders", "bounded_unknown_names"), _b("builders", "bounded_other_builders")], trusted_base=_TB)
prop("C14", level="proof",
     level_text="Functions on the verdict path are verified with module names as an UNINTERPRETED sort (they can only compare names for equality, so results are invariant under "
                "every injective renaming by construction); the flagged sites that inspect names character-wise are verified in the string view against dotted-boundary "
                "contracts. Renaming invariance of verdicts and messages is additionally exercised natively under adversarial component renamings (bounded).",
     level_note=_RULE_NOTE + " Flagged sites under a string-view contract: the sub-module de-duplication of 'anything' rules, the layer lookup (LayerMapping, dotted ancestors via bisect), plot labels (_create_label), "
                "get_parent_modules, the internal-prefix functions, ModulePrefixer. Bounded (not proved): node flattening (_flatten_graph_node: split/join with a symbolic limit) and module naming from paths are covered by the native renaming checks only (graph level, layer / label level, and scanned directory trees under three namings of the path components).",
     explanation="Opacity of names + dotted-boundary contracts at flagged sites.",
     roots=["Rule.assert_applies", "Rule._get_modules_to_check_without_parent_and_submodule_combinations"],
     bounded=[_b("invariance", "bounded_renaming"), _b("layers", "bounded_layer_label_renaming")], trusted_base=_TB)
prop("C15", level="proof",
     level_text="Frame conditions proved: no function on the evaluation path modifies the evaluable (frame obligations on every contract), Rule.assert_applies changes nothing "
                "but the alias normalisation of its own configuration, and that normalisation preserves the outcome (lemma C15_reapplication_same_outcome). All postconditions "
                "are functions of the inputs as SETS and are proved for arbitrary iteration orders, so list order / enumeration order / hash seed cannot matter. "
                "Native bounded checks re-apply rule objects, permute arguments, vary hash seeds and directory enumeration order.",
     level_note=_RULE_NOTE + " Bounded (not proved): layer / diagram rule evaluation, scanning (Parser) order independence, interpreter hash seeds.",
     explanation="Purity and order independence: frames + set-level postconditions.",
     roots=["Rule.assert_applies", "C15_reapplication_same_outcome"], bounded=[_b("invariance", "bounded_purity")], trusted_base=_TB)
prop("C16", level="other",
     level_text="Mixed, mostly proved. PROVED (string view): LayeredArchitecture with the class invariant 'at most one layer is waiting for its modules' (established by __init__, required and "
                "re-established by every mutating method, hence true after EVERY finite call sequence): layer(n) is rejected iff a layer is pending or n exists; containing_modules(str | list) is "
                "rejected iff no layer is open or some name is already assigned to a layer -- whether passed as a string or inside a list -- and otherwise stores exactly the supplied names; "
                "have_modules_with_names_matching likewise; with_layer changes nothing. LayerRule: based_on accepts exactly one architecture; every verb / access method raises "
                "ImproperlyConfigured exactly when layers_that has not been called; layers_that / are_named (exactly one subject layer, every named layer must be defined, exactly the filters of the named layers are "
                "appended on the side being specified) and Rule._add_modules / _append_modules (the parallel lists of names and closures: every module keeps ITS OWN name / regex kind -- a late-binding "
                "rewrite refutes the loop invariant). BOUNDED: the ORDER of the listing (dict insertion order) and functools.partial: every builder call sequence up to the stated length is run on the real "
                "classes and compared, call by call, with an independent specification automaton.",
     level_note="Assumed: dict / set / list semantics as modelled by pyvc (len() of a duplicate-free comprehension = cardinality). Reference automaton written from the property text; the sequences are "
                "exhaustive up to length 4 (quick) / 5 (thorough) over an alphabet that forces duplicates.",
     technique="contract-based deductive verification (class invariant + per-method contracts, VCs by pyvc, z3/cvc5) + bounded stand-in: exhaustive short call sequences on the real builders against a specification automaton",
     explanation="Layer definition well-formedness.",
     roots=["LayeredArchitecture.__init__", "LayeredArchitecture.layer", "LayeredArchitecture.containing_modules", "LayeredArchitecture.containing_modules@list",
            "LayeredArchitecture.have_modules_with_names_matching", "LayeredArchitecture.with_layer", "LayerRule.based_on", "LayerRule.should", "LayerRule.access_layers_that"],
     bounded=[_b("builders", "bounded_layer_definitions")], trusted_base=_TB)

_BND_NOTE = "Bounded only for the pipeline-level claim; reference semantics written from the property text. "
_BND_TECH = "contract-based verification of the functions within reach (see evidence) + bounded stand-in: real entry points on generated project trees against a reference statement of the property"
prop("C02", level="other",
     level_text="Mixed. PROVED (string view): ImportConverter.convert yields exactly the imports of the import statements nested at ANY depth in ANY statement list (statements, except "
                "handlers, match cases in any field) of the scanned files -- worklist invariant for unbounded nesting under the statement-tree unfolding schema; ImportConverter._convert: one "
                "import per alias of 'import a.b.c [as x]', 'from P import n' names P.n when that is a scanned module and P otherwise, relative forms per alias with the same sub-module "
                "preference; _adjust_with_root_prefix; get_parent_modules = dotted ancestors; the Import classes (AbsoluteImport.__init__ with the inlined Import.__init__, the importer / importee / parent-list getters, RelativeImport._calculate_importee relative to the stored parent list). GRAPH CONSTRUCTION (names opaque, over the assumed networkx.DiGraph model, modulo the still bounded truncation flat = _flatten_graph_node): NetworkxGraph.__init__ / _initialise / _add_all_modules_as_nodes / _add_edges_within_module_hierarchy are under contract: the node set is EXACTLY the flattened names of the modules, of their dotted ancestors and of the dotted ancestors of importers -- no node is ever created for an importee or an importee's ancestor; every edge joins two nodes and is a hierarchy pair (flattened strict ancestor -> flattened ancestor-or-self of one module / importer / importee) or the flattened (importer, importee) pair of an import record; an edge with inherits=False is always such an import pair, inherits=True only sits on hierarchy pairs; every import between two differing flattened modules / module ancestors is an edge. _add_edges_within_module_hierarchy is characterised exactly (which adjacent pairs of parent_modules + [child] are linked, in list order). NOT proved: WHICH hierarchy pairs end up linked (the order of get_parent_modules' list is not under contract), the final inherits value of a pair that is both an import pair and a hierarchy pair, and the composition with the converter's records. BOUNDED: what ast.parse / ast.iter_child_nodes deliver for each grammar position, relative-import "
                "resolution (rel_importee: RelativeImport.__init__ keeps an assumed constructor contract) and the composition down to graph edges: every statement-list position of the running interpreter's grammar x 24 import forms, all edges of every scan.",
     level_note="Assumed: ast node fields, ast.iter_child_nodes returns the directly nested statement-like nodes of every field, RelativeImport's importee function. " + _BND_NOTE + "ast.parse trusted.",
     technique=_BND_TECH, explanation="import statements vs edges", roots=["ImportConverter.convert", "ImportConverter._convert", "ImportConverter._adjust_with_root_prefix", "get_parent_modules"],
     bounded=[_b("projects", "bounded_import_edges")], trusted_base=_TB)
prop("C04", level="other",
     level_text="Mixed. PROVED (string view): Parser.parse registers exactly one module per non-excluded directory and per non-excluded .py file reached from module_path through non-excluded "
                "directories (worklist invariant for unbounded trees and ANY enumeration order, under the tree-unfolding schema); _parse_file / _file_should_be_parsed; get_parent_modules = "
                "dotted ancestors; _get_internal_module_prefix, _get_all_internal_modules, _adjust_with_root_prefix (both import spellings). Parser.parse also pins the list of parsed files "
                "(exactly the non-excluded .py files of the scan). Parser._get_module_name (string view): root directory name, '.', the path relative to the root with the suffix removed "
                "and separators replaced by '.' (the root's own name for the root itself). COMPOSITION (generate_graph, get_evaluable_architecture, over a ghost log of the graph-constructor "
                "call): the module list handed to the constructor contains every scanned module and, with externals excluded, nothing else; the import list is the converter's output "
                "for exactly the parsed files with the absolute-import prefix of the property ('' for module_path == root_path, else the dotted path of module_path's parent relative "
                "to root_path's parent). Module-object entry point: raises in the same cases and satisfies literally the path entry point's postcondition on "
                "dirname(root_module.__file__), dirname(module.__file__) with every option in its own position. GRAPH CONSTRUCTION (names opaque, over the assumed networkx.DiGraph model, modulo the still bounded truncation flat = _flatten_graph_node): NetworkxGraph.__init__ / _initialise / _add_all_modules_as_nodes / _add_edges_within_module_hierarchy are under contract: the node set is EXACTLY the flattened names of the modules, of their dotted ancestors and of the dotted ancestors of importers -- no node is ever created for an importee or an importee's ancestor; every edge joins two nodes and is a hierarchy pair (flattened strict ancestor -> flattened ancestor-or-self of one module / importer / importee) or the flattened (importer, importee) pair of an import record; an edge with inherits=False is always such an import pair, inherits=True only sits on hierarchy pairs; every import between two differing flattened modules / module ancestors is an edge. _add_edges_within_module_hierarchy is characterised exactly (which adjacent pairs of parent_modules + [child] are linked, in list order). NOT proved: WHICH hierarchy pairs end up linked (the order of get_parent_modules' list is not under contract), the final inherits value of a pair that is both an import pair and a hierarchy pair, and the composition with the converter's records. BOUNDED: the truncation itself, the COMPLETENESS of the hierarchy edges (every module linked to its direct parent; in the entry-point proofs the constructor call is a recording placeholder contract), sub-directory scan = restriction of the whole-root scan (also sibling scans in fresh processes): random directory trees "
                "through the real entry points.",
     level_note="Assumed: pathlib (is_dir, iterdir, resolve as identity, suffix, str, Path(s), parent, relative_to, with_suffix('')), os.sep, os.path.dirname, module.__file__, open/read, ast.parse; "
                "in Parser.parse's contract the module name is the function mod_name (its string definition is proved on Parser._get_module_name, linked by name; assumed: scanned paths lie below the root). " + _BND_NOTE +
                "Input validity: no x.py next to a directory x, component names without '.'.",
     technique=_BND_TECH, explanation="scan mirrors the directory tree",
     roots=["Parser.parse", "Parser._parse_file", "Parser._file_should_be_parsed", "get_parent_modules", "_get_internal_module_prefix", "_get_all_internal_modules", "ImportConverter._adjust_with_root_prefix",
            "Parser._get_module_name@str", "generate_graph", "get_evaluable_architecture", "get_evaluable_architecture_for_module_objects"],
     bounded=[_b("projects", "bounded_tree_mirror")], trusted_base=_TB)
prop("C08", level="proof",
     level_text="Proved (string view): convert_partial_match_to_regex returns exactly ('.*' if leading *) + re.escape(text) + ('.*' if trailing * else '$'), and for EVERY literal text the four "
                "shapes denote equality / suffix / prefix / substring under re.match (lemmas glob_shape_*; all strings, not only short ones). Parser.parse: an excluded directory is neither "
                "registered nor descended into, an excluded file is neither registered nor parsed (module list AND list of parsed files in closed form). Option handling in "
                "get_evaluable_architecture: glob and regex exclusions are mutually exclusive (ImproperlyConfigured iff both non-empty); the effective patterns are the translations of the glob "
                "patterns when `exclusions` is non-empty, else regex_exclusions as given, and None / the empty tuple mean no pattern; exactly these patterns reach the scan, and the import "
                "converter sees exactly the non-excluded files. Bounded: the conversion is also run exhaustively on "
                "short strings against the glob semantics, and real scans with exclusions are compared with the unfiltered scan minus the matching sub-trees (the relational 'scan with pattern = scan without minus sub-trees' "
                "statement is not a lemma yet).",
     level_note="Assumed: re.escape(t) denotes exactly t, '.*' any newline-free string, '$' end of string (paths contain no newline). " + _BND_NOTE, technique=_BND_TECH,
     explanation="glob->regex proved on strings; pruning behaviour bounded", roots=["convert_partial_match_to_regex@str", "glob_shape_exact", "glob_shape_suffix", "glob_shape_prefix", "glob_shape_infix", "Parser.parse", "get_evaluable_architecture"],
     bounded=[_b("projects", "bounded_exclusions")], trusted_base=_TB)
prop("C09", level="other",
     level_text="Mixed. PROVED: the limit arithmetic (_add_extra_levels_to_limit_if_root_and_module_path_differ: raised by the number of dotted components between root_path and module_path), "
                "NetworkxGraph._create_node / _create_edge over flattened names (no edge to an unknown module, self edges dropped after flattening, single edge per pair). GRAPH CONSTRUCTION (names opaque, over the assumed networkx.DiGraph model, modulo the still bounded truncation flat = _flatten_graph_node): NetworkxGraph.__init__ / _initialise / _add_all_modules_as_nodes / _add_edges_within_module_hierarchy are under contract: the node set is EXACTLY the flattened names of the modules, of their dotted ancestors and of the dotted ancestors of importers -- no node is ever created for an importee or an importee's ancestor; every edge joins two nodes and is a hierarchy pair (flattened strict ancestor -> flattened ancestor-or-self of one module / importer / importee) or the flattened (importer, importee) pair of an import record; an edge with inherits=False is always such an import pair, inherits=True only sits on hierarchy pairs; every import between two differing flattened modules / module ancestors is an edge. _add_edges_within_module_hierarchy is characterised exactly (which adjacent pairs of parent_modules + [child] are linked, in list order). NOT proved: WHICH hierarchy pairs end up linked (the order of get_parent_modules' list is not under contract), the final inherits value of a pair that is both an import pair and a hierarchy pair, and the composition with the converter's records. BOUNDED: the truncation "
                "itself (_flatten_graph_node: split/join) and the quotient / verdict-preservation claims: for random trees, every module_path depth and every k, the level-limited architecture is compared with the truncation quotient of the full one, and rule "
                "verdicts on names at or above the limit are compared between the two.",
     level_note=_BND_NOTE, technique=_BND_TECH, explanation="quotient graph", roots=["_add_extra_levels_to_limit_if_root_and_module_path_differ", "NetworkxGraph._create_edge", "NetworkxGraph._create_node", "NetworkxGraph.__init__"], bounded=[_b("projects", "bounded_level_limit")], trusted_base=_TB)
prop("C10", level="proof",
     level_text="Proved (string view) for every stage that implements the external options: ExternalImportFilter.filter keeps every import whose importee is internal in EVERY "
                "configuration and drops an external import iff the importee or one of its dotted ancestors matches a pattern; ImporteeModuleCalculator adds exactly the importees and their "
                "dotted ancestors; _append_external_modules_to_module_list never removes a scanned module and filters only added externals; _remove_excluded_imports / "
                "_get_all_internal_modules / _get_internal_module_prefix carry the same frame. COMPOSITION (generate_graph / get_evaluable_architecture, over a ghost log of the graph-constructor call): "
                "with externals excluded the module list handed to the constructor is exactly the scan and no import to a module outside the scanned tree reaches it; with externals "
                "included the additional modules are exactly the importees (and dotted ancestors) of the imports that reach the constructor and leave the tree, minus those matching an "
                "effective external pattern; every scanned module and every converted import into the scanned tree reaches the constructor under EVERY external option; the external "
                "options are only passed through (validated, glob patterns translated). What the constructor builds from the lists is covered by the bounded "
                "stand-in that scans random projects under every option set.",
     level_note="Assumed: re.match / re.compile (uninterpreted relation), pathlib.Path.name / str(), get_parent_modules' contract (dotted ancestors; proved separately where claimed), generated "
                "dataclass __init__. " + _BND_NOTE, technique=_BND_TECH, explanation="external options frame: per-stage contracts + bounded pipeline check",
     roots=["ExternalImportFilter.filter", "_append_external_modules_to_module_list", "_remove_excluded_imports", "ImporteeModuleCalculator.calculate_importee_modules",
            "generate_graph", "get_evaluable_architecture"],
     bounded=[_b("projects", "bounded_externals")], trusted_base=_TB)
prop("C05", level="other",
     level_text="Mixed, mostly proved; the end-to-end composition stays bounded. PROVED (names and layer names uninterpreted): every method of LayerRuleViolationDetector with an EXACT "
                "postcondition (both inclusions) over the layer lookup layer_of(mapping, name) and the query results -- __init__; _get_realised_dependencies keeps exactly the reported pairs that "
                "cross a layer boundary; the four forbidden-import buckets are exactly those; _group_explicitly_requested_dependencies_by_layers puts every abstract pair into exactly the group "
                "of its rule OBJECT's layer (None = in no layer); _get_abstract_dependencies_without_any_realisations reports all pairs of an object layer iff the layer is a layer of the "
                "mapping and NONE of its pairs is realised ('access' needs one import per named object layer); _get_any_missing_dependencies_in_user_specified_order / _append_missing_dependencies: "
                "one (subject module, object) pair per key iff NO reported other-import leaves the layer (an intra-layer import never counts as access to something else); the four "
                "missing-import buckets; get_rule_violation re-verified with the layer detector as receiver (all eight buckets). LayerRuleMatcher: __init__, "
                "_replace_regex_specified_modules_with_actual_modules (named filters as themselves, a regex filter as the modules the conversion table lists for it, NOTHING and no error when the "
                "table has no entry: an unmentioned regex layer), _update_layer_mapping (total; same layers, each with its expanded modules), _get_rule_violation_detector, the conversion table, and "
                "_find_rule_violations: the eight buckets as functions of the GRAPH and the updated layer mapping (glue lemmas LL_*). LayerRule.__init__ and the builder steps. String view: "
                "LayerMapping.__init__ / _get_layer / _get_layer_or_none / get_layer_for_module_name (the layer that lists the module, else the layer of a listed DOTTED ancestor; LayerMismatch iff two "
                "qualify; sorted / bisect and two facts about str order assumed), all_layers, get_module_filters. LEMMA C05_verdict_is_documented_layer_semantics: for a well-formed graph, pairwise "
                "disjoint layers, the subject layer not among the object layers, and the by-name link 'layer_of(L, n) is the layer whose listed modules have n as a descendant', the bucket "
                "specification is violated iff the documented semantics (access / other over Lay = listed modules and descendants) is, for 8 of the 12 shapes: should_not, should ... except, "
                "should_only ... except, should_not ... except, in both directions. BOUNDED (not proved): 'should' and 'should_only' without except at lemma level (their buckets are proved, the "
                "missing-access lemma is not), the two 'any layer' aliases, and the COMPOSITION LayerRule.assert_applies -> Rule.assert_applies -> LayerRuleMatcher.match (the layer matcher is "
                "instantiated through functools.partial; the hypotheses of the lemma -- the converted filters list exactly the modules of the mentioned layers -- are established function by "
                "function but not composed; Rule._add_modules itself -- every listed module keeps its own name / regex kind -- is proved), LayeredArchitecture.layer_mapping: random layer partitions (name lists, regex, mixed, unmentioned layers, modules in no layer) on "
                "graphs with prefix-named siblings; the real LayerRule outcome is compared with the documented layer semantics for all 12 shapes and the two 'any layer' aliases.",
     level_note=_BND_NOTE + "Assumed in the default view: LayerMapping(dict) yields a mapping whose observers (all_layers, get_module_filters) return the dict's keys / values (proved on the real "
                "class in the string view; the two views are linked by name, not by proof); the lookup of a mapping never raises LayerMismatch there (disjoint layers).",
     technique=_BND_TECH, explanation="layer rule verdicts",
     roots=["LayerRuleViolationDetector.get_rule_violation", "LayerRuleMatcher._find_rule_violations", "LayerRuleMatcher._update_layer_mapping", "LayerRuleViolationDetector._get_realised_dependencies",
            "LayerRuleViolationDetector._get_any_missing_dependencies_in_user_specified_order", "LayerRule.based_on", "C05_verdict_is_documented_layer_semantics"],
     bounded=[_b("layers", "bounded_layer_verdicts")], trusted_base=_TB)
prop("C06", level="other",
     level_text="Mixed. PROVED (string view): (1) the structure of PumlParser.parse around the regex tokenisation: the file text is read and stripped, a text without '@startuml <non-empty> @enduml' "
                "(re.search with the tag regex the source builds, DOTALL) raises PumlParsingError and is never parsed to an empty diagram, otherwise exactly group 1 -- the text between the tags -- is "
                "tokenised, and the result is the alias resolution and merge of the tokens found there; _remove_content_outside_start_and_end_tags, _named_group, _component_optional_brackets (the regex "
                "text they build). (2) alias resolution and merge -- PumlParser._unify / _get_modules_by_alias / _unify_module / _get_unified_modules: every alias stands for the name of a declaration "
                "that carries it, the dependencies of a component are the union over all lines naming it as dependor by alias or by name, every identifier resolved; components = declared + dependors + "
                "dependees. BOUNDED: the two re.finditer loops (_retrieve_modules_declared_outside_dependencies, _retrieve_dependencies_and_inline_modules: which (name, alias) pairs and which "
                "dependor -> dependee pairs the regexes find in a text) enter the proof as two uninterpreted functions of the diagram text ('bounded' contracts); what they are is checked by the stand-in: "
                "diagrams generated from a random component relation by choosing declaration, reference and arrow forms and line order; the real parser's components and dependencies are compared "
                "with the relation; files without tags must be rejected. (3) REGEX AS DATA, per-line language lemmas: on every run the two line regexes are obtained from the current source (the real functions run once on the empty "
                "text with re.compile intercepted), parsed with CPython's re._parser and translated to SMT-LIB RegLan; proved for ALL component names over letters / digits / '_' / '.' (dotted names included), all arrow texts and "
                "aliases over \\w+: each of the 10 documented arrow forms ([a] --> [b], [a] -> [b], a --> b, [a] -text-> [b], a -> [b] and the five mirrored <- forms) is matched as a whole line by the dependency regex, each of the 6 "
                "declaration forms (component a, [a], component [a], each with 'as alias') by the declaration regex. Direction (10 lemmas): a right-arrow line is matched by the first alternative (dependor left) and NOT by the second (over-approximated language), a left-arrow line conversely, so the groups of the other alternative are None. NOT proved: which text the capture groups bind (the lemmas were stated -- every decomposition of the whole "
                "line binds dependor / dependee to the names -- but the word equations time out on both solvers; left out), and the choice among several matches in a multi-line text.",
     level_note=_BND_NOTE + "Whole-file re.finditer tokenisation is outside SMT regex theories (DESIGN section 7). Assumed: open/read, str.strip (an uninterpreted function), re.compile / re.search / "
                "re.finditer / Match.group as uninterpreted functions of pattern text, flags and text. With two declarations of ONE alias for different components the alias map (hence the parse result) "
                "depends on set iteration order, i.e. on the hash seed; the contracts only say that the alias stands for one of the two.",
     technique=_BND_TECH, explanation="puml parsing",
     roots=["puml_dependency_regex_accepts_bracketed_long_right", "puml_declaration_regex_accepts_brackets", "PumlParser.parse", "PumlParser._remove_content_outside_start_and_end_tags", "PumlParser._named_group", "PumlParser._component_optional_brackets",
            "PumlParser._unify", "PumlParser._get_unified_modules", "PumlParser._get_modules_by_alias"],
     bounded=[_b("diagrams", "bounded_puml")], trusted_base=_TB)
prop("C07", level="other",
     level_text="Mixed, mostly proved. PROVED: (1) DependencyToRuleConverter.convert / _convert_should_rules / _convert_should_not_rules / _generate_rule / __init__: the generated rule list, as the bag of the "
                "records of its Rule objects, is EXACTLY {R+(a) | a has arrows} + {R-(a) | a a component, K - {a} - T(a) non-empty}: R+(a) has subject a (by name), verb should_only in the default mode / "
                "should otherwise, direction import, objects = exactly the drawn targets of a; R-(a) is 'should_not import' towards exactly the OTHER components a has no arrow to; every other field of "
                "the Rule is pinned (no except, no anything, default matcher). Hence the required/allowed pairs are exactly the drawn relation and the forbidden pairs exactly its complement among the "
                "components minus the diagonal (any number of components, any iteration order). (2) MultipleRuleApplier.assert_applies evaluates ALL rules, fails iff some rule is violated, collects "
                "exactly the messages of the violated rules and never turns an erroring rule into a verdict. (3) ModulePrefixer.prefix / _add_prefix_to_module and DiagramRule._add_base_module_path: "
                "with_base_module(p) == writing every component as p.name (string view). (4) DiagramRule: __init__ / from_file / with_base_module / base_module_included_in_module_names change exactly "
                "their own field; assert_applies raises ImproperlyConfigured iff no file was given, PumlParsingError iff the file has no diagram between the tags, and otherwise has exactly the outcome of "
                "MultipleRuleApplier over the converted rules of the prefixed parse result of the file (composition; each Rule's own outcome is the abstract RuleApplier outcome ra_errors / ra_violated, "
                "linked to Rule.assert_applies' contract by name only). BOUNDED: the end-to-end conformance claim on import graphs (what the generated rules mean on an architecture: C01's lemma is not "
                "instantiated for the generated rules): the real DiagramRule outcome is compared with the conformance predicate of the property on random component relations and perturbed import graphs, "
                "both modes; aggregated messages are checked to contain every violated forbidden pair.",
     level_note=_BND_NOTE + "Lists of Rule objects are modelled as bags of record snapshots (sound for temporaries; the engine refuses anything else). PumlParser.parse is used as a pure function of the file.",
     technique=_BND_TECH, explanation="diagram rule conformance",
     roots=["DiagramRule.assert_applies", "DiagramRule.__init__", "DiagramRule.from_file", "DiagramRule.with_base_module", "DiagramRule.base_module_included_in_module_names",
            "DependencyToRuleConverter.convert", "DependencyToRuleConverter._convert_should_not_rules@sets", "MultipleRuleApplier.assert_applies", "ModulePrefixer.prefix",
            "ModulePrefixer._add_prefix_to_module", "DependencyToRuleConverter._generate_rule"],
     bounded=[_b("diagrams", "bounded_diagram_rule")], trusted_base=_TB)
prop("C17", level="other",
     level_text="Mixed. PROVED (string view, all strings, any number of aliases): NetworkxGraph._create_label returns the alias of the LONGEST aliased module that equals the module or is a dotted "
                "ancestor of it, followed by the rest of the name, and the full name when none applies (label_ok); _create_plot_labels_with_alias labels exactly the graph's nodes, each with "
                "label_ok, and raises KeyError iff an aliased module is not a node; _assert_aliased_modules_exist. NetworkxGraph.draw (over a ghost log of the back-end call): draw_networkx is called exactly "
                "once with the graph; 'spacing' is removed and becomes pos = spring_layout(graph, k=spacing, iterations=20); 'aliases' is removed and becomes labels = the label map above; the two "
                "options are handled independently; every other keyword reaches the back end unchanged; KeyError iff an aliased module is no node, and then nothing is drawn. "
                "EvaluableArchitectureGraph.visualize is exactly one graph.draw(**kwargs) with every keyword unchanged. BOUNDED: the same composition observed at the intercepted drawing call for random trees and alias maps (nested aliases, prefix-named "
                "siblings, regex metacharacters).",
     level_note=_BND_NOTE + "Assumed: draw_networkx / spring_layout / `import matplotlib` as library contracts that only record the call; kwargs['aliases'] is a dict[str, str] (docstring); visualize -> draw linked by name. In the bounded part draw_networkx / spring_layout are intercepted with unittest.mock.", technique=_BND_TECH, explanation="plot labels", roots=["NetworkxGraph._create_plot_labels_with_alias", "NetworkxGraph._create_label", "NetworkxGraph._assert_aliased_modules_exist", "NetworkxGraph.draw", "EvaluableArchitectureGraph.visualize"], bounded=[_b("layers", "bounded_labels")], trusted_base=_TB)
