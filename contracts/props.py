"""Which functions / lemmas / bounded parts decide which property."""
from __future__ import annotations

PROPS = {}


def keys_for(reg, pid):
    """All contracts that are verified (functions under contract and lemmas) for this property."""
    out = []
    for k, c in reg.contracts.items():
        if pid in c.properties and (c.is_lemma or (c.status == "verify" and not c.inline)):
            out.append(k)
    return sorted(out)


def prop(pid, **kw):
    PROPS[pid] = kw


prop("C12", level="proof",
     explanation="Rule algebra laws as lemmas over the contracts of the verdict pipeline (Rule.assert_applies -> RuleMatcher.match "
                 "-> the three graph searches); every function on that path is verified against its contract.",
     trusted_base=["z3 5.1 / cvc5 1.0.3 / z3 4.8.12", "pyvc VC generator"])
