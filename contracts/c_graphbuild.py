"""Contracts: graph construction -- NetworkxGraph.__init__ / _initialise / _add_all_modules_as_nodes / _add_edges_within_module_hierarchy
(C02, C04, C09, C13) over the assumed networkx.DiGraph model of c_networkx.py (d.nodes, d.edges, d.inh; flat(limit, n) = _flatten_graph_node).

What the code does (and what the contracts say, nothing more):
* a NODE is created only by _create_node: for every element of all_modules and for every element of the parent list handed to
  _add_edges_within_module_hierarchy (the dotted ancestors of a module of all_modules, resp. of an IMPORTER). Nothing is ever created for an importee
  or for an importee's ancestors.
* an EDGE is created only by _create_edge, between two names that are nodes AT THAT MOMENT and differ after flattening. The edge set only grows.
  A hierarchy pair (p, c) is tried in list order, right after p was created and BEFORE c (the next parent) is: the pair is linked only if c is a node
  already. A later call with inherits != the stored attribute overwrites the attribute (one attribute per ordered pair)."""
from pyvc import vals
from .speclib import REG, Contract
from .c_networkx import NG, M_NX

# the object now also carries the two constructor arguments it stores (never changed after __init__)
vals.OBJ_LAYOUT[NG]["_all_modules"] = vals.parse_type("Bag[Node]")

# ---------------------------------------------------------------- _add_edges_within_module_hierarchy (default view: names are opaque)
# xs = parent_modules + [child]; hnode(lim, xs, k, x): x is the flattened name of one of the first k elements
REG.macro("hnode", ["lim", "xs", "k", "x"], "exists(Int, lambda j: 0 <= j and j < k and x == flat(lim, seq_at(xs, j)))")
# hhit(g0, lim, xs, i, a, b): step i links (a, b): a, b are the flattened names of elements i, i+1, they differ, and b is a node at that moment
# (a node of the graph at entry, or one of the parents 0..i created so far)
REG.macro("hhit", ["g0", "lim", "xs", "i", "a", "b"],
          "a == flat(lim, seq_at(xs, i)) and b == flat(lim, seq_at(xs, i + 1)) and a != b and ((b in g0.nodes) or hnode(lim, xs, i + 1, b))")
REG.macro("hlinked", ["g0", "lim", "xs", "k", "a", "b"], "exists(Int, lambda i: 0 <= i and i < k and hhit(g0, lim, xs, i, a, b))")
_XS = "(parent_modules + [old(child)])"
_AEH_STATE = [
    "self._level_limit == old(self)._level_limit", "self._all_modules == old(self)._all_modules",
    # nodes: exactly the old ones and the flattened parents (NOT the child)
    "forall(Node, lambda x: implies(x in self._graph.nodes, (x in old(self)._graph.nodes) or hnode(old(self)._level_limit, %XS%, %K%, x)))",
    "forall(Node, lambda x: implies((x in old(self)._graph.nodes) or hnode(old(self)._level_limit, %XS%, %K%, x), x in self._graph.nodes))",
    # edges: exactly the old ones and the pairs linked by some step; all of them are hierarchy edges afterwards (an import edge on such a pair is overwritten)
    "forall(Node, Node, lambda a, b: implies((a, b) in self._graph.edges, ((a, b) in old(self)._graph.edges) or hlinked(old(self)._graph, old(self)._level_limit, %XS%, %K%, a, b)))",
    "forall(Node, Node, lambda a, b: implies(((a, b) in old(self)._graph.edges) or hlinked(old(self)._graph, old(self)._level_limit, %XS%, %K%, a, b), (a, b) in self._graph.edges))",
    "forall(Node, Node, lambda a, b: implies((a, b) in self._graph.inh, ((a, b) in old(self)._graph.inh) or hlinked(old(self)._graph, old(self)._level_limit, %XS%, %K%, a, b)))",
    "forall(Node, Node, lambda a, b: implies(((a, b) in old(self)._graph.inh) or hlinked(old(self)._graph, old(self)._level_limit, %XS%, %K%, a, b), (a, b) in self._graph.inh))",
]
# consequences in a form that does not mention positions in parent_modules + [child] (what callers that know the parents only as a set can use)
REG.macro("is_parent_at", ["lim", "ps", "x"], "exists(Int, lambda j: 0 <= j and j < len(ps) and x == flat(lim, seq_at(ps, j)))")
REG.macro("aeh_pair", ["lim", "ps", "c", "a", "b"], "a != b and is_parent_at(lim, ps, a) and (b == flat(lim, c) or is_parent_at(lim, ps, b))")
_AEH_WEAK = [
    "forall(Node, lambda x: implies(x in self._graph.nodes, (x in old(self)._graph.nodes) or is_parent_at(old(self)._level_limit, parent_modules, x)))",
    "forall(Node, lambda x: implies((x in old(self)._graph.nodes) or is_parent_at(old(self)._level_limit, parent_modules, x), x in self._graph.nodes))",
    "forall(Node, Node, lambda a, b: implies((a, b) in old(self)._graph.edges, (a, b) in self._graph.edges))",
    "forall(Node, Node, lambda a, b: implies((a, b) in old(self)._graph.inh, (a, b) in self._graph.inh))",
    # a new edge / a newly inheriting edge joins two names of the chain, both nodes afterwards; every new edge is a hierarchy edge
    "forall(Node, Node, lambda a, b: implies(((a, b) in self._graph.edges) and not ((a, b) in old(self)._graph.edges), aeh_pair(old(self)._level_limit, parent_modules, old(child), a, b) and (b in self._graph.nodes)))",
    "forall(Node, Node, lambda a, b: implies(((a, b) in self._graph.inh) and not ((a, b) in old(self)._graph.inh), aeh_pair(old(self)._level_limit, parent_modules, old(child), a, b) and ((a, b) in self._graph.edges)))",
    "forall(Node, Node, lambda a, b: implies(((a, b) in self._graph.edges) and not ((a, b) in old(self)._graph.edges), (a, b) in self._graph.inh))",
    # the child is linked to the LAST parent whenever the child is a node already
    "implies(len(parent_modules) > 0 and (flat(old(self)._level_limit, old(child)) in old(self)._graph.nodes) and "
    "flat(old(self)._level_limit, seq_at(parent_modules, len(parent_modules) - 1)) != flat(old(self)._level_limit, old(child)), "
    "((flat(old(self)._level_limit, seq_at(parent_modules, len(parent_modules) - 1)), flat(old(self)._level_limit, old(child))) in self._graph.edges) and "
    "((flat(old(self)._level_limit, seq_at(parent_modules, len(parent_modules) - 1)), flat(old(self)._level_limit, old(child))) in self._graph.inh))",
]
REG.add(Contract(f"{NG}._add_edges_within_module_hierarchy", module=M_NX, kind="method",
                 params=dict(self=NG, parent_modules="Seq[Node]", child="Node"), returns="None", modifies=["self"],
                 ensures=[e.replace("%K%", "len(parent_modules)").replace("%XS%", _XS) for e in _AEH_STATE] + _AEH_WEAK,
                 locals=dict(all_modules="Seq[Node]"),
                 ghost_asserts=["forall(Int, lambda j: implies(0 <= j and j < len(parent_modules), seq_at(all_modules, j) == seq_at(parent_modules, j)))"],
                 loops={0: dict(sig="for (parent, child) in zip(all_modules[:-1], all_modules[1:])",
                                invariant=[e.replace("%K%", "idx").replace("%XS%", "all_modules") for e in _AEH_STATE])},
                 properties=["C02", "C04", "C09", "C13"]))

# ---------------------------------------------------------------- _add_all_modules_as_nodes (default view)
# get_parent_modules is known here by its proved Bag contract (element set = strict dotted ancestors); the ORDER of that list is not (a Seq-valued
# contract of the character loop is beyond both solvers, see notes/ctr-graph.md), so the parents reach _add_edges_within_module_hierarchy as SOME
# sequence with these elements and the edge claims below do not say WHICH adjacent pairs are linked.
# In the default view (names opaque) the dotted-ancestor relation is the uninterpreted name_anc; get_parent_modules is used through a twin of its
# string-view contract with literally the same text over Node / name_anc (verified in the string view, where Node is String and name_anc(a, b) is
# b.startswith(a + '.')) -- the same two-view arrangement as for the 'anything' de-duplication (c_rule_builder.py).
M_TY = "pytestarch.eval_structure.types"
REG.contracts["get_parent_modules"].alt = REG.add(Contract(
    "get_parent_modules@node", module=M_TY, qualname="get_parent_modules", view="string", params=dict(module="Node"), returns="Bag[Node]",
    ensures=["forall(Node, lambda p: (p in result) == name_anc(p, module))"],
    locals=dict(parent_modules="Bag[Node]", parent="Str"),
    loops={0: dict(sig="for char in module", invariant=[
        "parent == module[0:idx]",
        "forall(Node, lambda p: (p in parent_modules) == (name_anc(p, module) and len(p) < idx))"])},
    note="twin of 'get_parent_modules' for callers that keep names opaque", properties=["C02", "C04", "C09"]))
REG.macro("anc_or_self", ["p", "m"], "p == m or name_anc(p, m)")
# chain_node(lim, M, x): x is the flattened name of a module of M or of one of its dotted ancestors
REG.macro("chain_node", ["lim", "M", "x"], "exists(Node, Node, lambda m, p: (m in M) and anc_or_self(p, m) and x == flat(lim, p))")
# chain_pair(lim, M, a, b): a != b are the flattened names of a strict dotted ancestor u and of an ancestor-or-self v of ONE module of M
REG.macro("chain_pair", ["lim", "M", "a", "b"],
          "a != b and exists(Node, lambda m: (m in M) and exists(Node, lambda u: name_anc(u, m) and a == flat(lim, u)) and exists(Node, lambda v: anc_or_self(v, m) and b == flat(lim, v)))")
_AAM = [
    "self._level_limit == old(self)._level_limit", "self._all_modules == old(self)._all_modules",
    "forall(Node, lambda x: implies(x in self._graph.nodes, (x in old(self)._graph.nodes) or chain_node(old(self)._level_limit, %M%, x)))",
    "forall(Node, lambda x: implies((x in old(self)._graph.nodes) or chain_node(old(self)._level_limit, %M%, x), x in self._graph.nodes))",
    "forall(Node, Node, lambda a, b: implies((a, b) in old(self)._graph.edges, (a, b) in self._graph.edges))",
    "forall(Node, Node, lambda a, b: implies((a, b) in old(self)._graph.inh, (a, b) in self._graph.inh))",
    "forall(Node, Node, lambda a, b: implies(((a, b) in self._graph.edges) and not ((a, b) in old(self)._graph.edges), chain_pair(old(self)._level_limit, %M%, a, b)))",
    "forall(Node, Node, lambda a, b: implies(((a, b) in self._graph.edges) and not ((a, b) in old(self)._graph.edges), (a in self._graph.nodes) and (b in self._graph.nodes)))",
    "forall(Node, Node, lambda a, b: implies(((a, b) in self._graph.inh) and not ((a, b) in old(self)._graph.inh), chain_pair(old(self)._level_limit, %M%, a, b) and ((a, b) in self._graph.edges)))",
    "forall(Node, Node, lambda a, b: implies(((a, b) in self._graph.edges) and not ((a, b) in old(self)._graph.edges), (a, b) in self._graph.inh))",
]
REG.add(Contract(f"{NG}._add_all_modules_as_nodes", module=M_NX, kind="method", params=dict(self=NG), returns="None", modifies=["self"],
                 ensures=[e.replace("%M%", "old(self)._all_modules") for e in _AAM],
                 loops={0: dict(sig="for module in self._all_modules", invariant=[e.replace("%M%", "seen") for e in _AAM])},
                 properties=["C02", "C04", "C09", "C13"]))
