"""Contracts: graph construction -- NetworkxGraph.__init__ / _initialise / _add_all_modules_as_nodes / _add_edges_within_module_hierarchy
(C02, C04, C09, C13) over the assumed networkx.DiGraph model of c_networkx.py (d.nodes, d.edges, d.inh; flat(limit, n) = _flatten_graph_node).

What the code does (and what the contracts say, nothing more):
* a NODE is created only by _create_node: for every element of all_modules and for every element of the parent list handed to
  _add_edges_within_module_hierarchy (the dotted ancestors of a module of all_modules, resp. of an IMPORTER). Nothing is ever created for an importee
  or for an importee's ancestors.
* an EDGE is created only by _create_edge, between two names that are nodes AT THAT MOMENT and differ after flattening. The edge set only grows.
  A hierarchy pair (p, c) is tried in list order, right after p was created and BEFORE c (the next parent) is: the pair is linked only if c is a node
  already. A later call with inherits != the stored attribute overwrites the attribute (one attribute per ordered pair)."""
from pyvc import vals
from .speclib import REG, Contract
from .c_networkx import NG, M_NX

# the object now also carries the two constructor arguments it stores (never changed after __init__)
vals.OBJ_LAYOUT[NG]["_all_modules"] = vals.parse_type("Bag[Node]")

# ---------------------------------------------------------------- _add_edges_within_module_hierarchy (default view: names are opaque)
# xs = parent_modules + [child]; hnode(lim, xs, k, x): x is the flattened name of one of the first k elements
REG.macro("hnode", ["lim", "xs", "k", "x"], "exists(Int, lambda j: 0 <= j and j < k and x == flat(lim, seq_at(xs, j)))")
# hhit(g0, lim, ps, xs, i, a, b): step i links (a, b): a, b are the flattened names of elements i, i+1, they differ, and b is a node at that moment:
# a node of the graph at entry or one of the parents -- ALL parents are created before the first pair is linked (fix 20: before it, the pair
# (parent i, parent i+1) was tried before parent i+1 existed, so a single deep module stayed unlinked from its grand-parents)
REG.macro("hhit", ["g0", "lim", "ps", "xs", "i", "a", "b"],
          "a == flat(lim, seq_at(xs, i)) and b == flat(lim, seq_at(xs, i + 1)) and a != b and ((b in g0.nodes) or hnode(lim, ps, len(ps), b))")
REG.macro("hlinked", ["g0", "lim", "ps", "xs", "k", "a", "b"], "exists(Int, lambda i: 0 <= i and i < k and hhit(g0, lim, ps, xs, i, a, b))")
_XS = "(parent_modules + [old(child)])"
_AEH_STATE = [
    "self._level_limit == old(self)._level_limit", "self._all_modules == old(self)._all_modules", "self._imports == old(self)._imports",
    # nodes: exactly the old ones and the flattened parents (NOT the child)
    "forall(Node, lambda x: implies(x in self._graph.nodes, (x in old(self)._graph.nodes) or hnode(old(self)._level_limit, parent_modules, %KN%, x)))",
    "forall(Node, lambda x: implies((x in old(self)._graph.nodes) or hnode(old(self)._level_limit, parent_modules, %KN%, x), x in self._graph.nodes))",
    # edges: exactly the old ones and the pairs linked by some step; all of them are hierarchy edges afterwards (an import edge on such a pair is overwritten)
    "forall(Node, Node, lambda a, b: implies((a, b) in self._graph.edges, ((a, b) in old(self)._graph.edges) or hlinked(old(self)._graph, old(self)._level_limit, parent_modules, %XS%, %K%, a, b)))",
    "forall(Node, Node, lambda a, b: implies(((a, b) in old(self)._graph.edges) or hlinked(old(self)._graph, old(self)._level_limit, parent_modules, %XS%, %K%, a, b), (a, b) in self._graph.edges))",
    "forall(Node, Node, lambda a, b: implies((a, b) in self._graph.inh, ((a, b) in old(self)._graph.inh) or hlinked(old(self)._graph, old(self)._level_limit, parent_modules, %XS%, %K%, a, b)))",
    "forall(Node, Node, lambda a, b: implies(((a, b) in old(self)._graph.inh) or hlinked(old(self)._graph, old(self)._level_limit, parent_modules, %XS%, %K%, a, b), (a, b) in self._graph.inh))",
]
# consequences in a form that does not mention positions in parent_modules + [child] (what callers that know the parents only as a set can use)
REG.macro("is_parent_at", ["lim", "ps", "x"], "exists(Int, lambda j: 0 <= j and j < len(ps) and x == flat(lim, seq_at(ps, j)))")
REG.macro("aeh_pair", ["lim", "ps", "c", "a", "b"], "a != b and is_parent_at(lim, ps, a) and (b == flat(lim, c) or is_parent_at(lim, ps, b))")
_AEH_WEAK = [
    "forall(Node, lambda x: implies(x in self._graph.nodes, (x in old(self)._graph.nodes) or is_parent_at(old(self)._level_limit, parent_modules, x)))",
    "forall(Node, lambda x: implies((x in old(self)._graph.nodes) or is_parent_at(old(self)._level_limit, parent_modules, x), x in self._graph.nodes))",
    "forall(Node, Node, lambda a, b: implies((a, b) in old(self)._graph.edges, (a, b) in self._graph.edges))",
    "forall(Node, Node, lambda a, b: implies((a, b) in old(self)._graph.inh, (a, b) in self._graph.inh))",
    # a new edge / a newly inheriting edge joins two names of the chain, both nodes afterwards; every new edge is a hierarchy edge
    "forall(Node, Node, lambda a, b: implies(((a, b) in self._graph.edges) and not ((a, b) in old(self)._graph.edges), aeh_pair(old(self)._level_limit, parent_modules, old(child), a, b) and (b in self._graph.nodes)))",
    "forall(Node, Node, lambda a, b: implies(((a, b) in self._graph.inh) and not ((a, b) in old(self)._graph.inh), aeh_pair(old(self)._level_limit, parent_modules, old(child), a, b) and ((a, b) in self._graph.edges)))",
    "forall(Node, Node, lambda a, b: implies(((a, b) in self._graph.edges) and not ((a, b) in old(self)._graph.edges), (a, b) in self._graph.inh))",
    # when the parents are dotted ancestors of the child (both call sites), a new (inheriting) edge joins the flattened names of an ancestor and of an ancestor-or-self of the child
    # (stated in prenex form -- "... or some parent is not an ancestor of the child" -- so that a caller needs no quantified antecedent)
    "forall(Node, Node, lambda a, b: implies(((a, b) in self._graph.edges) and not ((a, b) in old(self)._graph.edges), "
    "(a != b and hier_pair(old(self)._level_limit, old(child), a, b)) or exists(Int, lambda j: 0 <= j and j < len(parent_modules) and not name_anc(seq_at(parent_modules, j), old(child)))))",
    "forall(Node, Node, lambda a, b: implies(((a, b) in self._graph.inh) and not ((a, b) in old(self)._graph.inh), "
    "(a != b and hier_pair(old(self)._level_limit, old(child), a, b)) or exists(Int, lambda j: 0 <= j and j < len(parent_modules) and not name_anc(seq_at(parent_modules, j), old(child)))))",
    # the child is linked to the LAST parent whenever the child is a node already
    "implies(len(parent_modules) > 0 and (flat(old(self)._level_limit, old(child)) in old(self)._graph.nodes) and "
    "flat(old(self)._level_limit, seq_at(parent_modules, len(parent_modules) - 1)) != flat(old(self)._level_limit, old(child)), "
    "((flat(old(self)._level_limit, seq_at(parent_modules, len(parent_modules) - 1)), flat(old(self)._level_limit, old(child))) in self._graph.edges) and "
    "((flat(old(self)._level_limit, seq_at(parent_modules, len(parent_modules) - 1)), flat(old(self)._level_limit, old(child))) in self._graph.inh))",
]
# fix 20 (F04a): consecutive parents are always linked (both are nodes by then), whatever the graph contained before. A defined predicate: the callers keep it
# opaque (they cannot use it -- the order of the parent list is not known to them -- and the quantifier over positions slowed their proofs down 10x)
REG.define("aeh_lower", dict(lim="Opt[Int]", ps="Seq[Node]", g="DiGraph"),
           "forall(Int, lambda j: implies(0 <= j and j + 1 < len(ps) and flat(lim, seq_at(ps, j)) != flat(lim, seq_at(ps, j + 1)), "
           "((flat(lim, seq_at(ps, j)), flat(lim, seq_at(ps, j + 1))) in g.edges) and ((flat(lim, seq_at(ps, j)), flat(lim, seq_at(ps, j + 1))) in g.inh)))")
_AEH_LOWER = ["aeh_lower(old(self)._level_limit, parent_modules, self._graph)"]
_AEH_NODES_ONLY = [
    "self._level_limit == old(self)._level_limit", "self._all_modules == old(self)._all_modules", "self._imports == old(self)._imports",
    "forall(Node, lambda x: implies(x in self._graph.nodes, (x in old(self)._graph.nodes) or hnode(old(self)._level_limit, parent_modules, idx, x)))",
    "forall(Node, lambda x: implies((x in old(self)._graph.nodes) or hnode(old(self)._level_limit, parent_modules, idx, x), x in self._graph.nodes))",
    "self._graph.edges == old(self)._graph.edges", "self._graph.inh == old(self)._graph.inh",
]
REG.add(Contract(f"{NG}._add_edges_within_module_hierarchy", module=M_NX, kind="method",
                 params=dict(self=NG, parent_modules="Seq[Node]", child="Node"), returns="None", modifies=["self"],
                 ensures=[e.replace("%KN%", "len(parent_modules)").replace("%K%", "len(parent_modules)").replace("%XS%", _XS) for e in _AEH_STATE] + _AEH_WEAK + _AEH_LOWER,
                 locals=dict(all_modules="Seq[Node]"),
                 ghost_asserts=["forall(Int, lambda j: implies(0 <= j and j < len(parent_modules), seq_at(all_modules, j) == seq_at(parent_modules, j)))"],
                 loops={0: dict(sig="for parent in parent_modules", ordered=True, invariant=_AEH_NODES_ONLY),
                        1: dict(sig="for (parent, child) in zip(all_modules[:-1], all_modules[1:])",
                                invariant=[e.replace("%KN%", "len(parent_modules)").replace("%K%", "idx").replace("%XS%", "all_modules") for e in _AEH_STATE])},
                 properties=["C02", "C04", "C09", "C13", "C15"]))

# ---------------------------------------------------------------- _add_all_modules_as_nodes (default view)
# get_parent_modules is known here by its proved Bag contract (element set = strict dotted ancestors); the ORDER of that list is not (a Seq-valued
# contract of the character loop is beyond both solvers, see notes/ctr-graph.md), so the parents reach _add_edges_within_module_hierarchy as SOME
# sequence with these elements and the edge claims below do not say WHICH adjacent pairs are linked.
# In the default view (names opaque) the dotted-ancestor relation is the uninterpreted name_anc; get_parent_modules is used through a twin of its
# string-view contract with literally the same text over Node / name_anc (verified in the string view, where Node is String and name_anc(a, b) is
# b.startswith(a + '.')) -- the same two-view arrangement as for the 'anything' de-duplication (c_rule_builder.py).
M_TY = "pytestarch.eval_structure.types"
REG.contracts["get_parent_modules"].alt = REG.add(Contract(
    "get_parent_modules@node", module=M_TY, qualname="get_parent_modules", view="string", params=dict(module="Node"), returns="Bag[Node]",
    ensures=["forall(Node, lambda p: (p in result) == name_anc(p, module))"],
    locals=dict(parent_modules="Bag[Node]", parent="Str"),
    loops={0: dict(sig="for char in module", invariant=[
        "parent == module[0:idx]",
        "forall(Node, lambda p: (p in parent_modules) == (name_anc(p, module) and len(p) < idx))"])},
    note="twin of 'get_parent_modules' for callers that keep names opaque", properties=["C02", "C04", "C09"]))
REG.macro("anc_or_self", ["p", "m"], "p == m or name_anc(p, m)")
# chain_node(lim, M, x): x is the flattened name of a module of M or of one of its dotted ancestors
REG.macro("chain_node", ["lim", "M", "x"], "exists(Node, Node, lambda m, p: (m in M) and anc_or_self(p, m) and x == flat(lim, p))")
# chain_pair(lim, M, a, b): a != b are the flattened names of a strict dotted ancestor u and of an ancestor-or-self v of ONE module of M
REG.macro("hier_pair", ["lim", "m", "a", "b"],
          "exists(Node, lambda u: name_anc(u, m) and a == flat(lim, u)) and exists(Node, lambda v: anc_or_self(v, m) and b == flat(lim, v))")
REG.macro("chain_pair", ["lim", "M", "a", "b"], "a != b and exists(Node, lambda m: (m in M) and hier_pair(lim, m, a, b))")
_AAM = [
    "self._level_limit == old(self)._level_limit", "self._all_modules == old(self)._all_modules", "self._imports == old(self)._imports",
    "forall(Node, lambda x: implies(x in self._graph.nodes, (x in old(self)._graph.nodes) or chain_node(old(self)._level_limit, %M%, x)))",
    "forall(Node, lambda x: implies((x in old(self)._graph.nodes) or chain_node(old(self)._level_limit, %M%, x), x in self._graph.nodes))",
    "forall(Node, Node, lambda a, b: implies((a, b) in old(self)._graph.edges, (a, b) in self._graph.edges))",
    "forall(Node, Node, lambda a, b: implies((a, b) in old(self)._graph.inh, (a, b) in self._graph.inh))",
    "forall(Node, Node, lambda a, b: implies(((a, b) in self._graph.edges) and not ((a, b) in old(self)._graph.edges), chain_pair(old(self)._level_limit, %M%, a, b)))",
    "forall(Node, Node, lambda a, b: implies(((a, b) in self._graph.edges) and not ((a, b) in old(self)._graph.edges), (a in self._graph.nodes) and (b in self._graph.nodes)))",
    "forall(Node, Node, lambda a, b: implies(((a, b) in self._graph.inh) and not ((a, b) in old(self)._graph.inh), chain_pair(old(self)._level_limit, %M%, a, b)))",
    "forall(Node, Node, lambda a, b: implies(((a, b) in self._graph.inh) and not ((a, b) in old(self)._graph.inh), (a, b) in self._graph.edges))",
    "forall(Node, Node, lambda a, b: implies(((a, b) in self._graph.edges) and not ((a, b) in old(self)._graph.edges), (a, b) in self._graph.inh))",
]
REG.add(Contract(f"{NG}._add_all_modules_as_nodes", module=M_NX, kind="method", params=dict(self=NG), returns="None", modifies=["self"], opaque=["aeh_lower"],
                 ensures=[e.replace("%M%", "old(self)._all_modules") for e in _AAM],
                 loops={0: dict(sig="for module in self._all_modules", invariant=[e.replace("%M%", "seen") for e in _AAM])},
                 properties=["C02", "C04", "C09", "C13", "C15"]))

# ---------------------------------------------------------------- _initialise (default view)
# Import records with opaque names: the interface of eval_structure.types.Import as far as the constructor uses it (abstract; implemented by
# AbsoluteImport / RelativeImport, see below). The parent lists are SEQUENCES whose elements are the strict dotted ancestors (order not specified).
import z3
from pyvc.vals import V, Node
IMPN = vals.opaque_sort("ImportN")
_f_er, _f_ee = z3.Function("impn_importer", IMPN, Node), z3.Function("impn_importee", IMPN, Node)
REG.specfuns["impn_importer"] = lambda eng, st, i: vals.from_term(vals.parse_type("Node"), _f_er(i.x))
REG.specfuns["impn_importee"] = lambda eng, st, i: vals.from_term(vals.parse_type("Node"), _f_ee(i.x))
_IN = dict(self="Opaque[ImportN]")
REG.add(Contract("ImportN.importer", status="abstract", kind="method", params=_IN, returns="Node", defn="impn_importer(self)"))
REG.add(Contract("ImportN.importee", status="abstract", kind="method", params=_IN, returns="Node", defn="impn_importee(self)"))
for _m, _f in (("importer_parent_modules", "impn_importer"), ("importee_parent_modules", "impn_importee")):
    REG.add(Contract(f"ImportN.{_m}", status="abstract", kind="method", params=_IN, returns="Seq[Node]",
                     ensures=[f"forall(Int, lambda j: implies(0 <= j and j < len(result), name_anc(seq_at(result, j), {_f}(self))))",
                              f"forall(Node, lambda p: implies(name_anc(p, {_f}(self)), seq_contains(result, p)))"],
                     note="the stored get_parent_modules(...) list: its elements are the strict dotted ancestors"))
vals.OBJ_LAYOUT[NG]["_imports"] = vals.parse_type("Bag[Opaque[ImportN]]")

# a hierarchy pair comes from the chain of a module of all_modules, of an importer or of an importee
REG.macro("init_hpair", ["lim", "all", "I", "a", "b"],
          "a != b and (exists(Node, lambda m: (m in all) and hier_pair(lim, m, a, b)) or "
          "exists(Opaque[ImportN], lambda i: (i in I) and (hier_pair(lim, impn_importer(i), a, b) or hier_pair(lim, impn_importee(i), a, b))))")
REG.macro("init_ipair", ["lim", "I", "a", "b"], "a != b and exists(Opaque[ImportN], lambda i: (i in I) and a == flat(lim, impn_importer(i)) and b == flat(lim, impn_importee(i)))")
# nodes: modules and their dotted ancestors, and the dotted ancestors of IMPORTERS -- never an importee, never an importee's ancestor
REG.macro("init_node", ["lim", "all", "I", "x"],
          "chain_node(lim, all, x) or exists(Opaque[ImportN], lambda i: (i in I) and exists(Node, lambda p: name_anc(p, impn_importer(i)) and x == flat(lim, p)))")
_L, _ALL, _IMPS = "old(self)._level_limit", "old(self)._all_modules", "old(self)._imports"
_FRAME = ["self._level_limit == old(self)._level_limit", "self._all_modules == old(self)._all_modules", "self._imports == old(self)._imports"]
# upper bounds ("only those"); they hold after every single step of the construction, so both loops carry them
_UPPER = [
    "forall(Node, Node, lambda a, b: implies((a, b) in old(self)._graph.edges, (a, b) in self._graph.edges))",
    # a new edge is a hierarchy pair of a module / importer / importee chain or the pair of an import; its endpoints are nodes
    f"forall(Node, Node, lambda a, b: implies(((a, b) in self._graph.edges) and not ((a, b) in old(self)._graph.edges), init_hpair({_L}, {_ALL}, {_IMPS}, a, b) or init_ipair({_L}, {_IMPS}, a, b)))",
    "forall(Node, Node, lambda a, b: implies(((a, b) in self._graph.edges) and not ((a, b) in old(self)._graph.edges), (a in self._graph.nodes) and (b in self._graph.nodes)))",
    # an edge that newly carries inherits=True is a hierarchy pair; an edge that (newly) carries inherits=False is the pair of an import
    f"forall(Node, Node, lambda a, b: implies(((a, b) in self._graph.inh) and not ((a, b) in old(self)._graph.inh), init_hpair({_L}, {_ALL}, {_IMPS}, a, b)))",
    "forall(Node, Node, lambda a, b: implies(((a, b) in self._graph.inh) and not ((a, b) in old(self)._graph.inh), (a, b) in self._graph.edges))",
    f"forall(Node, Node, lambda a, b: implies(((a, b) in self._graph.edges) and (not ((a, b) in self._graph.inh)) and ((not ((a, b) in old(self)._graph.edges)) or ((a, b) in old(self)._graph.inh)), init_ipair({_L}, {_IMPS}, a, b)))",
]
# exact node set and the lower bound for import edges (these speak about the imports processed so far)
_EXACT = [
    f"forall(Node, lambda x: implies(x in self._graph.nodes, (x in old(self)._graph.nodes) or init_node({_L}, {_ALL}, %I%, x)))",
    f"forall(Node, lambda x: implies((x in old(self)._graph.nodes) or init_node({_L}, {_ALL}, %I%, x), x in self._graph.nodes))",
    # every import whose two flattened endpoints are modules / ancestors of modules (or nodes before) and differ IS an edge
    f"forall(Opaque[ImportN], lambda i: implies((i in %I%) and flat({_L}, impn_importer(i)) != flat({_L}, impn_importee(i)) and "
    f"((flat({_L}, impn_importer(i)) in old(self)._graph.nodes) or chain_node({_L}, {_ALL}, flat({_L}, impn_importer(i)))) and "
    f"((flat({_L}, impn_importee(i)) in old(self)._graph.nodes) or chain_node({_L}, {_ALL}, flat({_L}, impn_importee(i)))), "
    f"(flat({_L}, impn_importer(i)), flat({_L}, impn_importee(i))) in self._graph.edges))",
]
_INNER = _FRAME + _UPPER + [
    "self._graph.nodes == pre(self)._graph.nodes",
    "forall(Node, Node, lambda a, b: implies((a, b) in pre(self)._graph.edges, (a, b) in self._graph.edges))",
]
REG.add(Contract(f"{NG}._initialise", module=M_NX, kind="method", params=dict(self=NG), returns="None", modifies=["self"], opaque=["aeh_lower"],
                 ensures=_FRAME + _UPPER + [e.replace("%I%", _IMPS) for e in _EXACT],
                 locals=dict(all_importee_modules="Seq[Node]"),
                 # proof hints (obligations themselves): the upper bounds hold again right after the import edge was tried
                 ghost_at={"self._add_edges_within_module_hierarchy(": [_UPPER[1], _UPPER[3], _UPPER[4], _UPPER[5]]},
                 loops={0: dict(sig="for imp in self._imports", invariant=_FRAME + _UPPER + [e.replace("%I%", "seen") for e in _EXACT]),
                        1: dict(sig="for (parent, child) in zip(all_importee_modules[:-1], all_importee_modules[1:])", invariant=_INNER)},
                 properties=["C02", "C04", "C09", "C13", "C15"]))

# ---------------------------------------------------------------- __init__: the graph of a freshly constructed NetworkxGraph
REG.add(Contract("networkx.DiGraph", status="assumed", params=dict(), returns="DiGraph",
                 ensures=["forall(Node, lambda x: not (x in result.nodes))", "forall(Node, Node, lambda a, b: not ((a, b) in result.edges))",
                          "forall(Node, Node, lambda a, b: not ((a, b) in result.inh))"],
                 note="networkx: DiGraph() is the empty graph"))
REG.add(Contract("networkx.freeze", status="assumed", params=dict(G="DiGraph"), returns="DiGraph", defn="G",
                 note="networkx: freeze(G) blocks later mutation and returns G; nodes, edges and attributes are untouched"))
_G = "self._graph"
REG.add(Contract(f"{NG}.__init__", module=M_NX, kind="method",
                 params=dict(self=NG, all_modules="Bag[Node]", imports="Bag[Opaque[ImportN]]", level_limit="Opt[Int]"), defaults=dict(level_limit="None"),
                 returns="None", modifies=["self"],
                 ensures=[
                     "self._all_modules == all_modules", "self._imports == imports", "self._level_limit == level_limit",
                     # C04 / C09 / C02 / C13 (a): the nodes are EXACTLY the flattened names of the modules, of their dotted ancestors and of the dotted ancestors of
                     # importers; (b) nothing else -- in particular an importee that is not a module (nor such an ancestor) is not a node
                     f"forall(Node, lambda x: ((x in {_G}.nodes) == init_node(level_limit, all_modules, imports, x)))",
                     # "only those": every edge joins two nodes and is a hierarchy pair or the pair of an import; inherits=True only on hierarchy pairs;
                     # an edge with inherits=False (what the queries treat as an import) is the flattened pair of an import statement's record
                     f"forall(Node, Node, lambda a, b: implies((a, b) in {_G}.edges, (a in {_G}.nodes) and (b in {_G}.nodes) and (init_hpair(level_limit, all_modules, imports, a, b) or init_ipair(level_limit, imports, a, b))))",
                     f"forall(Node, Node, lambda a, b: implies((a, b) in {_G}.inh, ((a, b) in {_G}.edges) and init_hpair(level_limit, all_modules, imports, a, b)))",
                     f"forall(Node, Node, lambda a, b: implies(((a, b) in {_G}.edges) and not ((a, b) in {_G}.inh), init_ipair(level_limit, imports, a, b)))",
                     # every import between two (flattened) modules / module ancestors that differ is an edge of the graph
                     "forall(Opaque[ImportN], lambda i: implies((i in imports) and flat(level_limit, impn_importer(i)) != flat(level_limit, impn_importee(i)) and "
                     "chain_node(level_limit, all_modules, flat(level_limit, impn_importer(i))) and chain_node(level_limit, all_modules, flat(level_limit, impn_importee(i))), "
                     f"(flat(level_limit, impn_importer(i)), flat(level_limit, impn_importee(i))) in {_G}.edges))"],
                 properties=["C02", "C04", "C09", "C13", "C15"]))

# ---------------------------------------------------------------- the Import classes themselves (string view): eval_structure/types.py, file_import/import_types.py
# The REAL classes as mutable records. What the record interfaces 'Import.*' (c_filters.py, over the Imp datatype) and 'ImportN.*' (above) state abstractly is
# proved here on the code: importer() / importee() return the stored names, the two parent lists are get_parent_modules of the importer / of the importee
# (for a relative import: of the RESOLVED importee, fix F10b).
M_IT2 = "pytestarch.eval_structure_generation.file_import.import_types"
vals.declare_obj("ImportObj", dict(_importer="Str", _importer_module_hierarchy="Bag[Str]"))
vals.declare_obj("AbsImportObj", dict(_importer="Str", _importer_module_hierarchy="Bag[Str]", _module_name="Str", _importee_module_hierarchy="Bag[Str]"))
vals.declare_obj("RelImportObj", dict(_importer="Str", _importer_module_hierarchy="Seq[Str]", _module_name="Str", _level="Int", _importee="Str",
                                      _importee_module_hierarchy="Bag[Str]"))
REG.class_bases["AbsoluteImport"] = ["Import"]
REG.class_bases["RelativeImport"] = ["Import"]
# Import.__init__ is executed (inlined) inside the constructors of the subclasses: super().__init__(importer)
REG.add(Contract("Import.__init__", module=M_TY, kind="method", inline=True, params=dict(self="Any", importer="Str"), view="string", properties=["C02"]))
REG.add(Contract("Import.importer@obj", module=M_TY, qualname="Import.importer", kind="method", view="string", params=dict(self="ImportObj"), returns="Str",
                 defn="self._importer", properties=["C02", "C04"]))
REG.add(Contract("Import.importer_parent_modules@obj", module=M_TY, qualname="Import.importer_parent_modules", kind="method", view="string",
                 params=dict(self="ImportObj"), returns="Bag[Str]", defn="self._importer_module_hierarchy", properties=["C02", "C04"]))
REG.add(Contract("AbsoluteImport.__init__", module=M_IT2, kind="method", view="string", params=dict(self="AbsImportObj", importer="Str", module_name="Str"),
                 returns="None", modifies=["self"],
                 ensures=["self._importer == importer", "self._module_name == module_name",
                          "forall(Str, lambda p: (p in self._importer_module_hierarchy) == str_anc(p, importer))",
                          "forall(Str, lambda p: (p in self._importee_module_hierarchy) == str_anc(p, module_name))"],
                 properties=["C02", "C04"]))
REG.add(Contract("AbsoluteImport.importee", module=M_IT2, kind="method", view="string", params=dict(self="AbsImportObj"), returns="Str",
                 defn="self._module_name", properties=["C02", "C04"]))
REG.add(Contract("AbsoluteImport.importee_parent_modules", module=M_IT2, kind="method", view="string", params=dict(self="AbsImportObj"), returns="Bag[Str]",
                 defn="self._importee_module_hierarchy", properties=["C02", "C04"]))
REG.add(Contract("RelativeImport.importee", module=M_IT2, kind="method", view="string", params=dict(self="RelImportObj"), returns="Str",
                 defn="self._importee", properties=["C02"]))
REG.add(Contract("RelativeImport.importee_parent_modules", module=M_IT2, kind="method", view="string", params=dict(self="RelImportObj"), returns="Bag[Str]",
                 defn="self._importee_module_hierarchy", properties=["C02"]))
# the importee of a relative import: the element `level` places from the END of the importer's parent list, '.', the module text. (That this element is the
# dotted ancestor `level` steps up needs the ORDER of get_parent_modules' list, which is not proved -- see notes/ctr-graph.md.)
REG.add(Contract("RelativeImport._calculate_importee", module=M_IT2, kind="method", view="string", params=dict(self="RelImportObj"), returns="Str",
                 requires=["self._level >= 1"],
                 raises=[("IndexError", "self._level > len(self._importer_module_hierarchy)")],
                 ensures=["result == seq_at(self._importer_module_hierarchy, len(self._importer_module_hierarchy) - self._level) + '.' + self._module_name"],
                 note="requires: relative imports have level >= 1 (ast.ImportFrom.level; the converter creates RelativeImport only for level != 0)",
                 properties=["C02"]))
