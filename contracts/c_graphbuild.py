"""Contracts: graph construction -- NetworkxGraph.__init__ / _initialise / _add_all_modules_as_nodes / _add_edges_within_module_hierarchy
(C02, C04, C09, C13) over the assumed networkx.DiGraph model of c_networkx.py (d.nodes, d.edges, d.inh; flat(limit, n) = _flatten_graph_node).

What the code does (and what the contracts say, nothing more):
* a NODE is created only by _create_node: for every element of all_modules and for every element of the parent list handed to
  _add_edges_within_module_hierarchy (the dotted ancestors of a module of all_modules, resp. of an IMPORTER). Nothing is ever created for an importee
  or for an importee's ancestors.
* an EDGE is created only by _create_edge, between two names that are nodes AT THAT MOMENT and differ after flattening. The edge set only grows.
  A hierarchy pair (p, c) is tried in list order, right after p was created and BEFORE c (the next parent) is: the pair is linked only if c is a node
  already. A later call with inherits != the stored attribute overwrites the attribute (one attribute per ordered pair)."""
from pyvc import vals
from .speclib import REG, Contract
from .c_networkx import NG, M_NX

# the object now also carries the two constructor arguments it stores (never changed after __init__)
vals.OBJ_LAYOUT[NG]["_all_modules"] = vals.parse_type("Bag[Node]")

# ---------------------------------------------------------------- _add_edges_within_module_hierarchy (default view: names are opaque)
# xs = parent_modules + [child]; hnode(lim, xs, k, x): x is the flattened name of one of the first k elements
REG.macro("hnode", ["lim", "xs", "k", "x"], "exists(Int, lambda j: 0 <= j and j < k and x == flat(lim, seq_at(xs, j)))")
# hhit(g0, lim, xs, i, a, b): step i links (a, b): a, b are the flattened names of elements i, i+1, they differ, and b is a node at that moment
# (a node of the graph at entry, or one of the parents 0..i created so far)
REG.macro("hhit", ["g0", "lim", "xs", "i", "a", "b"],
          "a == flat(lim, seq_at(xs, i)) and b == flat(lim, seq_at(xs, i + 1)) and a != b and ((b in g0.nodes) or hnode(lim, xs, i + 1, b))")
REG.macro("hlinked", ["g0", "lim", "xs", "k", "a", "b"], "exists(Int, lambda i: 0 <= i and i < k and hhit(g0, lim, xs, i, a, b))")
_XS = "(parent_modules + [old(child)])"
_AEH_STATE = [
    "self._level_limit == old(self)._level_limit", "self._all_modules == old(self)._all_modules",
    # nodes: exactly the old ones and the flattened parents (NOT the child)
    "forall(Node, lambda x: implies(x in self._graph.nodes, (x in old(self)._graph.nodes) or hnode(old(self)._level_limit, %XS%, %K%, x)))",
    "forall(Node, lambda x: implies((x in old(self)._graph.nodes) or hnode(old(self)._level_limit, %XS%, %K%, x), x in self._graph.nodes))",
    # edges: exactly the old ones and the pairs linked by some step; all of them are hierarchy edges afterwards (an import edge on such a pair is overwritten)
    "forall(Node, Node, lambda a, b: implies((a, b) in self._graph.edges, ((a, b) in old(self)._graph.edges) or hlinked(old(self)._graph, old(self)._level_limit, %XS%, %K%, a, b)))",
    "forall(Node, Node, lambda a, b: implies(((a, b) in old(self)._graph.edges) or hlinked(old(self)._graph, old(self)._level_limit, %XS%, %K%, a, b), (a, b) in self._graph.edges))",
    "forall(Node, Node, lambda a, b: implies((a, b) in self._graph.inh, ((a, b) in old(self)._graph.inh) or hlinked(old(self)._graph, old(self)._level_limit, %XS%, %K%, a, b)))",
    "forall(Node, Node, lambda a, b: implies(((a, b) in old(self)._graph.inh) or hlinked(old(self)._graph, old(self)._level_limit, %XS%, %K%, a, b), (a, b) in self._graph.inh))",
]
REG.add(Contract(f"{NG}._add_edges_within_module_hierarchy", module=M_NX, kind="method",
                 params=dict(self=NG, parent_modules="Seq[Node]", child="Node"), returns="None", modifies=["self"],
                 ensures=[e.replace("%K%", "len(parent_modules)").replace("%XS%", _XS) for e in _AEH_STATE],
                 locals=dict(all_modules="Seq[Node]"),
                 loops={0: dict(sig="for (parent, child) in zip(all_modules[:-1], all_modules[1:])",
                                invariant=[e.replace("%K%", "idx").replace("%XS%", "all_modules") for e in _AEH_STATE])},
                 properties=["C02", "C04", "C09", "C13"]))
