"""Contracts (string view): eval_structure_generation/file_import/converter.py (C02, C04)."""
import z3
from pyvc import vals
from pyvc.vals import V, vbool, vint
from .speclib import REG, Contract
from .c_filters import IMP
from .c_parser import AST, NM

M_CV = "pytestarch.eval_structure_generation.file_import.converter"
M_IT = "pytestarch.eval_structure_generation.file_import.import_types"
S = z3.StringSort()
AL = vals.opaque_sort("Alias")
f_names = z3.Function("ast_names", AST, z3.ArraySort(AL, z3.BoolSort()))
f_alias_name = z3.Function("alias_name", AL, S)
f_level = z3.Function("ast_level", AST, z3.IntSort())
f_mod_none = z3.Function("ast_module_is_none", AST, z3.BoolSort())
f_mod = z3.Function("ast_module", AST, S)
f_stmt_child = z3.Function("ast_stmt_child", AST, AST, z3.BoolSort())
f_rel = z3.Function("rel_importee", S, S, z3.IntSort(), S)
REG.specfuns["ast_names"] = lambda eng, st, n: V(("bag", ("opaque", "Alias")), f_names(n.x))
REG.specfuns["alias_name"] = lambda eng, st, a: V(("str",), f_alias_name(a.x))
REG.specfuns["ast_level"] = lambda eng, st, n: vint(f_level(n.x))
REG.specfuns["ast_module"] = lambda eng, st, n: V(("opt", ("str",)), (f_mod_none(n.x), V(("str",), f_mod(n.x))))
REG.specfuns["ast_stmt_child"] = lambda eng, st, n, c: vbool(f_stmt_child(n.x, c.x))
REG.specfuns["rel_importee"] = lambda eng, st, importer, name, level: V(("str",), f_rel(importer.x, name.x, level.x))
REG.specfuns["mk_imp"] = lambda eng, st, a, b, c: V(("data", "Imp"), IMP["ctor"](a.x, b.x, c.x))
REG.specfuns["is_ast_import"] = lambda eng, st, n: vbool(z3.Function("ast_is_ast_Import", AST, z3.BoolSort())(n.x))
REG.specfuns["is_ast_importfrom"] = lambda eng, st, n: vbool(z3.Function("ast_is_ast_ImportFrom", AST, z3.BoolSort())(n.x))
REG.specfuns["is_stmt_like"] = lambda eng, st, n: vbool(z3.Or(*[z3.Function("ast_is_" + k, AST, z3.BoolSort())(n.x) for k in sorted(["ast_stmt", "ast_ExceptHandler", "ast_match_case"])]))

_A = dict(self="Opaque[Ast]")
REG.add(Contract("Ast.names", status="assumed", kind="property", params=_A, returns="Bag[Opaque[Alias]]", defn="ast_names(self)", note="ast.Import / ast.ImportFrom field"))
REG.add(Contract("Ast.module", status="assumed", kind="property", params=_A, returns="Opt[Str]", defn="ast_module(self)", note="ast.ImportFrom field"))
REG.add(Contract("Ast.level", status="assumed", kind="property", params=_A, returns="Int", defn="ast_level(self)", note="ast.ImportFrom field"))
REG.add(Contract("Alias.name", status="assumed", kind="property", params=dict(self="Opaque[Alias]"), returns="Str", defn="alias_name(self)"))
REG.add(Contract("ast.iter_child_nodes", status="assumed", params=dict(node="Opaque[Ast]"), returns="Bag[Opaque[Ast]]",
                 ensures=["forall(Opaque[Ast], lambda c: implies(is_stmt_like(c), (c in result) == ast_stmt_child(node, c)))"],
                 note="ast_stmt_child(n, c): c is a statement / except handler / match case directly nested in ANY field of n (body, orelse, finalbody, handlers, cases)"))
REG.add(Contract("NamedModule@data.module", status="assumed", kind="property", params=dict(self="NamedModule"), returns="Opaque[Ast]", defn="nm_ast(self)", note="dataclass field"))
REG.add(Contract("NamedModule@data.name", status="assumed", kind="property", params=dict(self="NamedModule"), returns="Str", defn="nm_name(self)", note="dataclass field"))
REG.method_family["NamedModule"] = "NamedModule@data"

# Import records
REG.ctors["AbsoluteImport"] = lambda reg, eng, st, args, kwargs, node: [(st, V(("data", "Imp"), IMP["ctor"](vals.coerce(args[0], ("str",)).x, vals.coerce(args[1], ("str",)).x, vals.coerce(args[1], ("str",)).x)))]
REG.add(Contract("RelativeImport", module=M_IT, status="assumed", params=dict(importer="Str", module_name="Opt[Str]", import_name="Opt[Str]", level="Int"), returns="Imp",
                 raises=[("ImportException", "is_none(module_name) and is_none(import_name)")],
                 defn="mk_imp(importer, rel_importee(importer, unwrap(module_name) if not is_none(module_name) else unwrap(import_name), level), rel_importee(importer, unwrap(module_name) if not is_none(module_name) else unwrap(import_name), level))",
                 note="RelativeImport.__init__: importee = <level-th ancestor package of the importer> + '.' + name (rel_importee; proved on RelativeImport._calculate_importee in c_graphbuild.py); the stored parent modules are the dotted ancestors of that RESOLVED importee (fix 9e15481)"))
REG.exc_bases["ImportException"] = ["Exception"]

vals.declare_obj("ImportConverter", dict())
IC = "ImportConverter"
REG.macro("adjusted", ["m", "prefix", "internal"], "(prefix + '.' + m) if ((prefix + '.' + m) in internal) else m")
REG.add(Contract(f"{IC}._adjust_with_root_prefix", module=M_CV, kind="classmethod", view="string",
                 params=dict(module_name="Str", absolute_import_prefix="Str", all_internal_modules="Set[Str]"), returns="Str",
                 # C04: an absolute import written relative to module_path's parent resolves like the fully qualified spelling when that names a scanned module
                 defn="adjusted(module_name, absolute_import_prefix, all_internal_modules)", properties=["C02", "C04"]))
# the import records one ast node contributes (property C02's table)
REG.macro("abs_target", ["base", "an", "internal"], "(base + '.' + an) if ((base + '.' + an) in internal) else base")
REG.macro("imp_conv_member", ["node", "name", "prefix", "internal", "i"],
          "(is_ast_import(node) and exists(Opaque[Alias], lambda a: (a in ast_names(node)) and i == mk_imp(name, adjusted(alias_name(a), prefix, internal), adjusted(alias_name(a), prefix, internal)))) or "
          "((not is_ast_import(node)) and is_ast_importfrom(node) and ast_level(node) == 0 and exists(Opaque[Alias], lambda a: (a in ast_names(node)) and "
          "   i == mk_imp(name, abs_target(adjusted(unwrap(ast_module(node)), prefix, internal), alias_name(a), internal), abs_target(adjusted(unwrap(ast_module(node)), prefix, internal), alias_name(a), internal)))) or "
          "((not is_ast_import(node)) and is_ast_importfrom(node) and ast_level(node) != 0 and exists(Opaque[Alias], lambda a: (a in ast_names(node)) and i == rel_record(node, name, a, internal)))")
REG.macro("rel_sub", ["node", "name", "a"], "rel_importee(name, unwrap(ast_module(node)) + '.' + alias_name(a), ast_level(node))")
REG.macro("rel_record", ["node", "name", "a", "internal"],
          # (third component: the name whose dotted ancestors are the stored 'importee parent modules' -- since fix 9e15481 the RESOLVED importee, not the text as written)
          "mk_imp(name, rel_sub(node, name, a), rel_sub(node, name, a)) if ((not is_none(ast_module(node))) and (rel_sub(node, name, a) in internal)) "
          "else mk_imp(name, rel_importee(name, unwrap(ast_module(node)) if not is_none(ast_module(node)) else alias_name(a), ast_level(node)), rel_importee(name, unwrap(ast_module(node)) if not is_none(ast_module(node)) else alias_name(a), ast_level(node)))")
REG.add(Contract(f"{IC}._convert", module=M_CV, kind="method", view="string",
                 params=dict(self=IC, module="Opaque[Ast]", module_name="Str", absolute_import_prefix="Str", all_internal_modules="Set[Str]"), returns="Opt[Bag[Imp]]",
                 requires=["implies(is_ast_importfrom(module) and ast_level(module) == 0, not is_none(ast_module(module)))"],
                 ensures=["is_none(result) == (not (is_ast_import(module) or is_ast_importfrom(module)))",
                          # C02: one import per alias of 'import a.b.c [as x]'; 'from P import n' names P.n when that is a scanned module and P otherwise; relative forms per alias
                          "implies(not is_none(result), forall(Imp, lambda i: (i in unwrap(result)) == imp_conv_member(module, module_name, absolute_import_prefix, all_internal_modules, i)))"],
                 locals=dict(new_imports="Opt[Bag[Imp]]", importees="Bag[Str]"),
                 loops={
                     0: dict(sig="for alias in module.names", invariant=[
                         "not is_none(new_imports)",
                         "forall(Imp, lambda i: (i in unwrap(new_imports)) == exists(Opaque[Alias], lambda a: (a in seen) and i == mk_imp(module_name, adjusted(alias_name(a), absolute_import_prefix, all_internal_modules), adjusted(alias_name(a), absolute_import_prefix, all_internal_modules))))"]),
                     1: dict(sig="for alias in module.names", invariant=[
                         "forall(Str, lambda t: (t in importees) == exists(Opaque[Alias], lambda a: (a in seen) and t == abs_target(base_module, alias_name(a), all_internal_modules)))"]),
                     2: dict(sig="for alias in module.names", invariant=[
                         "not is_none(new_imports)",
                         "forall(Imp, lambda i: (i in unwrap(new_imports)) == exists(Opaque[Alias], lambda a: (a in seen) and i == rel_record(module, module_name, a, all_internal_modules)))"]),
                 },
                 note="requires: the grammar fact that 'from X import ...' with level 0 always has a module", properties=["C02"]))

# ---- the walk over the statement tree (unfolding schema as for Parser.parse)
f_ic = z3.Function("imp_contrib", S, z3.ArraySort(S, z3.BoolSort()), AST, S, IMP["sort"], z3.BoolSort())
REG.specfuns["imp_contrib"] = lambda eng, st, prefix, internal, node, name, i: vbool(f_ic(prefix.x, eng.reg.as_membership(eng, internal).x, node.x, name.x, i.x))
REG.macro("has_stmt_child", ["n"], "exists(Opaque[Ast], lambda c: ast_stmt_child(n, c) and is_stmt_like(c))")


@REG.specfun("StmtTreeUnfold", schema=True)
def _stmt_unfold(eng, st, prefix, internal):
    """Schema (trusted; least fixpoint on the finite statement tree): the imports below a node are those of the node itself when it has no nested
    statements, else those below its nested statements (statements, except handlers, match cases in ANY field)."""
    from pyvc.state import State
    saved_bound, saved_spec, saved_q = dict(eng.bound), eng.spec, getattr(eng, "qdepth", 0)
    eng.spec, eng.qdepth = True, 70
    try:
        n = eng.bvar("su!n", ("opaque", "Ast"))
        nm = eng.bvar("su!name", ("str",))
        i = eng.bvar("su!i", ("data", "Imp"))
        eng.bound = {"su_n": n, "su_name": nm, "su_i": i, "su_prefix": prefix, "su_internal": internal}
        eng.qdepth = 71
        body = eng.truth(eng.ev1(eng.reg.parse_spec(
            "imp_contrib(su_prefix, su_internal, su_n, su_name, su_i) == "
            "(((not has_stmt_child(su_n)) and imp_conv_member(su_n, su_name, su_prefix, su_internal, su_i)) or "
            " exists(Opaque[Ast], lambda c: ast_stmt_child(su_n, c) and is_stmt_like(c) and imp_contrib(su_prefix, su_internal, c, su_name, su_i)))"), State()))
        return vbool(z3.ForAll([n.x, nm.x, i.x], body))
    finally:
        eng.bound, eng.spec, eng.qdepth = saved_bound, saved_spec, saved_q


REG.add(Contract(f"{IC}.convert", module=M_CV, kind="method", view="string",
                 params=dict(self=IC, asts="Bag[NamedModule]", absolute_import_prefix="Str", internal_modules="Set[Str]"), returns="Bag[Imp]",
                 modifies=["asts"], aliases_ok=["module_to_search"],
                 requires=["forall(Opaque[Ast], lambda n: implies(is_ast_importfrom(n) and ast_level(n) == 0, not is_none(ast_module(n))))"],
                 use_at_start=["StmtTreeUnfold(absolute_import_prefix, internal_modules)"],
                 # C02: every import statement nested at any depth in any statement list of a scanned file yields its imports, and nothing else does
                 ensures=["forall(Imp, lambda i: (i in result) == exists(NamedModule, lambda m: (m in old(asts)) and imp_contrib(absolute_import_prefix, internal_modules, nm_ast(m), nm_name(m), i)))"],
                 locals=dict(module_to_search="Bag[NamedModule]", imports="Bag[Imp]", nested_statements="Bag[Opaque[Ast]]"),
                 loops={0: dict(sig="while module_to_search", invariant=[
                     "forall(Imp, lambda i: ((i in imports) or exists(NamedModule, lambda m: (m in module_to_search) and imp_contrib(absolute_import_prefix, internal_modules, nm_ast(m), nm_name(m), i))) == "
                     "exists(NamedModule, lambda m: (m in pre(asts)) and imp_contrib(absolute_import_prefix, internal_modules, nm_ast(m), nm_name(m), i)))",
                     "forall(Imp, lambda i: implies(i in imports, exists(NamedModule, lambda m: (m in pre(asts)) and imp_contrib(absolute_import_prefix, internal_modules, nm_ast(m), nm_name(m), i))))"])},
                 note="the worklist is the caller's list itself (module_to_search = asts): it is consumed", properties=["C02", "C15"]))
