"""C11, C13, C15: lemmas over the specification Rule.assert_applies is proved against."""
from .speclib import REG

QO = ["Q_edge", "Q_else_f", "Q_else_r"]

# ------------------------------------------------------------------ C13
REG.lemma("C13_should_not_with_other_verb_is_contradictory", params=dict(s="Bool", so="Bool", sn="Bool", e="Bool"),
          requires=["sn and (s or so)"], ensures=["br_inconsistent4(s, so, sn, e)"], properties=["C13"],
          note="should_not combined with another verb raises RuleInconsistency in all except / non-except cases")
REG.lemma("C13_outcomes_exclusive", params=dict(g="Graph", c="RuleConfiguration"), requires=[],
          ensures=["not (passes(g, c) and fails(g, c))",
                   "implies(cfg_bad(c) or br_inconsistent(b_eff(c)), (not passes(g, c)) and not fails(g, c))",
                   "implies(rule_ok_cfg(c) and mr_unmatched(g, mr_eff(c)), (not passes(g, c)) and not fails(g, c))"],
          opaque=QO, properties=["C13"], note="incomplete / contradictory / unmatched-regex rules have no verdict")
REG.lemma("conv_members", params=dict(g="Graph", F="Bag[Filter]"), requires=[],
          ensures=["forall(Filter, lambda x: implies((x in F) and not is_regex(x), x in conv(g, F)))",
                   "forall(Filter, Node, lambda r, m: implies((r in F) and is_regex(r) and node(g, m) and re_matches(fid(r), m), mk_filter_name(m) in conv(g, F)))",
                   "forall(Filter, lambda f: implies(f in conv(g, F), not is_regex(f)))",
                   "forall(Filter, lambda f: implies(f in conv(g, F), (f in F) or exists(Filter, lambda r: (r in F) and is_regex(r))))"],
          properties=["C13", "C11"])
REG.lemma("conv_nonempty", params=dict(g="Graph", F="Bag[Filter]"), requires=["nonempty(F)", "not regex_unmatched(g, F)"],
          ensures=["nonempty(conv(g, F))"], use=["conv_members(g, F)"], properties=["C13", "C11"])
REG.lemma("C13_unknown_name_never_a_verdict", params=dict(g="Graph", c="RuleConfiguration"),
          requires=["WF(g)", "rule_ok_cfg(c)", "not mr_unmatched(g, mr_eff(c))",
                    "exists(Filter, lambda f: ((f in umr_of(g, mr_eff(c))._importers) or (f in umr_of(g, mr_eff(c))._importees)) and not node(g, fid(f)))"],
          ensures=["fv_raises(g, umr_of(g, mr_eff(c)), b_eff(c))", "(not passes(g, c)) and not fails(g, c)"],
          use=["conv_nonempty(g, S_eff(c))", "conv_nonempty(g, O_eff(c))"], opaque=QO,
          cases=["c.import_", "c.rule_object_anything"], properties=["C13"],
          note="a module name absent from the architecture makes the graph search raise (NetworkXError), on every shape")

# ------------------------------------------------------------------ C11
REG.lemma("conv_idempotent", params=dict(g="Graph", F="Bag[Filter]"), requires=[],
          ensures=["same_elements(conv(g, conv(g, F)), conv(g, F))", "not regex_unmatched(g, conv(g, F))"], properties=["C11"])
REG.lemma("conv_nonempty_iff", params=dict(g="Graph", F="Bag[Filter]"), requires=["not regex_unmatched(g, F)"],
          ensures=["nonempty(conv(g, F)) == nonempty(F)"], use=["conv_members(g, F)"], properties=["C11"])
REG.lemma("C11_regex_equals_expansion",
          params=dict(g="Graph", S="Bag[Filter]", O="Bag[Filter]", s="Bool", so="Bool", sn="Bool", e="Bool", imp_="Bool"),
          requires=["WF(g)", "not regex_unmatched(g, S)", "not regex_unmatched(g, O)"],
          ensures=["passes(g, cfg(S, O, s, so, sn, e, imp_)) == passes(g, cfg(conv(g, S), conv(g, O), s, so, sn, e, imp_))",
                   "fails(g, cfg(S, O, s, so, sn, e, imp_)) == fails(g, cfg(conv(g, S), conv(g, O), s, so, sn, e, imp_))"],
          use=["conv_idempotent(g, S)", "conv_idempotent(g, O)", "conv_nonempty_iff(g, S)", "conv_nonempty_iff(g, O)"],
          opaque=QO, cases=["imp_"], properties=["C11"],
          note="a regex specification has the verdict of the rule naming all modules it matches")
REG.lemma("conv_union_single", params=dict(g="Graph", F="Bag[Filter]"), requires=[],
          ensures=["forall(Filter, lambda f: (f in conv(g, F)) == exists(Filter, lambda x: (x in F) and (f in conv(g, single(x)))))",
                   "regex_unmatched(g, F) == exists(Filter, lambda x: (x in F) and regex_unmatched(g, single(x)))"],
          properties=["C11"])
# batch = conjunction over subjects (all shapes with explicitly given objects): component laws, then the outcome law
SOME = ["some_edge", "some_missing_edge", "some_else_f", "some_else_r", "some_missing_else_f", "some_missing_else_r"]
_BP = dict(g="Graph", S="Bag[Filter]", O="Bag[Filter]")
# subjects on the importer side (import rules)
REG.lemma("batch_importers", params=_BP, requires=[],
          ensures=["some_edge(g, conv(g, S), O) == exists(Filter, lambda x: (x in S) and some_edge(g, conv(g, single(x)), O))",
                   "some_missing_edge(g, conv(g, S), O) == exists(Filter, lambda x: (x in S) and some_missing_edge(g, conv(g, single(x)), O))",
                   "some_else_f(g, conv(g, S), O) == exists(Filter, lambda x: (x in S) and some_else_f(g, conv(g, single(x)), O))",
                   "some_missing_else_f(g, conv(g, S), O) == exists(Filter, lambda x: (x in S) and some_missing_else_f(g, conv(g, single(x)), O))"],
          use=["conv_union_single(g, S)"], opaque=QO, properties=["C11"])
# subjects on the importee side (be-imported-by rules)
REG.lemma("batch_importees", params=_BP, requires=[],
          ensures=["some_edge(g, O, conv(g, S)) == exists(Filter, lambda x: (x in S) and some_edge(g, O, conv(g, single(x))))",
                   "some_missing_edge(g, O, conv(g, S)) == exists(Filter, lambda x: (x in S) and some_missing_edge(g, O, conv(g, single(x))))",
                   "some_else_r(g, O, conv(g, S)) == exists(Filter, lambda x: (x in S) and some_else_r(g, O, conv(g, single(x))))",
                   "some_missing_else_r(g, O, conv(g, S)) == exists(Filter, lambda x: (x in S) and some_missing_else_r(g, O, conv(g, single(x))))"],
          use=["conv_union_single(g, S)"], opaque=QO, properties=["C11"])
REG.lemma("batch_raises", params=_BP, requires=[],
          ensures=["gd_raises(g, conv(g, S), O) == exists(Filter, lambda x: (x in S) and gd_raises(g, conv(g, single(x)), O))",
                   "gd_raises(g, O, conv(g, S)) == exists(Filter, lambda x: (x in S) and gd_raises(g, O, conv(g, single(x))))",
                   "ad_raises(g, conv(g, S), O) == exists(Filter, lambda x: (x in S) and ad_raises(g, conv(g, single(x)), O))",
                   "ao_raises(g, O, conv(g, S)) == exists(Filter, lambda x: (x in S) and ao_raises(g, O, conv(g, single(x))))"],
          use=["conv_union_single(g, S)"], properties=["C11"])
REG.macro("u_of", ["g", "S", "O", "imp_"],
          "new(ModuleRequirement, _importer_as_specified_by_user=conv(g, S), _importees_as_specified_by_user=conv(g, O), "
          "_importers=(conv(g, S) if imp_ else conv(g, O)), _importees=(conv(g, O) if imp_ else conv(g, S)), _importer_specified_as_rule_subject=imp_)")
REG.lemma("C11_batch_subjects",
          params=dict(g="Graph", S="Bag[Filter]", O="Bag[Filter]", b="BehaviorRequirement", imp_="Bool"),
          requires=["WF(g)"],
          ensures=["viol_Q(g, u_of(g, S, O, imp_), b) == exists(Filter, lambda x: (x in S) and viol_Q(g, u_of(g, single(x), O, imp_), b))",
                   "fv_raises(g, u_of(g, S, O, imp_), b) == exists(Filter, lambda x: (x in S) and fv_raises(g, u_of(g, single(x), O, imp_), b))",
                   "regex_unmatched(g, S) == exists(Filter, lambda x: (x in S) and regex_unmatched(g, single(x)))"],
          use=["conv_union_single(g, S)", "batch_importers(g, S, conv(g, O))", "batch_importees(g, S, conv(g, O))", "batch_raises(g, S, conv(g, O))"],
          opaque=QO + SOME, cases=["imp_", "b.should", "b.should_only", "b.should_not", "b.behavior_exception"], properties=["C11"],
          note="a rule with several subjects is violated / undefined exactly when one of its single-subject rules is: verdict = conjunction")

REG.lemma("C11_batch_objects_plain_should_and_should_not",
          params=dict(g="Graph", S="Bag[Filter]", O="Bag[Filter]", b="BehaviorRequirement", imp_="Bool"),
          requires=["WF(g)", "not b.behavior_exception", "not b.should_only"],
          ensures=["viol_Q(g, u_of(g, S, O, imp_), b) == exists(Filter, lambda y: (y in O) and viol_Q(g, u_of(g, S, single(y), imp_), b))",
                   "fv_raises(g, u_of(g, S, O, imp_), b) == exists(Filter, lambda y: (y in O) and fv_raises(g, u_of(g, S, single(y), imp_), b))"],
          use=["conv_union_single(g, O)", "batch_importers(g, O, conv(g, S))", "batch_importees(g, O, conv(g, S))", "batch_raises(g, O, conv(g, S))"],
          opaque=QO + SOME, cases=["imp_", "b.should", "b.should_not"], properties=["C11"],
          note="for plain should / should_not several objects equal the conjunction over objects")

# ------------------------------------------------------------------ C15: re-applying a rule object
REG.macro("alias_cfg", ["c"],
          "new(RuleConfiguration, modules_to_check=dedup(unwrap(c.modules_to_check)), modules_to_check_against=dedup(unwrap(c.modules_to_check)), "
          "should=c.should, should_only=c.should_only, should_not=c.should_not, except_present=True, import_=c.import_, rule_object_anything=False)")
REG.lemma("C15_reapplication_same_outcome", params=dict(g="Graph", c="RuleConfiguration"),
          requires=["c.rule_object_anything", "not is_none(c.modules_to_check)", "c.should_not"],
          ensures=["passes(g, alias_cfg(c)) == passes(g, c)", "fails(g, alias_cfg(c)) == fails(g, c)",
                   "cfg_bad(alias_cfg(c)) == cfg_bad(c)"],
          opaque=QO, properties=["C15", "C12"],
          note="assert_applies rewrites the 'anything' alias in place; the rewritten configuration has the same outcome, so a rule object can be re-applied")
