from .speclib import REG  # noqa
from . import c_graph, c_rules, c_rule_builder, l_algebra  # noqa
