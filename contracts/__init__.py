from .speclib import REG  # noqa
from . import c_graph, c_rules, c_rule_builder, l_algebra, l_semantics, l_misc, c_strings, c_networkx, c_filters, c_diagram, c_parser, c_converter, c_layers, c_layermap, l_layers  # noqa
from . import c_messages  # noqa  (message generator)
from . import c_entry, c_draw  # noqa  (entry points / glue, draw: after the stage contracts they compose)
from . import c_graphbuild  # noqa  (graph construction; extends the NetworkxGraph record declared in c_networkx)
