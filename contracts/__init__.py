from .speclib import REG  # noqa
from . import c_graph  # noqa
