"""C12: rule-algebra laws as lemmas over the verdict specification that Rule.assert_applies is proved against."""
from .speclib import REG

# outcome predicates of Rule.assert_applies (its contract: raised iff condition, normal return iff none holds)
REG.macro("passes", ["g", "c"],
          "rule_ok_cfg(c) and (not mr_unmatched(g, mr_eff(c))) and (not fv_raises(g, umr_of(g, mr_eff(c)), b_eff(c))) and not viol_Q(g, umr_of(g, mr_eff(c)), b_eff(c))")
REG.macro("fails", ["g", "c"],
          "rule_ok_cfg(c) and (not mr_unmatched(g, mr_eff(c))) and (not fv_raises(g, umr_of(g, mr_eff(c)), b_eff(c))) and viol_Q(g, umr_of(g, mr_eff(c)), b_eff(c))")
REG.macro("cfg", ["S", "O", "s", "so", "sn", "e", "imp_"],
          "new(RuleConfiguration, modules_to_check=S, modules_to_check_against=O, should=s, should_only=so, should_not=sn, except_present=e, import_=imp_, rule_object_anything=False)")
REG.macro("cfg_any", ["S", "s", "so", "sn", "imp_"],
          "new(RuleConfiguration, modules_to_check=S, modules_to_check_against=None, should=s, should_only=so, should_not=sn, except_present=False, import_=imp_, rule_object_anything=True)")
REG.macro("single", ["a"], "setof(Filter, lambda f: f == a)")
P = ["C12"]

# (a) duality
REG.lemma("C12_duality", params=dict(g="Graph", A="Bag[Filter]", B="Bag[Filter]", s="Bool", sn="Bool"),
          requires=["WF(g)"],
          ensures=["passes(g, cfg(A, B, s, False, sn, False, True)) == passes(g, cfg(B, A, s, False, sn, False, False))",
                   "fails(g, cfg(A, B, s, False, sn, False, True)) == fails(g, cfg(B, A, s, False, sn, False, False))"],
          properties=P, note="'A should (not) import B' and 'B should (not) be imported by A' have the same outcome")

# (b) negation, one subject and one object (named or 'sub modules of'), both directions
for imp_ in ("True", "False"):
    REG.lemma(f"C12_negation_import_{imp_}", params=dict(g="Graph", a="Filter", b="Filter", e="Bool"),
              requires=["WF(g)", "not is_regex(a)", "not is_regex(b)",
                        f"not fv_raises(g, umr_of(g, mr_eff(cfg(single(a), single(b), True, False, False, e, {imp_}))), b_eff(cfg(single(a), single(b), True, False, False, e, {imp_})))",
                        f"not fv_raises(g, umr_of(g, mr_eff(cfg(single(a), single(b), False, False, True, e, {imp_}))), b_eff(cfg(single(a), single(b), False, False, True, e, {imp_})))"],
              ensures=[f"passes(g, cfg(single(a), single(b), True, False, False, e, {imp_})) == fails(g, cfg(single(a), single(b), False, False, True, e, {imp_}))"],
              properties=P, note="'should' passes exactly when 'should not' fails (likewise for the except forms)")

# (c) decomposition of should_only
REG.lemma("C12_decomposition", params=dict(g="Graph", S="Bag[Filter]", O="Bag[Filter]", imp_="Bool"),
          requires=["WF(g)"],
          ensures=["passes(g, cfg(S, O, False, True, False, False, imp_)) == (passes(g, cfg(S, O, True, False, False, False, imp_)) and passes(g, cfg(S, O, False, False, True, True, imp_)))",
                   "passes(g, cfg(S, O, False, True, False, True, imp_)) == (passes(g, cfg(S, O, True, False, False, True, imp_)) and passes(g, cfg(S, O, False, False, True, False, imp_)))"],
          properties=P)

# (d) the 'anything' alias for one subject
REG.lemma("C12_alias_anything", params=dict(g="Graph", a="Filter", imp_="Bool"),
          requires=["WF(g)", "not name_anc(fid(a), fid(a))"],
          ensures=["passes(g, cfg_any(single(a), False, False, True, imp_)) == passes(g, cfg(single(a), single(a), False, False, True, True, imp_))",
                   "fails(g, cfg_any(single(a), False, False, True, imp_)) == fails(g, cfg(single(a), single(a), False, False, True, True, imp_))"],
          properties=P, note="name_anc is the STRICT dotted-ancestor relation (irreflexive)")

# (e) monotonicity in the import relation (same modules and hierarchy, more imports)
REG.macro("same_hierarchy_more_imports", ["g1", "g2"],
          "forall(Node, lambda n: node(g1, n) == node(g2, n)) and forall(Node, Node, lambda a, b: inh(g1, a, b) == inh(g2, a, b)) "
          "and forall(Node, Node, lambda a, b: desc(g1, a, b) == desc(g2, a, b)) and forall(Node, Node, lambda a, b: implies(imp(g1, a, b), imp(g2, a, b)))")
REG.lemma("C12_monotone", params=dict(g1="Graph", g2="Graph", S="Bag[Filter]", O="Bag[Filter]", e="Bool", imp_="Bool"),
          requires=["WF(g1)", "WF(g2)", "same_hierarchy_more_imports(g1, g2)"],
          ensures=["implies(passes(g1, cfg(S, O, True, False, False, e, imp_)), passes(g2, cfg(S, O, True, False, False, e, imp_)))",
                   "implies(fails(g1, cfg(S, O, False, False, True, e, imp_)), fails(g2, cfg(S, O, False, False, True, e, imp_)))"],
          properties=P, note="adding imports never breaks a passing 'should' nor repairs a failing 'should not'")
