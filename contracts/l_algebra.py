"""C12: rule-algebra laws as lemmas over the verdict specification that Rule.assert_applies is proved against."""
from .speclib import REG

# outcome predicates of Rule.assert_applies (its contract: raised iff condition, normal return iff none holds)
REG.macro("passes", ["g", "c"],
          "rule_ok_cfg(c) and (not mr_unmatched(g, mr_eff(c))) and (not fv_raises(g, umr_of(g, mr_eff(c)), b_eff(c))) and not viol_Q(g, umr_of(g, mr_eff(c)), b_eff(c))")
REG.macro("fails", ["g", "c"],
          "rule_ok_cfg(c) and (not mr_unmatched(g, mr_eff(c))) and (not fv_raises(g, umr_of(g, mr_eff(c)), b_eff(c))) and viol_Q(g, umr_of(g, mr_eff(c)), b_eff(c))")
REG.macro("cfg", ["S", "O", "s", "so", "sn", "e", "imp_"],
          "new(RuleConfiguration, modules_to_check=S, modules_to_check_against=O, should=s, should_only=so, should_not=sn, except_present=e, import_=imp_, rule_object_anything=False)")
REG.macro("cfg_any", ["S", "s", "so", "sn", "imp_"],
          "new(RuleConfiguration, modules_to_check=S, modules_to_check_against=None, should=s, should_only=so, should_not=sn, except_present=False, import_=imp_, rule_object_anything=True)")
from .speclib import set_function
set_function("single", dict(a="Filter"), "f", "Filter", "f == a")
P = ["C12"]
QO = ["Q_edge", "Q_else_f", "Q_else_r"]

# (a) duality
REG.lemma("C12_duality", params=dict(g="Graph", A="Bag[Filter]", B="Bag[Filter]", s="Bool", sn="Bool"),
          requires=["WF(g)"],
          ensures=["passes(g, cfg(A, B, s, False, sn, False, True)) == passes(g, cfg(B, A, s, False, sn, False, False))",
                   "fails(g, cfg(A, B, s, False, sn, False, True)) == fails(g, cfg(B, A, s, False, sn, False, False))"],
          opaque=QO, cases=["s", "sn"], properties=P,
          note="'A should (not) import B' and 'B should (not) be imported by A' have the same outcome")

# helper: a named (non-regex) filter converts to itself
REG.lemma("conv_single", params=dict(g="Graph", a="Filter"), requires=["not is_regex(a)"],
          ensures=["same_elements(conv(g, single(a)), single(a))"], properties=P + ["C01", "C11"])

# (b) negation, one subject and one object (named or 'sub modules of'), both directions, with and without except
REG.lemma("C12_negation", params=dict(g="Graph", a="Filter", b="Filter", e="Bool", imp_="Bool"),
          requires=["WF(g)", "not is_regex(a)", "not is_regex(b)",
                    "not fv_raises(g, umr_of(g, mr_eff(cfg(single(a), single(b), True, False, False, e, imp_))), b_eff(cfg(single(a), single(b), True, False, False, e, imp_)))",
                    "not fv_raises(g, umr_of(g, mr_eff(cfg(single(a), single(b), False, False, True, e, imp_))), b_eff(cfg(single(a), single(b), False, False, True, e, imp_)))"],
          ensures=["passes(g, cfg(single(a), single(b), True, False, False, e, imp_)) == fails(g, cfg(single(a), single(b), False, False, True, e, imp_))"],
          use=["conv_single(g, a)", "conv_single(g, b)"], opaque=QO, cases=["e", "imp_"], properties=P,
          note="'should' passes exactly when 'should not' fails (likewise for the two except forms)")

# (c) decomposition of should_only
REG.lemma("C12_decomposition", params=dict(g="Graph", S="Bag[Filter]", O="Bag[Filter]", imp_="Bool"),
          requires=["WF(g)"],
          ensures=["passes(g, cfg(S, O, False, True, False, False, imp_)) == (passes(g, cfg(S, O, True, False, False, False, imp_)) and passes(g, cfg(S, O, False, False, True, True, imp_)))",
                   "passes(g, cfg(S, O, False, True, False, True, imp_)) == (passes(g, cfg(S, O, True, False, False, True, imp_)) and passes(g, cfg(S, O, False, False, True, False, imp_)))"],
          opaque=QO, cases=["imp_"], properties=P)

# (d) the 'anything' alias for one subject
REG.lemma("dedup_single", params=dict(a="Filter"), requires=["not name_anc(fid(a), fid(a))"],
          ensures=["same_elements(dedup(single(a)), single(a))"], properties=P)
REG.lemma("C12_alias_anything", params=dict(g="Graph", a="Filter", imp_="Bool"),
          requires=["WF(g)", "not name_anc(fid(a), fid(a))"],
          ensures=["passes(g, cfg_any(single(a), False, False, True, imp_)) == passes(g, cfg(single(a), single(a), False, False, True, True, imp_))",
                   "fails(g, cfg_any(single(a), False, False, True, imp_)) == fails(g, cfg(single(a), single(a), False, False, True, True, imp_))"],
          use=["dedup_single(a)"], opaque=QO, cases=["imp_"], properties=P,
          note="name_anc is the STRICT dotted-ancestor relation (irreflexive)")

# (e) monotonicity in the import relation (same modules and hierarchy, more imports)
REG.macro("same_hierarchy_more_imports", ["g1", "g2"],
          "forall(Node, lambda n: node(g1, n) == node(g2, n)) and forall(Node, Node, lambda a, b: inh(g1, a, b) == inh(g2, a, b)) "
          "and forall(Node, Node, lambda a, b: desc(g1, a, b) == desc(g2, a, b)) and forall(Node, Node, lambda a, b: implies(imp(g1, a, b), imp(g2, a, b)))")
_MP = dict(g1="Graph", g2="Graph")
REG.lemma("mono_Q_edge", params=_MP, requires=["same_hierarchy_more_imports(g1, g2)"],
          ensures=["forall(Filter, Filter, lambda s, o: implies(Q_edge(g1, s, o), Q_edge(g2, s, o)))"], properties=P)
REG.lemma("mono_Q_else_f", params=_MP, requires=["same_hierarchy_more_imports(g1, g2)"],
          ensures=["forall(Filter, Bag[Filter], lambda s, O: implies(Q_else_f(g1, s, O), Q_else_f(g2, s, O)))"], properties=P)
REG.lemma("mono_Q_else_r", params=_MP, requires=["same_hierarchy_more_imports(g1, g2)"],
          ensures=["forall(Bag[Filter], Filter, lambda S, o: implies(Q_else_r(g1, S, o), Q_else_r(g2, S, o)))"], properties=P)
REG.lemma("mono_conv", params=dict(g1="Graph", g2="Graph", F="Bag[Filter]"), requires=["forall(Node, lambda n: node(g1, n) == node(g2, n))"],
          ensures=["same_elements(conv(g1, F), conv(g2, F))"], properties=P)
REG.lemma("C12_monotone", params=dict(g1="Graph", g2="Graph", S="Bag[Filter]", O="Bag[Filter]", e="Bool", imp_="Bool"),
          requires=["WF(g1)", "WF(g2)", "same_hierarchy_more_imports(g1, g2)"],
          ensures=["implies(passes(g1, cfg(S, O, True, False, False, e, imp_)), passes(g2, cfg(S, O, True, False, False, e, imp_)))",
                   "implies(fails(g1, cfg(S, O, False, False, True, e, imp_)), fails(g2, cfg(S, O, False, False, True, e, imp_)))"],
          use=["mono_Q_edge(g1, g2)", "mono_Q_else_f(g1, g2)", "mono_Q_else_r(g1, g2)", "mono_conv(g1, g2, S)", "mono_conv(g1, g2, O)"],
          opaque=QO, cases=["e", "imp_"], properties=P,
          note="adding imports never breaks a passing 'should' nor repairs a failing 'should not'")
