"""Contracts: eval_structure/networkxgraph.py -- the networkx-backed implementation of AbstractGraph.

networkx.DiGraph is an ASSUMED library contract (relations dg_node / dg_edge / dg_inh over an opaque DiGraph value);
NetworkxGraph's accessors are verified against it. The AbstractGraph interface contracts in c_graph.py are exactly these
with node(G, n) := dg_node(G._graph, n), edge := dg_edge, inh := dg_inh."""
import z3
from pyvc import vals
from pyvc.vals import V, vbool, Node
from .speclib import REG, Contract

M_NX = "pytestarch.eval_structure.networkxgraph"
ED = vals.opaque_sort("EdgeData")
f_ed_inh = z3.Function("ed_inherits", ED, z3.BoolSort())
# networkx.DiGraph (assumed): node set, edge set, and the 'inherits' attribute of each edge (one attribute dict per ordered pair)
vals.declare_obj("DiGraph", dict(nodes="Set[Node]", edges="Set[Tuple[Node,Node]]", inh="Set[Tuple[Node,Node]]"))
REG.macro("dg_node", ["d", "n"], "n in d.nodes")
REG.macro("dg_edge", ["d", "a", "b"], "(a, b) in d.edges")
REG.macro("dg_inh", ["d", "a", "b"], "(a, b) in d.inh")


@REG.specfun("ed_inherits")
def _ed_inh(eng, st, e):
    return vbool(f_ed_inh(e.x))


vals.declare_obj("NetworkxGraph", dict(_graph="DiGraph", _level_limit="Opt[Int]"))
NG = "NetworkxGraph"
_D = dict(self="DiGraph")
REG.add(Contract("DiGraph.predecessors", status="assumed", kind="method", params=dict(self="DiGraph", n="Node"), returns="Bag[Node]",
                 raises=[("NetworkXError", "not dg_node(self, n)")], ensures=["forall(Node, lambda p: (p in result) == dg_edge(self, p, n))"],
                 note="networkx: DiGraph.predecessors raises NetworkXError for a node that is not in the graph"))
REG.add(Contract("DiGraph.successors", status="assumed", kind="method", params=dict(self="DiGraph", n="Node"), returns="Bag[Node]",
                 raises=[("NetworkXError", "not dg_node(self, n)")], ensures=["forall(Node, lambda c: (c in result) == dg_edge(self, n, c))"]))
REG.add(Contract("DiGraph.get_edge_data", status="assumed", kind="method", params=dict(self="DiGraph", u="Node", v="Node"),
                 returns="Opt[Opaque[EdgeData]]",
                 ensures=["is_none(result) == (not dg_edge(self, u, v))", "implies(not is_none(result), ed_inherits(unwrap(result)) == dg_inh(self, u, v))"],
                 note="networkx: get_edge_data returns None for a missing edge, else the attribute dict ('inherits' set by _create_edge)"))
REG.add(Contract("EdgeData.__getitem__", status="assumed", kind="method", params=dict(self="Opaque[EdgeData]", key="Str"), returns="Bool",
                 requires=["key == 'inherits'"], defn="ed_inherits(self)", note="attribute dict of an edge: only the key 'inherits' is ever stored"))
REG.add(Contract("DiGraph.nodes", status="assumed", kind="property", params=_D, returns="Bag[Node]",
                 ensures=["forall(Node, lambda n: (n in result) == dg_node(self, n))"]))
REG.add(Contract("DiGraph.has_node", status="assumed", kind="method", params=dict(self="DiGraph", n="Node"), returns="Bool", defn="dg_node(self, n)"))
REG.add(Contract("DiGraph.has_edge", status="assumed", kind="method", params=dict(self="DiGraph", u="Node", v="Node"), returns="Bool", defn="dg_edge(self, u, v)"))

P = ["C01", "C03", "C13", "C15", "C04"]
REG.add(Contract(f"{NG}.direct_predecessor_nodes", module=M_NX, kind="method", params=dict(self=NG, node="Node"), returns="Bag[Node]",
                 raises=[("NetworkXError", "not dg_node(self._graph, node)")],
                 ensures=["forall(Node, lambda p: (p in result) == dg_edge(self._graph, p, node))"],
                 impl_of="AbstractGraph.direct_predecessor_nodes", properties=P))
REG.add(Contract(f"{NG}.direct_successor_nodes", module=M_NX, kind="method", params=dict(self=NG, node="Node"), returns="Bag[Node]",
                 raises=[("NetworkXError", "not dg_node(self._graph, node)")],
                 ensures=["forall(Node, lambda c: (c in result) == dg_edge(self._graph, node, c))"],
                 impl_of="AbstractGraph.direct_successor_nodes", properties=P))
REG.add(Contract(f"{NG}.parent_child_relationship", module=M_NX, kind="method",
                 params=dict(self=NG, supposed_parent_node="Node", supposed_child_node="Node"), returns="Bool",
                 raises=[("TypeError", "not dg_edge(self._graph, supposed_parent_node, supposed_child_node)")],
                 defn="dg_inh(self._graph, supposed_parent_node, supposed_child_node)",
                 impl_of="AbstractGraph.parent_child_relationship", properties=P))
REG.add(Contract(f"{NG}.nodes", module=M_NX, kind="property", params=dict(self=NG), returns="Bag[Node]",
                 ensures=["forall(Node, lambda n: (n in result) == dg_node(self._graph, n))"], impl_of="AbstractGraph.nodes", properties=P))
REG.add(Contract(f"{NG}._edge_already_present", module=M_NX, kind="method", params=dict(self=NG, node_start="Node", node_end="Node", inherits="Bool"),
                 returns="Bool", defn="dg_edge(self._graph, node_start, node_end) and (dg_inh(self._graph, node_start, node_end) == inherits)",
                 properties=["C04", "C09"]))

# ---------------------------------------------------------------- plot labels (C17, C14), string view
from .speclib import set_function  # noqa
REG.macro("alias_applies", ["a", "m"], "m == a or m.startswith(a + '.')")
# the label of m: the alias of the most specific (longest) aliased module that is m itself or a dotted ancestor of m, followed by
# the rest of m's name; m itself when no aliased module applies
REG.define("label_ok", dict(aliases="Dict[Str,Str]", m="Str", r="Str"),
           "implies(not exists(Str, lambda a: (a in aliases) and alias_applies(a, m)), r == m) and "
           "implies(exists(Str, lambda a: (a in aliases) and alias_applies(a, m)), "
           "exists(Str, lambda a: (a in aliases) and alias_applies(a, m) and r == aliases[a] + m[len(a):] and "
           "forall(Str, lambda b: implies((b in aliases) and alias_applies(b, m), len(b) <= len(a)))))")
REG.add(Contract(f"{NG}._create_label", module=M_NX, kind="method", view="string",
                 params=dict(self=NG, module_name="Str", sorted_aliased_modules="Seq[Str]", aliases="Dict[Str,Str]"), returns="Str",
                 # the list holds exactly the aliased names, longest first (established by _create_plot_labels_with_alias)
                 requires=["forall(Int, lambda j: implies(0 <= j and j < len(sorted_aliased_modules), sorted_aliased_modules[j] in aliases))",
                           "forall(Str, lambda a: implies(a in aliases, exists(Int, lambda j: 0 <= j and j < len(sorted_aliased_modules) and sorted_aliased_modules[j] == a)))",
                           "forall(Int, Int, lambda j, k: implies(0 <= j and j < k and k < len(sorted_aliased_modules), len(sorted_aliased_modules[j]) >= len(sorted_aliased_modules[k])))"],
                 # no aliased module applies: the module keeps its full name; otherwise some applicable aliased module a produced the label
                 # and no applicable aliased module is longer (more specific) than a
                 ensures=["label_ok(aliases, module_name, result)"],
                 ghost_asserts=["(most_specific_aliased_module in aliases) and alias_applies(most_specific_aliased_module, module_name)",
                                "forall(Str, lambda b: implies((b in aliases) and alias_applies(b, module_name), len(b) <= len(most_specific_aliased_module)))",
                                "result == aliases[most_specific_aliased_module] + module_name[len(most_specific_aliased_module):]"],
                 properties=["C17", "C14"]))
REG.add(Contract(f"{NG}._assert_aliased_modules_exist", module=M_NX, kind="method", view="string",
                 params=dict(self=NG, aliases="Dict[Str,Str]", module_names="Bag[Str]"), returns="None",
                 # C17: an alias for a module that does not exist is rejected
                 raises=[("KeyError", "exists(Str, lambda a: (a in aliases) and not (a in module_names))")],
                 loops={0: dict(sig="for module in aliases", invariant=["forall(Str, lambda a: implies(a in seen, a in module_names))"])},
                 properties=["C17"]))
REG.add(Contract(f"{NG}._create_plot_labels_with_alias", module=M_NX, kind="method", view="string",
                 params=dict(self=NG, aliases="Dict[Str,Str]"), returns="Dict[Str,Str]",
                 raises=[("KeyError", "exists(Str, lambda a: (a in aliases) and not dg_node(self._graph, a))")],
                 # C17: every module of the architecture is labelled exactly once, with the label of the property (label_ok)
                 ensures=["forall(Str, lambda m: (m in result) == dg_node(self._graph, m))",
                          "forall(Str, lambda m: implies(m in result, label_ok(aliases, m, result[m])))"],
                 locals=dict(labels="Dict[Str,Str]", module_names="Bag[Str]"), opaque=["label_ok"],
                 loops={0: dict(sig="for module_name_to_alias in module_names", invariant=[
                     "forall(Str, lambda m: (m in labels) == (m in seen))",
                     "forall(Str, lambda m: implies(m in labels, label_ok(aliases, m, labels[m])))"])},
                 properties=["C17", "C14"]))

# ---------------------------------------------------------------- graph construction (C02, C04, C09): node / edge creation
REG.add(Contract("DiGraph.add_node", status="assumed", kind="method", params=dict(self="DiGraph", n="Node"), returns="None", modifies=["self"],
                 ensures=["forall(Node, lambda x: (x in self.nodes) == ((x in old(self).nodes) or x == n))", "self.edges == old(self).edges", "self.inh == old(self).inh"]))
REG.add(Contract("DiGraph.add_edge", status="assumed", kind="method", params=dict(self="DiGraph", u="Node", v="Node", inherits="Bool"), returns="None", modifies=["self"],
                 ensures=["forall(Node, lambda x: (x in self.nodes) == ((x in old(self).nodes) or x == u or x == v))",
                          "forall(Node, Node, lambda a, b: ((a, b) in self.edges) == (((a, b) in old(self).edges) or (a == u and b == v)))",
                          # one attribute dict per ordered pair: adding the edge again overwrites 'inherits'
                          "forall(Node, Node, lambda a, b: ((a, b) in self.inh) == ((inherits if (a == u and b == v) else ((a, b) in old(self).inh))))"],
                 note="networkx: add_edge(u, v, inherits=b) creates missing endpoints and sets / overwrites the edge attribute"))
REG.add(Contract("DiGraph.__contains__", status="assumed", kind="method", params=dict(self="DiGraph", n="Node"), returns="Bool", defn="n in self.nodes"))
_f_flat = z3.Function("flat", z3.BoolSort(), z3.IntSort(), Node, Node)


@REG.specfun("flat")
def _flat(eng, st, limit, n):
    """_flatten_graph_node: the name itself without a level limit, else the name truncated to limit+1 dotted components (uninterpreted here)."""
    return V(n.t, z3.If(limit.x[0], n.x, _f_flat(z3.BoolVal(False), limit.x[1].x, n.x)))


REG.add(Contract(f"{NG}._flatten_graph_node", module=M_NX, kind="method", status="bounded", params=dict(self=NG, node="Node"), returns="Node",
                 defn="flat(self._level_limit, node)",
                 note="split('.') / join: not brought under contract; the truncation is checked by the bounded C09 stand-in (quotient graph for every k)"))
REG.add(Contract(f"{NG}._create_node", module=M_NX, kind="method", params=dict(self=NG, node="Node"), returns="None", modifies=["self"],
                 ensures=["forall(Node, lambda x: (x in self._graph.nodes) == ((x in old(self)._graph.nodes) or x == flat(old(self)._level_limit, node)))",
                          "self._graph.edges == old(self)._graph.edges", "self._graph.inh == old(self)._graph.inh", "self._level_limit == old(self)._level_limit",
                          "self._all_modules == old(self)._all_modules", "self._imports == old(self)._imports"],
                 properties=["C04", "C09"]))
REG.macro("ce_adds", ["g", "a", "b", "inherits"],
          "a != b and (a in g.nodes) and (b in g.nodes) and not (((a, b) in g.edges) and (((a, b) in g.inh) == inherits))")
REG.add(Contract(f"{NG}._create_edge", module=M_NX, kind="method", params=dict(self=NG, node_start="Node", node_end="Node", inherits="Bool"), returns="None",
                 modifies=["self"], defaults=dict(inherits="False"),
                 ensures=[
                     # C02: an edge is only created between two KNOWN modules; C09: after flattening, self edges are dropped; never a new node
                     "self._graph.nodes == old(self)._graph.nodes", "self._level_limit == old(self)._level_limit", "self._all_modules == old(self)._all_modules", "self._imports == old(self)._imports",
                     "forall(Node, Node, lambda a, b: ((a, b) in self._graph.edges) == (((a, b) in old(self)._graph.edges) or "
                     "(a == flat(old(self)._level_limit, node_start) and b == flat(old(self)._level_limit, node_end) and ce_adds(old(self)._graph, a, b, inherits))))",
                     "forall(Node, Node, lambda a, b: ((a, b) in self._graph.inh) == (inherits if (a == flat(old(self)._level_limit, node_start) and b == flat(old(self)._level_limit, node_end) "
                     "and ce_adds(old(self)._graph, a, b, inherits)) else ((a, b) in old(self)._graph.inh)))"],
                 properties=["C02", "C04", "C09"]))
