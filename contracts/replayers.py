"""Native replayers: turn a counter-model / bounded case into a run of the real code."""
from __future__ import annotations


def try_native(pid, result, job, reg):
    return None


def rerun(rep):
    if rep.get("kind") == "bounded":
        from . import bounded
        return bounded.rerun(rep)
    return False, "no replayer"
